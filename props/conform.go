package props

import (
	"encoding/hex"
	"errors"
	"fmt"
	"io"
	"net"
	"net/netip"
	"os"
	"strings"
	"sync"
	"time"

	"github.com/jwhited/corebgp"

	"corebgpverif/harness"
	"corebgpverif/wire"
	"corebgpverif/world"
)

// Conformance of the virtual runtime with the real one (DESIGN.md 3.6).
//
// Every wire-level case of C08/C09 is a piece of data (stimCase). The same case is interpreted twice:
// by runStim on the REWRITTEN corebgp under vrt/vnet (virtual goroutines, virtual TCP, virtual time),
// and by realStim on the UNREWRITTEN corebgp on the Go runtime over loopback TCP in real time. Both
// produce a StimTranscript - what a remote speaker can observe plus the plugin's callbacks - and the
// driver (vcheck) compares them. The cases are deterministic single-connection sessions, so the two
// transcripts must be equal; a difference means that the rewriter, vrt or vnet does not behave like
// the Go runtime / the kernel for that trace.

// StimTranscript is the observable outcome of one stimCase.
type StimTranscript struct {
	Reached   bool     `json:"reached"`
	Open      string   `json:"open_hex"`  // body of the OPEN corebgp sent
	After     []string `json:"after"`     // "<type>:<body hex>" of every message after the state was reached
	Closed    bool     `json:"closed"`    // corebgp closed the connection (EOF or reset seen by the remote)
	TimedOut  bool     `json:"timed_out"` // it was still open when the remote stopped waiting
	Delivered []string `json:"delivered"` // bodies handed to the UPDATE handler
	NEst      int      `json:"n_established"`
	NClose    int      `json:"n_onclose"`
	Err       string   `json:"harness_error,omitempty"`
}

// stimCollector, when set, receives every case instead of running it.
var stimCollector func(prop string, cs stimCase)

// ConformCase is one collected case.
type ConformCase struct {
	Index int      `json:"index"`
	Case  stimCase `json:"case"`
}

// ConformCases enumerates the cases of prop's check (tier) without running them and returns every
// stride-th one that both interpreters support.
func ConformCases(prop, tier string, stride int) []ConformCase {
	ch := harness.Lookup(prop)
	if ch == nil {
		return nil
	}
	var all []stimCase
	stimCollector = func(p string, cs stimCase) {
		if p == prop {
			all = append(all, cs)
		}
	}
	defer func() { stimCollector = nil }()
	ch.Run(harness.NewCtx(prop, tier, 0, 1, 0, 0))
	var out []ConformCase
	for i, cs := range all {
		if cs.Expect == "second-connection" || strings.HasPrefix(cs.Cfg, "lhold3") || cs.Cfg == "slowclose" {
			continue // two connections / periodic KEEPALIVEs inside the observation window: not interpreted by realStim
		}
		if stride > 1 && i%stride != 0 {
			continue
		}
		out = append(out, ConformCase{Index: i, Case: cs})
	}
	return out
}

// ModelTranscript runs the case on the rewritten corebgp under vrt (default schedule).
func ModelTranscript(cs stimCase) StimTranscript {
	o, e := runStim(cs, false)
	defer e.Finish()
	t := StimTranscript{Reached: o.reached, Closed: o.eof, TimedOut: o.timedOut, NEst: o.nEst, NClose: o.nClose}
	if o.w != nil {
		for _, ev := range o.w.Log {
			if ev.Kind == "rx" && ev.Msg != nil && ev.Msg.Type == wire.TypeOpen && t.Open == "" {
				t.Open = hex.EncodeToString(ev.Msg.Body)
			}
		}
	}
	for _, m := range o.after {
		t.After = append(t.After, fmt.Sprintf("%d:%x", m.Type, m.Body))
	}
	for _, d := range o.delivered {
		t.Delivered = append(t.Delivered, hex.EncodeToString(d))
	}
	if r, m := basicVerdict(e); r != "" {
		t.Err = r + ": " + m
	}
	return t
}

// ---------- the real-runtime interpreter ----------

type realPlugin struct {
	mu        sync.Mutex
	sessions  int
	nEst      int
	nClose    int
	delivered [][]byte
	openNotif func() *corebgp.Notification
	handle    func() *corebgp.Notification
}

func (p *realPlugin) GetCapabilities(corebgp.PeerConfig) []corebgp.Capability { return nil }
func (p *realPlugin) OnOpenMessage(corebgp.PeerConfig, netip.Addr, []corebgp.Capability) *corebgp.Notification {
	if p.openNotif != nil {
		return p.openNotif()
	}
	return nil
}
func (p *realPlugin) OnEstablished(_ corebgp.PeerConfig, w corebgp.UpdateMessageWriter) corebgp.UpdateMessageHandler {
	p.mu.Lock()
	p.sessions++
	p.nEst++
	s := p.sessions
	p.mu.Unlock()
	w.WriteUpdate(world.MarkerBody(s)) // nolint: errcheck
	return func(_ corebgp.PeerConfig, b []byte) *corebgp.Notification {
		p.mu.Lock()
		p.delivered = append(p.delivered, append([]byte{}, b...))
		p.mu.Unlock()
		if p.handle != nil {
			return p.handle()
		}
		return nil
	}
}
func (p *realPlugin) OnClose(corebgp.PeerConfig) {
	p.mu.Lock()
	p.nClose++
	p.mu.Unlock()
}

func (p *realPlugin) hasDelivered(body string) bool {
	p.mu.Lock()
	defer p.mu.Unlock()
	for _, d := range p.delivered {
		if string(d) == body {
			return true
		}
	}
	return false
}

// realRemote is the scripted speaker over a real TCP connection, with the strict frame parser.
type realRemote struct {
	c      net.Conn
	buf    []byte
	rx     []wire.Msg
	closed bool // EOF or reset
	timed  bool
}

func (r *realRemote) readMsg(wait time.Duration) (wire.Msg, bool) {
	for {
		msgs, _, err := wire.ParseStrict(r.buf)
		if len(msgs) > 0 {
			m := msgs[0]
			r.buf = r.buf[wire.HeaderLen+len(m.Body):]
			r.rx = append(r.rx, m)
			return m, true
		}
		if err != nil || r.closed {
			return wire.Msg{}, false
		}
		r.c.SetReadDeadline(time.Now().Add(wait))
		tmp := make([]byte, 8192)
		n, rerr := r.c.Read(tmp)
		r.buf = append(r.buf, tmp[:n]...)
		if rerr != nil {
			if errors.Is(rerr, os.ErrDeadlineExceeded) {
				r.timed = true
				return wire.Msg{}, false
			}
			// io.EOF, ECONNRESET (the kernel answers a close with unread data by RST): closed by corebgp
			_ = io.EOF
			r.closed = true
		}
	}
}

func (r *realRemote) expect(typ byte) (wire.Msg, bool) {
	m, ok := r.readMsg(3 * time.Second)
	return m, ok && m.Type == typ
}

func (r *realRemote) drain(wait time.Duration) {
	for {
		if _, ok := r.readMsg(wait); !ok {
			return
		}
	}
}

func (r *realRemote) send(b []byte, chunks ...int) {
	if len(chunks) == 0 {
		r.c.Write(b) // nolint: errcheck
		return
	}
	i := 0
	for len(b) > 0 {
		n := chunks[i]
		if i < len(chunks)-1 {
			i++
		}
		if n > len(b) {
			n = len(b)
		}
		if _, err := r.c.Write(b[:n]); err != nil {
			return
		}
		b = b[n:]
	}
}

func (r *realRemote) reach(st int, ras uint32, hold uint16, t *StimTranscript, extra ...wire.Cap) bool {
	m, ok := r.expect(wire.TypeOpen)
	if !ok {
		return false
	}
	t.Open = hex.EncodeToString(m.Body)
	if st == stOpenSent {
		return true
	}
	r.send(wire.Open(ras, hold, 0x0a000002, extra...))
	if _, ok := r.expect(wire.TypeKeepalive); !ok {
		return false
	}
	if st == stOpenConfirm {
		return true
	}
	r.send(wire.Keepalive())
	m, ok = r.expect(wire.TypeUpdate)
	if !ok {
		return false
	}
	_, ok = world.IsMarker(m.Body)
	return ok
}

// realPorts hands out distinct loopback source addresses so that parallel cases never share a 4-tuple.
var realSeq struct {
	sync.Mutex
	n int
}

// RealTranscript runs the case against the unrewritten corebgp over loopback TCP.
func RealTranscript(cs stimCase) (t StimTranscript) {
	fail := func(f string, a ...any) StimTranscript {
		t.Err = fmt.Sprintf(f, a...)
		return t
	}
	stim, _ := hex.DecodeString(cs.Stimulus)
	post, _ := hex.DecodeString(cs.Post)
	var plugN []byte
	if cs.PlugN != "" {
		plugN, _ = hex.DecodeString(cs.PlugN)
	}
	mkNotif := func() *corebgp.Notification {
		return &corebgp.Notification{Code: plugN[0], Subcode: plugN[1], Data: append([]byte(nil), plugN[2:]...)}
	}
	lhold, rhold, ras := stimCfg(cs.Cfg)
	realSeq.Lock()
	realSeq.n++
	seq := realSeq.n
	realSeq.Unlock()
	// every case has its own remote address 127.x.y.2 (Linux answers for all of 127/8)
	remIP := netip.AddrFrom4([4]byte{127, byte(1 + seq/250%250), byte(1 + seq%250), 2})
	srv, err := corebgp.NewServer(netip.MustParseAddr("10.0.0.1"))
	if err != nil {
		return fail("NewServer: %v", err)
	}
	pl := &realPlugin{}
	if cs.PlugAt == "open" {
		pl.openNotif = mkNotif
	}
	if cs.PlugAt == "handler" {
		pl.handle = mkNotif
	}
	lis, err := net.Listen("tcp", "127.0.0.1:0")
	if err != nil {
		return fail("listen: %v", err)
	}
	var opts []corebgp.PeerOption
	if lhold >= 0 {
		opts = append(opts, corebgp.WithHoldTime(uint16(lhold)))
	}
	var remLis net.Listener
	if cs.Inbound {
		opts = append(opts, corebgp.WithPassive())
	} else {
		remLis, err = net.Listen("tcp", net.JoinHostPort(remIP.String(), "0"))
		if err != nil {
			lis.Close()
			return fail("remote listen: %v", err)
		}
		defer remLis.Close()
		opts = append(opts, corebgp.WithPort(remLis.Addr().(*net.TCPAddr).Port))
	}
	if err := srv.AddPeer(corebgp.PeerConfig{RemoteAddress: remIP, LocalAS: 65001, RemoteAS: ras}, pl, opts...); err != nil {
		lis.Close()
		return fail("AddPeer: %v", err)
	}
	served := make(chan error, 1)
	go func() { served <- srv.Serve([]net.Listener{lis}) }()
	defer func() {
		srv.Close()
		select {
		case <-served:
		case <-time.After(10 * time.Second):
			t.Err = "Serve did not return within 10 s of Close"
		}
		pl.mu.Lock()
		t.NEst, t.NClose = pl.nEst, pl.nClose
		for _, d := range pl.delivered {
			t.Delivered = append(t.Delivered, hex.EncodeToString(d))
		}
		pl.mu.Unlock()
	}()
	var conn net.Conn
	if cs.Inbound {
		d := net.Dialer{LocalAddr: &net.TCPAddr{IP: net.IP(remIP.AsSlice())}, Timeout: 3 * time.Second}
		conn, err = d.Dial("tcp", lis.Addr().String())
	} else {
		remLis.(*net.TCPListener).SetDeadline(time.Now().Add(5 * time.Second))
		conn, err = remLis.Accept()
	}
	if err != nil {
		return fail("connection: %v", err)
	}
	defer conn.Close()
	r := &realRemote{c: conn}
	st := cs.State
	if cs.PlugAt == "open" {
		if !r.reach(stOpenSent, ras, rhold, &t) {
			return t
		}
		t.Reached = true
		r.send(wire.Open(ras, rhold, 0x0a000002, stimCaps(cs.Cfg)...))
	} else {
		if !r.reach(st, ras, rhold, &t, stimCaps(cs.Cfg)...) {
			return t
		}
		t.Reached = true
	}
	start := len(r.rx)
	var stream []byte
	for i := 0; i < cs.PreKA; i++ {
		stream = append(stream, wire.Keepalive()...)
	}
	for _, p := range cs.Pre {
		b, _ := hex.DecodeString(p)
		stream = append(stream, wire.Update(b)...)
	}
	stream = append(stream, stim...)
	stream = append(stream, post...)
	if len(stream) > 0 {
		r.send(stream, cs.Chunks...)
	}
	after := func() {
		for _, m := range r.rx[start:] {
			t.After = append(t.After, fmt.Sprintf("%d:%x", m.Type, m.Body))
		}
	}
	switch cs.End {
	case "fin":
		conn.(*net.TCPConn).CloseWrite()
	case "rst":
		conn.(*net.TCPConn).SetLinger(0)
		conn.Close()
		// give corebgp the time to notice before the server is closed
		time.Sleep(100 * time.Millisecond)
		return t
	}
	if cs.Expect == "progress" {
		switch {
		case st == stOpenSent:
			r.expect(wire.TypeKeepalive)
		case st == stOpenConfirm:
			r.expect(wire.TypeUpdate)
		default:
			r.send(wire.Update([]byte("PROBE")))
			for dl := time.Now().Add(5 * time.Second); time.Now().Before(dl) && !pl.hasDelivered("PROBE"); {
				time.Sleep(2 * time.Millisecond)
			}
		}
		after()
		return t
	}
	r.drain(5 * time.Second)
	after()
	t.Closed, t.TimedOut = r.closed, r.timed
	return t
}
