package props

import (
	"fmt"
	"net"
	"net/netip"
	"strings"
	"time"

	"github.com/jwhited/corebgp"

	"corebgpverif/vnet"
	"corebgpverif/vrt"
	"corebgpverif/world"
)

const (
	libIP    = "10.0.0.1"
	remIP    = "10.0.0.2"
	libAddr  = "10.0.0.1:179"
	remAddr  = "10.0.0.2:179"
	remIP2   = "10.0.0.3"
	remAddr2 = "10.0.0.3:179"
)

func ip4(u uint32) string {
	return fmt.Sprintf("%d.%d.%d.%d", byte(u>>24), byte(u>>16), byte(u>>8), byte(u))
}

// Sess describes a single-connection scenario: one server, one peer P1, one
// connection in the given direction on which the remote runs Script.
type Sess struct {
	LocalAS, RemoteAS uint32
	RouterID          uint32 // server router id
	RouterAddr        string // if set, the textual router id handed to NewServer instead (e.g. the IPv4-mapped form)
	Hold              int    // local hold time in seconds; -1 = library default (90)
	Inbound           bool
	Plugin            func(w *world.World) *world.Plugin
	Script            func(w *world.World, r *world.Remote)
	Horizon           time.Duration
	Legacy            bool
	Race              bool
	Opts              []corebgp.PeerOption
	// Main, if set, replaces the default epilogue (wait for the remote script,
	// Close, wait for Serve).
	Main func(w *world.World)
	// Bystander adds a second, passive peer P2 (10.0.0.3) used as liveness probe.
	Bystander bool
	// Reconnect lets a second connection happen (Script runs once per connection): outbound
	// the second dial attempt is accepted too, inbound the remote connects again after 1 s.
	Reconnect bool
	// ReconnectAfter: how long the inbound remote waits before it connects again (default 1 s), and how much
	// longer the run waits for the second connection (a first connection that ends in a protocol error is
	// followed by a hold-down of a minute).
	ReconnectAfter time.Duration
}

func peerConfig(remote string, las, ras uint32) corebgp.PeerConfig {
	return corebgp.PeerConfig{RemoteAddress: netip.MustParseAddr(remote), LocalAS: las, RemoteAS: ras}
}

// Run executes the scenario once. The caller inspects w and e and must call
// e.Finish().
func (s *Sess) Run(ch vrt.Chooser, trace bool) (*world.World, *vrt.Exec) {
	var w *world.World
	hz := s.Horizon
	if hz == 0 {
		hz = 30 * time.Second
	}
	e := vrt.Run(vrt.Config{Horizon: int64(hz), LegacyTimers: s.Legacy, Race: s.Race, Trace: trace, Chooser: ch}, func() {
		w = world.New(libIP)
		rid := s.RouterID
		if rid == 0 {
			rid = 0x0a000001
		}
		if s.RouterAddr != "" {
			w.NewServer(s.RouterAddr)
		} else {
			w.NewServer(ip4(rid))
		}
		pl := s.Plugin(w)
		opts := append([]corebgp.PeerOption{}, s.Opts...)
		if s.Hold >= 0 {
			opts = append(opts, corebgp.WithHoldTime(uint16(s.Hold)))
		}
		opts = append(opts, corebgp.WithDialerControl(w.DialControl("P1")))
		if s.Inbound {
			opts = append(opts, corebgp.WithPassive())
		} else {
			w.NW.OnDial(remAddr, func(att int, from *net.TCPAddr) vnet.DialOutcome {
				if att > 0 && !(att == 1 && s.Reconnect) {
					return vnet.DialOutcome{Kind: vnet.DialRefuse}
				}
				return vnet.DialOutcome{Kind: vnet.DialAccept, Serve: func(c *vnet.Conn) {
					r := w.NewRemote(c, "P1")
					s.Script(w, r)
					r.Finish()
				}}
			})
		}
		if err := w.Server.AddPeer(peerConfig(remIP, s.LocalAS, s.RemoteAS), pl, opts...); err != nil {
			panic("harness: AddPeer: " + err.Error())
		}
		w.Serve(libAddr)
		if s.Inbound {
			vrt.GoWorld("remote-in", func() {
				c, err := w.NW.DialIn("10.0.0.2:40001", libAddr)
				if err != nil {
					panic("harness: DialIn: " + err.Error())
				}
				r := w.NewRemote(c, "P1")
				s.Script(w, r)
				r.Finish()
				if s.Reconnect {
					if s.ReconnectAfter > 0 {
						vrt.Sleep(s.ReconnectAfter)
					} else {
						vrt.Sleep(time.Second)
					}
					if c2, err := w.NW.DialIn("10.0.0.2:40002", libAddr); err == nil {
						r2 := w.NewRemote(c2, "P1")
						s.Script(w, r2)
						r2.Finish()
					}
				}
			})
		}
		if s.Main != nil {
			s.Main(w)
			return
		}
		want := 1
		if s.Reconnect {
			want = 2
		}
		vrt.NewTimer(15*time.Second + s.ReconnectAfter)
		dl := vrt.Cur().Now() + int64(15*time.Second+s.ReconnectAfter)
		vrt.WaitLog("remote-done", func() bool { return w.AllRemotesDone(want) || (s.Reconnect && vrt.Cur().Now() >= dl) })
		vrt.LogTouch()
		w.Close()
		w.WaitServeDone()
	})
	return w, e
}

// libPanic classifies a panic: true if corebgp code is on the stack.
func libPanic(p *vrt.PanicInfo) bool {
	return p != nil && strings.Contains(p.Stack, "github.com/jwhited/corebgp.")
}

// basicVerdict checks what every scenario checks: no panic in library code,
// no engine failure, main finished (no deadlock), step cap not hit.
func basicVerdict(e *vrt.Exec) (rule, msg string) {
	if p := e.Panic(); p != nil {
		if libPanic(p) {
			return "panic", fmt.Sprintf("corebgp panicked in %s: %s\n%s", p.G, p.Value, trimStack(p.Stack))
		}
		if strings.HasPrefix(p.Value, "harness: ") && strings.Contains(p.Stack, "AddPeer") {
			// the scenario's own, valid peer configuration was refused by AddPeer (never on the tree the
			// scenarios were written for): the session the property talks about cannot even be set up
			return "usable-config-rejected", "AddPeer refused a configuration this scenario needs and that can yield a valid session: " + strings.TrimPrefix(p.Value, "harness: ")
		}
		panic("ENGINE-ERROR harness panic in " + p.G + ": " + p.Value + "\n" + p.Stack)
	}
	if e.Reason() == vrt.EndTruncated {
		return "", ""
	}
	if e.Reason() == vrt.EndStepCap {
		return "livelock", fmt.Sprintf("the execution did not end within %d steps (virtual time %s): corebgp is busy-looping", e.Steps(), time.Duration(e.Now()))
	}
	if !e.MainDone() {
		var sb strings.Builder
		for _, g := range e.Goroutines() {
			if !g.Done() {
				fmt.Fprintf(&sb, " %s@%s", g.Name(), g.PendingSite())
			}
		}
		return "deadlock", fmt.Sprintf("driver did not finish (%s at t=%s); blocked:%s", e.Reason(), time.Duration(e.Now()), sb.String())
	}
	return "", ""
}

func trimStack(s string) string {
	lines := strings.Split(s, "\n")
	var keep []string
	for i := 0; i < len(lines); i++ {
		if strings.Contains(lines[i], "jwhited/corebgp") {
			keep = append(keep, strings.TrimSpace(lines[i]))
			if i+1 < len(lines) {
				keep = append(keep, "    "+strings.TrimSpace(lines[i+1]))
			}
		}
		if len(keep) > 12 {
			break
		}
	}
	return strings.Join(keep, "\n")
}

// logText renders the observation log for replay files.
func logText(w *world.World) []string {
	if w == nil {
		return nil
	}
	r := make([]string, 0, len(w.Log))
	for _, ev := range w.Log {
		r = append(r, ev.String())
	}
	return r
}

// wireText renders what corebgp wrote per connection.
func wireText(w *world.World) []string {
	if w == nil {
		return nil
	}
	var r []string
	for _, c := range w.NW.Conns {
		if c.Lib {
			r = append(r, fmt.Sprintf("%s local=%s remote=%s sent=%x", c, c.LocalAddr(), c.RemoteAddr(), c.Sent))
		}
	}
	return r
}
