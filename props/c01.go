package props

import (
	"fmt"
	"net"
	"strings"
	"time"

	"github.com/jwhited/corebgp"

	"corebgpverif/harness"
	"corebgpverif/vnet"
	"corebgpverif/vrt"
	"corebgpverif/wire"
	"corebgpverif/world"
)

// C01: one Established session per peer; well-formed callback history. The
// monitor (monitorCallbacks) is evaluated on every explored execution of a
// product of connection scripts, identifier dominance, API tails and trigger
// points.

type connScript struct {
	name string
	f    func(w *world.World, r *world.Remote, id uint32)
}

func csOpen(id uint32) []byte { return wire.Open(65002, 90, id) }

var connScripts = []connScript{
	{"close-at-accept", func(w *world.World, r *world.Remote, id uint32) { r.C.Close() }},
	{"open-then-close", func(w *world.World, r *world.Remote, id uint32) {
		r.Expect(wire.TypeOpen)
		r.Send(csOpen(id))
		r.C.Close()
	}},
	{"open-then-stall", func(w *world.World, r *world.Remote, id uint32) {
		r.Expect(wire.TypeOpen)
		r.Send(csOpen(id))
		r.Drain()
	}},
	{"bad-open", func(w *world.World, r *world.Remote, id uint32) {
		r.Expect(wire.TypeOpen)
		r.Send(wire.Open(64999, 90, id))
		r.Drain()
	}},
	{"handshake-stay", func(w *world.World, r *world.Remote, id uint32) {
		r.Send(csOpen(id))
		r.Send(wire.Keepalive())
		r.Send(wire.Update([]byte("U1")))
		r.Drain()
	}},
	{"handshake-update-close", func(w *world.World, r *world.Remote, id uint32) {
		r.Send(csOpen(id))
		r.Send(wire.Keepalive())
		r.Send(wire.Update([]byte("U1")))
		r.Send(wire.Update([]byte("U2")))
		r.C.Close()
	}},
	{"handshake-cease", func(w *world.World, r *world.Remote, id uint32) {
		r.Send(csOpen(id))
		r.Send(wire.Keepalive())
		r.Send(wire.Update([]byte("U1")))
		r.Send(wire.Notification(6, 2, nil))
		r.Drain()
	}},
	{"handshake-garbage", func(w *world.World, r *world.Remote, id uint32) {
		r.Send(csOpen(id))
		r.Send(wire.Keepalive())
		r.Send(wire.Update([]byte("U1")))
		r.Send([]byte{1, 2, 3, 4, 5, 6, 7, 8, 9, 10, 11, 12, 13, 14, 15, 16, 17, 18, 19})
		r.Drain()
	}},
	{"handshake-duplicate-open", func(w *world.World, r *world.Remote, id uint32) {
		// the OPEN twice, then the rest of a normal handshake: whatever corebgp makes of the second OPEN,
		// the plugin hears of one OPEN per connection
		r.Send(csOpen(id))
		r.Send(csOpen(id))
		r.Send(wire.Keepalive())
		r.Send(wire.Update([]byte("U1")))
		r.Drain()
	}},
}

type c01Params struct {
	passive bool
	in      int // index into connScripts, -1 = no inbound connection
	out     int // index into connScripts, -1 = refuse
	domL    bool
	tail    int // 0 Close, 1 DeletePeer;Close, 2 DeletePeer;AddPeer;Close, 3 DeletePeer || AddPeer, then Close, 4 DeletePeer || Close, 5 Close || Close
	trigK   string
	trigN   int
	api2J   int // tails 3/4: the second API goroutine acts api2J steps after DeletePeer was called
}

func (p c01Params) name() string {
	nm := func(i int, none string) string {
		if i < 0 {
			return none
		}
		return connScripts[i].name
	}
	mode := "active"
	if p.passive {
		mode = "passive"
	}
	dom := "L<R"
	if p.domL {
		dom = "L>R"
	}
	s := fmt.Sprintf("%s/in=%s/out=%s/%s/tail%d/%s%d", mode, nm(p.in, "none"), nm(p.out, "refuse"), dom, p.tail, p.trigK, p.trigN)
	if p.tail >= 3 {
		s += fmt.Sprintf("+%d", p.api2J)
	}
	return s
}

func c01Run(p c01Params, ch vrt.Chooser, trace, baseline bool) (*world.World, *vrt.Exec, int) {
	var w *world.World
	steps := 0
	rid := uint32(0x0a000009)
	lid := uint32(0x0a000001)
	if p.domL {
		lid, rid = 0x0a000009, 0x0a000002
	}
	e := vrt.Run(vrt.Config{Horizon: int64(45 * time.Second), Trace: trace, Chooser: ch}, func() {
		w = world.New(libIP)
		w.NewServer(ip4(lid))
		pl := &world.Plugin{W: w, Peer: "P1", Marker: true}
		w.NW.OnDial(remAddr, func(att int, from *net.TCPAddr) vnet.DialOutcome {
			si := p.out
			if att > 0 {
				si = 4 // later attempts meet a well-behaved remote
			}
			if si < 0 {
				return vnet.DialOutcome{Kind: vnet.DialRefuse}
			}
			return vnet.DialOutcome{Kind: vnet.DialAccept, Serve: func(c *vnet.Conn) {
				r := w.NewRemote(c, "P1")
				r.Deadline(25 * time.Second)
				connScripts[si].f(w, r, rid)
				r.Finish()
			}}
		})
		opts := []corebgp.PeerOption{corebgp.WithDialerControl(w.DialControl("P1"))}
		if p.passive {
			opts = append(opts, corebgp.WithPassive())
		}
		add := func() {
			w.Append(world.Event{Kind: "api:AddPeer", Phase: "call", Peer: remIP, Conn: -1})
			err := w.AddPeer(peerConfig(remIP, 65001, 65002), pl, opts...)
			w.Append(world.Event{Kind: "api:AddPeer", Phase: "return", Peer: remIP, Conn: -1, Err: fmt.Sprint(err)})
		}
		add()
		w.Serve(libAddr)
		dialIn := func(port int, si int) {
			vrt.GoWorld(fmt.Sprintf("remote-in%d", port), func() {
				c, err := w.NW.DialIn(fmt.Sprintf("10.0.0.2:%d", port), libAddr)
				if err != nil {
					return
				}
				r := w.NewRemote(c, "P1")
				r.Deadline(25 * time.Second)
				connScripts[si].f(w, r, rid)
				r.Finish()
			})
		}
		if p.in >= 0 {
			dialIn(40001, p.in)
			if p.passive {
				// a passive peer only comes back if the remote reconnects
				vrt.GoWorld("redial", func() {
					vrt.Sleep(7 * time.Second)
					dialIn(40002, 4)
				})
			}
		}
		if baseline {
			vrt.Sleep(20 * time.Second)
			steps = vrt.Cur().Steps()
			w.Close()
			w.WaitServeDone()
			return
		}
		switch p.trigK {
		case "step":
			vrt.WaitStep(p.trigN)
		case "time":
			if p.trigN > 0 {
				vrt.Sleep(time.Duration(p.trigN) * time.Millisecond)
			}
			vrt.WaitQuiescent()
		}
		if p.tail >= 3 && p.tail <= 5 {
			// a second API goroutine races with DeletePeer (tails 3, 4) or with Close (tail 5)
			t0 := vrt.Cur().Steps()
			vrt.GoWorld("api2", func() {
				vrt.WaitStep(t0 + p.api2J)
				if p.tail == 3 {
					add()
				} else {
					w.Close()
				}
				w.SetFlag("api2-done")
			})
			if p.tail == 5 {
				w.Close()
			} else {
				w.DeletePeer(remIP)
			}
			w.WaitFlag("api2-done")
			if p.tail == 3 {
				rest := 44*time.Second - time.Duration(vrt.Cur().Now())
				if rest > 12*time.Second {
					rest = 12 * time.Second
				}
				if rest > 0 {
					vrt.Sleep(rest)
				}
				vrt.WaitQuiescent()
			}
		} else if p.tail >= 1 {
			w.DeletePeer(remIP)
			if p.tail == 2 {
				add()
				// give the re-added peer time to establish again, within the horizon
				rest := 44*time.Second - time.Duration(vrt.Cur().Now())
				if rest > 12*time.Second {
					rest = 12 * time.Second
				}
				if rest > 0 {
					vrt.Sleep(rest)
				}
				vrt.WaitQuiescent()
			}
		}
		w.Close()
		w.WaitServeDone()
		vrt.WaitQuiescent()
	})
	return w, e, steps
}

func c01Scn(p c01Params, bound int) *Scn { return c01ScnFor("C01", p, bound) }

// c01MatrixLate: every pair of first-connection scripts in both modes and dominances, with Close only
// after 13 virtual seconds (all reconnections have happened): the sequences of sessions in both
// directions that single-connection input enumeration never produces (also run by C05).
func c01MatrixLate() []c01Params {
	var out []c01Params
	for _, passive := range []bool{false, true} {
		for in := -1; in < len(connScripts); in++ {
			outs := []int{-1}
			if !passive {
				for i := range connScripts {
					outs = append(outs, i)
				}
			} else if in < 0 {
				continue
			}
			for _, o := range outs {
				for _, domL := range []bool{false, true} {
					out = append(out, c01Params{passive: passive, in: in, out: o, domL: domL, tail: 0, trigK: "time", trigN: 13000})
				}
			}
		}
	}
	return out
}

func c01ScnFor(prop string, p c01Params, bound int) *Scn {
	return &Scn{Name: p.name(), Bound: bound, Run: func(ch vrt.Chooser, trace bool) *ScnResult {
		w, e, _ := c01Run(p, ch, trace, false)
		return finishRun(prop, "callbacks", w, e, trace, false, func() (string, string) {
			if r, m := monitorCallbacks(w); r != "" {
				return r, m
			}
			if len(e.LiveLib()) > 0 && e.Reason() == vrt.EndQuiescent {
				return "", ""
			}
			return "", ""
		}, nil)
	}}
}

func c01Scenarios(th bool) []*Scn {
	var out []*Scn
	bound := 1
	var combos []c01Params
	for _, passive := range []bool{false, true} {
		for in := -1; in < len(connScripts); in++ {
			outs := []int{-1}
			if !passive {
				for i := range connScripts {
					outs = append(outs, i)
				}
			} else if in < 0 {
				continue
			}
			for _, o := range outs {
				for di, domL := range []bool{false, true} {
					for tail := 0; tail < 3; tail++ {
						// the diagonal: the full (in,out) matrix with one (dominance, tail) each, rotating
						diag := (in+o+2)%2 == di && (in+2*o+6)%3 == tail
						if !th && !diag {
							continue
						}
						cb := c01Params{passive: passive, in: in, out: o, domL: domL, tail: tail}
						if th && diag {
							cb.api2J = -2 // marker: explore this one a bound deeper
						}
						combos = append(combos, cb)
					}
				}
			}
		}
	}
	for _, cb := range combos {
		bound := bound
		if cb.api2J == -2 {
			// thorough: the full product at bound 1, its diagonal at bound 2
			cb.api2J = 0
			bound = 2
		}
		_, e, n := c01Run(cb, nil, false, true)
		e.Finish()
		times := []int{0, 6000, 13000}
		for _, t := range times {
			q := cb
			q.trigK, q.trigN = "time", t
			out = append(out, c01Scn(q, bound))
		}
		stride := n/12 + 1
		if th && bound == 1 {
			stride = n/24 + 1
		}
		for j := stride / 2; j <= n; j += stride {
			q := cb
			q.trigK, q.trigN = "step", j
			out = append(out, c01Scn(q, bound))
		}
	}
	out = append(out, c01ConcurrentTails("C01", th, []int{3, 4, 5}, []int{0, 1, 2, 4, 5})...)
	// a callback that takes longer than any internal patience: DeletePeer / Close wait for it
	stay := 4
	type io struct {
		passive bool
		in, out int
	}
	for _, cb := range []io{{false, -1, stay}, {true, stay, -1}} {
		for _, tail := range []int{0, 1, 2} {
			for _, kind := range []string{"Handler", "OnEstablished"} {
				p := c01Params{passive: cb.passive, in: cb.in, out: cb.out, tail: tail, trigK: "time", trigN: 1000}
				out = append(out, slowTwin(c01Scn(p, 1), kind, 1, 7*time.Second))
			}
		}
	}
	// several peers with Established sessions at shutdown
	for _, n := range []int{2, 3} {
		for _, t := range []int{0, 3000} {
			out = append(out, c01MultiScn(n, t, bound))
		}
	}
	return out
}

// c01ConcurrentTails: (a) a second goroutine calls AddPeer (tail 3) or Close (tail 4) j steps into DeletePeer,
// or Close j steps into Close (tail 5), for every j of a sweep, on the script pairs that have a session to
// tear down; (b) slow plugin callbacks: the API tail starts while an FSM goroutine sits inside a callback
// that takes 300 ms (100 ms in / at the instant it returns); OnClose: the second call of a tail meets it.
// Also run by C10 (tails with a Close in them): what holds at the return of Close holds whoever else is
// shutting down at the same time.
func c01ConcurrentTails(prop string, th bool, tails, slowTails []int) []*Scn {
	var out []*Scn
	bound := 1
	stay := 4
	type io struct {
		passive bool
		in, out int
	}
	for _, cb := range []io{{false, -1, stay}, {false, stay, -1}, {true, stay, -1}, {false, -1, 5}, {false, stay, stay}} {
		for _, tail := range tails {
			for _, t := range []int{0, 6000} {
				stride := 4
				if th {
					stride = 1
				}
				for j := 0; j <= 44; j += stride {
					out = append(out, c01ScnFor(prop, c01Params{passive: cb.passive, in: cb.in, out: cb.out, tail: tail, trigK: "time", trigN: t, api2J: j}, bound+1))
				}
			}
		}
	}
	for _, cb := range []io{{false, -1, stay}, {true, stay, -1}, {false, stay, stay}, {false, -1, 5}} {
		for _, tail := range slowTails {
			for _, kind := range []string{"GetCapabilities", "OnOpenMessage", "OnEstablished", "OnClose"} {
				for _, t := range []int{100, 300} {
					if kind == "OnClose" && t == 300 {
						continue
					}
					p := c01Params{passive: cb.passive, in: cb.in, out: cb.out, tail: tail, trigK: "time", trigN: t}
					if tail >= 4 {
						p.api2J = 6
					}
					out = append(out, slowTwin(c01ScnFor(prop, p, 1), kind, 1, 300*time.Millisecond))
				}
			}
		}
	}
	return out
}

// c01MultiScn: n passive peers (10.0.0.2, .3, .4) all Established through inbound
// connections, then Close; every session must get its OnClose before Close returns.
func c01MultiScn(n, atMs, bound int) *Scn {
	name := fmt.Sprintf("multi/%dpeers/time%d", n, atMs)
	return &Scn{Name: name, Bound: bound, Run: func(ch vrt.Chooser, trace bool) *ScnResult {
		var w *world.World
		e := vrt.Run(vrt.Config{Horizon: int64(30 * time.Second), Trace: trace, Chooser: ch}, func() {
			w = world.New(libIP)
			w.NewServer(libIP)
			for i := 0; i < n; i++ {
				ip := fmt.Sprintf("10.0.0.%d", 2+i)
				pl := &world.Plugin{W: w, Peer: fmt.Sprintf("P%d", i+1), Marker: true}
				if err := w.Server.AddPeer(peerConfig(ip, 65001, uint32(65002+i)), pl, corebgp.WithPassive()); err != nil {
					panic("harness: " + err.Error())
				}
			}
			w.Serve(libAddr)
			for i := 0; i < n; i++ {
				i := i
				vrt.GoWorld(fmt.Sprintf("remote-in%d", i), func() {
					c, err := w.NW.DialIn(fmt.Sprintf("10.0.0.%d:4000%d", 2+i, i), libAddr)
					if err != nil {
						return
					}
					r := w.NewRemote(c, fmt.Sprintf("P%d", i+1))
					r.Send(wire.Open(uint32(65002+i), 90, uint32(0x0a000002+i)))
					r.Send(wire.Keepalive())
					r.Send(wire.Update([]byte("U1")))
					r.Deadline(25 * time.Second)
					r.Drain()
					r.Finish()
				})
			}
			if atMs > 0 {
				vrt.Sleep(time.Duration(atMs) * time.Millisecond)
			}
			vrt.WaitQuiescent()
			w.Close()
			w.WaitServeDone()
			vrt.WaitQuiescent()
		})
		return finishRun("C01", "callbacks", w, e, trace, false, func() (string, string) { return monitorCallbacks(w) }, nil)
	}}
}

func c01Check(c *harness.Ctx) {
	base := c01Scenarios(c.Thorough())
	scns := withLegacy(base, legacyEvery(c.Thorough(), 6))
	scns = append(scns, withHold0(base, legacyEvery(c.Thorough(), 7)*2)[len(base):]...)
	c.Res.Extra["scenarios_total"] = float64(len(scns)) / float64(max(c.Of, 1))
	for i, s := range scns {
		if !c.Mine(i) {
			continue
		}
		if c.Expired() {
			return
		}
		if !exploreScn(c, "C01", s) {
			return
		}
	}
}

func c01Lookup(name string) *Scn { return c01LookupFor("C01", name) }

func c01LookupFor(prop, name string) *Scn {
	if strings.HasPrefix(name, "multi/") {
		var n, t int
		fmt.Sscanf(name, "multi/%dpeers/time%d", &n, &t)
		return c01MultiScn(n, t, 3)
	}
	var p c01Params
	parts := strings.Split(name, "/")
	if len(parts) != 6 {
		return nil
	}
	p.passive = parts[0] == "passive"
	idx := func(s, none string) int {
		if s == none {
			return -1
		}
		for i, cs := range connScripts {
			if cs.name == s {
				return i
			}
		}
		return -1
	}
	p.in = idx(strings.TrimPrefix(parts[1], "in="), "none")
	p.out = idx(strings.TrimPrefix(parts[2], "out="), "refuse")
	p.domL = parts[3] == "L>R"
	fmt.Sscanf(parts[4], "tail%d", &p.tail)
	if strings.HasPrefix(parts[5], "step") {
		p.trigK = "step"
		fmt.Sscanf(parts[5], "step%d", &p.trigN)
	} else {
		p.trigK = "time"
		fmt.Sscanf(parts[5], "time%d", &p.trigN)
	}
	if i := strings.IndexByte(parts[5], '+'); i >= 0 {
		fmt.Sscanf(parts[5][i:], "+%d", &p.api2J)
	}
	return c01ScnFor(prop, p, 3)
}

func init() {
	harness.Register(&harness.Check{
		Property: "C01", Level: "model_checking", NeedsConc: true, QuickS: 200, ThoroughS: 1500,
		Rule:   "stateless model checking of the real (rewritten) corebgp: {active, passive} x first inbound script x first outbound script (8 scripts each: close at accept, OPEN then close/stall, bad OPEN, handshake then stay/UPDATE+close/Cease/garbage; plus none/refused) x identifier dominance x API tail {Close | DeletePeer;Close | DeletePeer;AddPeer;Close} x trigger points (three quiescent points in virtual time and a stride over the step indices of the default execution); later reconnection attempts meet a well-behaved remote, so second sessions arise by themselves; every schedule within the delay bound (quick 1, thorough 2) is executed and the callback-history automaton (alternation, non-overlap, handler placement, GetCapabilities/OnOpenMessage per connection, session markers per connection) is evaluated on each; plus concurrent API tails (a second goroutine calling AddPeer or Close j steps into DeletePeer, or Close j steps into Close, j swept) slow-callback twins (the tail starts inside / at the end of a 300 ms callback) and three-peer shutdown scenarios (Close while P1..P3 are Established, every peer must see its own OnClose); distinct_nontrivial = distinct observable outcomes",
		Assume: []string{"delay-bounded schedules", "virtual network (A3)", "quick tier samples the (dominance, tail) dimensions on a rotating diagonal of the full script matrix; thorough takes the full product"},
		Run:    c01Check,
		Replay: scnReplay("C01", c01Lookup),
	})
}
