// Package props holds the property checks C01..C20; each file registers one.
package props
