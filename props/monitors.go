package props

import (
	"fmt"
	"net"

	"corebgpverif/wire"
	"corebgpverif/world"
)

// monitorCallbacks is the C01 monitor: the plugin callback history of every
// peer is well-formed. It reads only the observation log and the per-
// connection byte logs.
func monitorCallbacks(w *world.World) (rule, msg string) {
	type pst struct {
		state   int // 0 idle, 1 in OnEstablished, 2 established, 3 in handler, 4 in OnClose
		session int
		estSeq  int // seq of the OnEstablished.enter of the open session
	}
	peers := map[string]*pst{}
	closedAt := -1               // seq of api:Close.return
	deleted := map[string]bool{} // peer address deleted (and not re-added)
	// API call intervals. Two calls that overlap in time may take effect in either order whatever the order
	// of their return events in the log (a return is logged by the caller some steps after the library
	// decided), so the order of effects is only inferred from non-overlapping calls.
	type ival struct {
		name      string
		call, ret int // seq; ret = 1<<30 while unreturned
		ok        bool
	}
	var adds []ival
	delCall := map[int]int{} // seq of a DeletePeer return -> seq of its call
	{
		open := map[string]int{} // kind+goroutine -> seq of the pending call
		for _, ev := range w.Log {
			if ev.Kind != "api:AddPeer" && ev.Kind != "api:DeletePeer" {
				continue
			}
			k := ev.Kind + "/" + ev.G
			if ev.Phase == "call" {
				open[k] = ev.Seq
				if ev.Kind == "api:AddPeer" {
					adds = append(adds, ival{name: peerNameOf(ev.Peer), call: ev.Seq, ret: 1 << 30})
				}
				continue
			}
			c, had := open[k]
			if !had {
				c = ev.Seq
			}
			delete(open, k)
			if ev.Kind == "api:DeletePeer" {
				delCall[ev.Seq] = c
				continue
			}
			for i := range adds {
				if adds[i].call == c {
					adds[i].ret, adds[i].ok = ev.Seq, ev.Err == "<nil>"
				}
			}
		}
	}
	for _, ev := range w.Log {
		switch ev.Kind {
		case "api:Close":
			if ev.Phase == "return" && closedAt < 0 {
				closedAt = ev.Seq
				for name, p := range peers {
					if p.state != 0 {
						return "onclose-missing-at-return", fmt.Sprintf("Close returned at #%d while peer %s still has an open callback session (state %d)", ev.Seq, name, p.state)
					}
				}
			}
			continue
		case "api:DeletePeer":
			if ev.Phase == "return" && ev.Err == "<nil>" {
				name := peerNameOf(ev.Peer)
				// a successful AddPeer of the same peer that overlaps this DeletePeer took effect after it
				// (the peer existed): the peer exists again, and callbacks that started after that AddPeer
				// was called may be the new peer's
				overlapAdd := -1
				for _, a := range adds {
					if a.name == name && a.ok && a.call < ev.Seq && a.ret > delCall[ev.Seq] {
						overlapAdd = a.call
					}
				}
				if overlapAdd < 0 {
					deleted[name] = true
				}
				if p := peers[name]; p != nil && p.state != 0 && (overlapAdd < 0 || p.estSeq < overlapAdd) {
					return "onclose-missing-at-return", fmt.Sprintf("DeletePeer returned at #%d while peer %s still has an open callback session (state %d)", ev.Seq, name, p.state)
				}
			}
			continue
		case "api:AddPeer":
			if ev.Phase == "return" {
				delete(deleted, peerNameOf(ev.Peer))
			} else {
				// the new peer may run callbacks before AddPeer returns
				for _, a := range adds {
					if a.call == ev.Seq && a.ok {
						delete(deleted, a.name)
					}
				}
			}
			continue
		}
		isCb := ev.Kind == "GetCapabilities" || ev.Kind == "OnOpenMessage" || ev.Kind == "OnEstablished" || ev.Kind == "OnClose" || ev.Kind == "Handler"
		if !isCb {
			continue
		}
		if ev.Phase == "enter" {
			if closedAt >= 0 {
				return "callback-after-close", fmt.Sprintf("%s for %s starts at #%d after Close returned at #%d", ev.Kind, ev.Peer, ev.Seq, closedAt)
			}
			if deleted[ev.Peer] {
				return "callback-after-delete", fmt.Sprintf("%s for %s starts at #%d after DeletePeer returned", ev.Kind, ev.Peer, ev.Seq)
			}
		}
		p := peers[ev.Peer]
		if p == nil {
			p = &pst{}
			peers[ev.Peer] = p
		}
		bad := func() (string, string) {
			return "callback-order", fmt.Sprintf("peer %s: %s.%s at #%d in callback state %d (0 idle,1 in OnEstablished,2 established,3 in handler,4 in OnClose)", ev.Peer, ev.Kind, ev.Phase, ev.Seq, p.state)
		}
		switch ev.Kind + "." + ev.Phase {
		case "OnEstablished.enter":
			if p.state != 0 {
				if p.state == 2 || p.state == 3 || p.state == 1 {
					return "two-established", fmt.Sprintf("peer %s: OnEstablished at #%d while session %d is still Established (no OnClose yet)", ev.Peer, ev.Seq, p.session)
				}
				return bad()
			}
			p.state, p.session, p.estSeq = 1, ev.Session, ev.Seq
		case "OnEstablished.exit":
			if p.state != 1 {
				return bad()
			}
			p.state = 2
		case "Handler.enter":
			if p.state != 2 {
				if p.state == 3 {
					return "handler-overlap", fmt.Sprintf("peer %s: two handler invocations overlap at #%d", ev.Peer, ev.Seq)
				}
				return "handler-outside-session", fmt.Sprintf("peer %s: handler invoked at #%d outside [OnEstablished return, OnClose) (state %d)", ev.Peer, ev.Seq, p.state)
			}
			if ev.Session != p.session {
				return "handler-wrong-session", fmt.Sprintf("peer %s: handler of session %d invoked during session %d", ev.Peer, ev.Session, p.session)
			}
			p.state = 3
		case "Handler.exit":
			if p.state != 3 {
				return bad()
			}
			p.state = 2
		case "OnClose.enter":
			if p.state != 2 {
				if p.state == 0 {
					return "onclose-without-established", fmt.Sprintf("peer %s: OnClose at #%d without a preceding OnEstablished", ev.Peer, ev.Seq)
				}
				return bad()
			}
			p.state = 4
		case "OnClose.exit":
			if p.state != 4 {
				return bad()
			}
			p.state = 0
		}
	}
	// GetCapabilities / OnOpenMessage per connection. The callbacks carry no connection, so they are tied
	// to a connection through the goroutine that writes its OPEN (on this tree the connection's FSM
	// goroutine makes the callbacks and writes the OPEN). Where the goroutine that wrote an OPEN made no
	// such callback at all (a tree that writes from another goroutine than it calls the plugin from), the
	// rule falls back to counting per peer in log order: the k-th OPEN to a peer is preceded by at least k
	// GetCapabilities calls for it, and an OnOpenMessage by an OPEN to that peer.
	type opn struct {
		seq  int
		conn int
		peer string
		g    string
	}
	opens := map[string][]opn{}     // goroutine -> OPEN writes in order
	peerOpens := map[string][]opn{} // peer -> OPEN writes in order
	cbBy := map[string]bool{}       // goroutines that made a GetCapabilities / OnOpenMessage callback
	for _, ev := range w.Log {
		if (ev.Kind == "GetCapabilities" || ev.Kind == "OnOpenMessage") && ev.Phase == "enter" {
			cbBy[ev.G] = true
		}
	}
	for _, c := range w.NW.Conns {
		if !c.Lib || len(c.Chunks) == 0 {
			continue
		}
		ms, _, _ := wire.ParseStrict(c.Sent)
		if len(ms) == 0 || ms[0].Type != wire.TypeOpen {
			continue
		}
		nOpen := 0
		for _, m := range ms {
			if m.Type == wire.TypeOpen {
				nOpen++
			}
		}
		if nOpen > 1 {
			return "two-opens-on-connection", fmt.Sprintf("%d OPEN messages written on %s", nOpen, c)
		}
		ch := c.Chunks[0]
		host, _, _ := net.SplitHostPort(c.RemoteAddr().String())
		o := opn{ch.Seq, c.ID, peerNameOf(host), ch.G}
		opens[ch.G] = append(opens[ch.G], o)
		peerOpens[o.peer] = append(peerOpens[o.peer], o)
	}
	bySeq := func(os []opn) {
		for i := 0; i < len(os); i++ {
			for j := i + 1; j < len(os); j++ {
				if os[j].seq < os[i].seq {
					os[i], os[j] = os[j], os[i]
				}
			}
		}
	}
	for g, os := range opens {
		if !cbBy[g] {
			continue
		}
		// order by log position (same goroutine: program order)
		bySeq(os)
		prev := -1
		for i, o := range os {
			nGet, nOpenCb := 0, 0
			for _, ev := range w.Log {
				if ev.G != g {
					continue
				}
				if ev.Kind == "GetCapabilities" && ev.Phase == "enter" && ev.Seq >= prev && ev.Seq < o.seq {
					nGet++
				}
			}
			if nGet < 1 {
				return "getcapabilities-missing", fmt.Sprintf("OPEN on conn%d written by %s without a preceding GetCapabilities", o.conn, g)
			}
			// GetCapabilities calls that did not lead to an OPEN (failed attempt) are legal, so nGet > 1 is only
			// wrong if no connection attempt separates them; not judged.
			next := 1 << 30
			if i+1 < len(os) {
				next = os[i+1].seq
			}
			for _, ev := range w.Log {
				if ev.G == g && ev.Kind == "OnOpenMessage" && ev.Phase == "enter" && ev.Seq >= o.seq && ev.Seq < next {
					nOpenCb++
				}
			}
			if nOpenCb > 1 {
				return "onopenmessage-twice", fmt.Sprintf("OnOpenMessage invoked %d times for conn%d", nOpenCb, o.conn)
			}
			prev = o.seq
		}
	}
	for peer, os := range peerOpens {
		bySeq(os)
		for k, o := range os {
			if cbBy[o.g] {
				continue
			}
			nGet := 0
			for _, ev := range w.Log {
				if ev.Kind == "GetCapabilities" && ev.Phase == "enter" && ev.Peer == peer && ev.Seq < o.seq {
					nGet++
				}
			}
			if nGet < k+1 {
				return "getcapabilities-missing", fmt.Sprintf("OPEN number %d to %s (conn%d) is preceded by %d GetCapabilities calls", k+1, peer, o.conn, nGet)
			}
		}
	}
	for _, ev := range w.Log {
		if ev.Kind == "OnOpenMessage" && ev.Phase == "enter" {
			ok := false
			for _, o := range opens[ev.G] {
				if o.seq <= ev.Seq {
					ok = true
				}
			}
			if len(opens[ev.G]) == 0 {
				for _, o := range peerOpens[ev.Peer] {
					if o.seq <= ev.Seq {
						ok = true
					}
				}
			}
			if !ok {
				return "onopenmessage-before-open", fmt.Sprintf("OnOpenMessage at #%d before %s sent an OPEN", ev.Seq, ev.G)
			}
		}
	}
	// markers: one connection per session, one session per connection
	sessConn := map[string]int{}
	for _, c := range w.NW.Conns {
		if !c.Lib {
			continue
		}
		ms, _, _ := wire.ParseStrict(c.Sent)
		n := 0
		for _, m := range ms {
			if m.Type == wire.TypeUpdate {
				if s, ok := world.IsMarker(m.Body); ok {
					n++
					host, _, _ := net.SplitHostPort(c.RemoteAddr().String())
					key := fmt.Sprintf("%s/%d", host, s)
					if other, dup := sessConn[key]; dup && other != c.ID {
						return "marker-on-two-connections", fmt.Sprintf("marker of session %d appears on conn%d and conn%d", s, other, c.ID)
					}
					sessConn[key] = c.ID
				}
			}
		}
		if n > 1 {
			return "two-sessions-on-connection", fmt.Sprintf("%d session markers on %s", n, c)
		}
	}
	return "", ""
}

// peerNameOf maps a peer address to the plugin's peer name.
func peerNameOf(addr string) string {
	switch addr {
	case remIP:
		return "P1"
	case remIP2:
		return "P2"
	case "10.0.0.4":
		return "P3"
	}
	return addr
}

// libFrames parses what corebgp wrote on a library-side connection.
func libFrames(sent []byte) []wire.Msg {
	ms, _, _ := wire.ParseStrict(sent)
	return ms
}
