package props

import (
	"fmt"
	"net"
	"strings"
	"time"

	"github.com/jwhited/corebgp"

	"corebgpverif/harness"
	"corebgpverif/vnet"
	"corebgpverif/vrt"
	"corebgpverif/wire"
	"corebgpverif/world"
)

// C10: shutdown from any state. Close / DeletePeer is issued at every step
// index of the default execution of a set of connection scripts (and at the
// first quiescent point), and the schedules around it are explored.

type c10Script struct {
	name    string
	passive bool // peer P1 is passive (inbound only)
	inbound bool // the remote connects in
	// dial decides corebgp's outbound dials (nil = refuse)
	dial func(w *world.World, att int) vnet.DialOutcome
	// in is run on the inbound connection
	in func(w *world.World, r *world.Remote)
	// faulty marks scripts in which the remote itself misbehaves (no Cease expected on its connections)
	faulty    bool
	writers   int  // plugin starts this many writer goroutines in OnEstablished
	second    bool // add an Established by-stander peer P2
	burst     int  // number of simultaneous inbound connections (default 1)
	bigWrites bool // the writer goroutines write 4077-byte bodies, 12 each
	window    int  // vnet window (back-pressure), 0 = unlimited
	hold0     bool // the peer is configured WithHoldTime(0): no hold or keepalive timers at all
	badCaps   bool // GetCapabilities returns a capability corebgp cannot encode (value of 300 octets): no OPEN is ever sent
}

func remoteHandshakeStay(w *world.World, r *world.Remote) {
	if !reach(r, stEstablished, 65002, 90) {
		return
	}
	r.Deadline(0)
	r.Drain()
}

func remoteSilent(w *world.World, r *world.Remote) { r.Drain() }

func remoteOpenStall(w *world.World, r *world.Remote) {
	if !reach(r, stOpenConfirm, 65002, 90) {
		return
	}
	r.Drain()
}

func remoteBadOpen(w *world.World, r *world.Remote) {
	if _, ok := r.Expect(wire.TypeOpen); !ok {
		return
	}
	r.Send(wire.Open(64999, 90, 0x0a000002)) // wrong AS: protocol error, peer is damped
	r.Drain()
}

func acceptWith(f func(w *world.World, r *world.Remote)) func(w *world.World, att int) vnet.DialOutcome {
	return func(w *world.World, att int) vnet.DialOutcome {
		if att > 0 {
			return vnet.DialOutcome{Kind: vnet.DialRefuse}
		}
		return vnet.DialOutcome{Kind: vnet.DialAccept, Serve: func(c *vnet.Conn) {
			r := w.NewRemote(c, "P1")
			f(w, r)
			r.Finish()
		}}
	}
}

var c10Scripts = []c10Script{
	{name: "out-refuse", dial: func(w *world.World, att int) vnet.DialOutcome { return vnet.DialOutcome{Kind: vnet.DialRefuse} }},
	{name: "out-stall-dial", dial: func(w *world.World, att int) vnet.DialOutcome { return vnet.DialOutcome{Kind: vnet.DialStall} }},
	{name: "out-late-accept", dial: func(w *world.World, att int) vnet.DialOutcome {
		o := acceptWith(remoteHandshakeStay)(w, att)
		o.Delay = 2 * time.Second
		return o
	}},
	{name: "out-silent", dial: acceptWith(remoteSilent)},
	{name: "out-openconfirm", dial: acceptWith(remoteOpenStall)},
	{name: "out-established", dial: acceptWith(remoteHandshakeStay)},
	{name: "in-silent", passive: true, inbound: true, in: remoteSilent},
	{name: "in-openconfirm", passive: true, inbound: true, in: remoteOpenStall},
	{name: "in-established", passive: true, inbound: true, in: remoteHandshakeStay},
	{name: "collision", inbound: true, dial: acceptWith(remoteHandshakeStay), in: remoteHandshakeStay},
	{name: "damping", dial: acceptWith(remoteBadOpen), faulty: true},
	{name: "writers", dial: acceptWith(remoteHandshakeStay), writers: 2},
	{name: "two-peers", dial: acceptWith(remoteHandshakeStay), second: true},
	// two inbound connections of the same peer at the same instant (at most one is served; both must be closed at shutdown)
	{name: "in-burst", passive: true, inbound: true, burst: 2, in: remoteHandshakeStay},
	// back-pressure: the remote completes the handshake and then never reads again while two plugin
	// goroutines write 4 KiB UPDATEs (window 17000 bytes): every write path of corebgp ends up blocked
	{name: "peer-not-reading", writers: 2, bigWrites: true, window: 17000, dial: acceptWith(func(w *world.World, r *world.Remote) {
		if !reach(r, stEstablished, 65002, 90) {
			return
		}
		w.WaitFlag("never")
	})},
	// first session ends by the remote's FIN while plugin goroutines write, then corebgp reconnects
	{name: "reconnect-writers", writers: 2, dial: func(w *world.World, att int) vnet.DialOutcome {
		if att > 1 {
			return vnet.DialOutcome{Kind: vnet.DialRefuse}
		}
		return vnet.DialOutcome{Kind: vnet.DialAccept, Serve: func(c *vnet.Conn) {
			r := w.NewRemote(c, "P1")
			defer r.Finish()
			if !reach(r, stEstablished, 65002, 90) {
				return
			}
			if att == 0 {
				// wait for two UPDATEs of the writer goroutines, then close
				for i := 0; i < 2; i++ {
					if _, ok := r.Expect(wire.TypeUpdate); !ok {
						break
					}
				}
				r.C.Close()
				return
			}
			r.Deadline(0)
			r.Drain()
		}}
	}},
	// the same states with the peer configured for hold time 0
	{name: "out-established-hold0", dial: acceptWith(remoteHandshakeStay), hold0: true},
	{name: "in-openconfirm-hold0", passive: true, inbound: true, in: remoteOpenStall, hold0: true},
	{name: "out-silent-hold0", dial: acceptWith(remoteSilent), hold0: true},
	// every dial is accepted, but the plugin's capabilities cannot be encoded: each attempt ends before an OPEN is
	// sent and the peer dials again after the idle hold time - every one of those connections must be closed
	{name: "out-unencodable-caps", badCaps: true, dial: func(w *world.World, att int) vnet.DialOutcome {
		return vnet.DialOutcome{Kind: vnet.DialAccept, Serve: func(c *vnet.Conn) {
			r := w.NewRemote(c, "P1")
			r.Drain()
			r.Finish()
		}}
	}},
}

type c10Params struct {
	script  int
	api     string // Close | DeletePeer
	trigger int    // step index; -1 = first quiescent point, -2 = never (baseline run); <= -1000: at -(1000+ms) of virtual time
}

type c10Obs struct {
	apiCalled    bool
	callT, retT  int64
	openAtReturn []string // library connections not closed at return
	leakAfterAPI []string
	leakAtEnd    []string
	stepsAtEnd   int
	secondProbe  bool
	openAtCall   map[int]bool // connections corebgp had open when the API call was made
}

func c10Run(p c10Params, ch vrt.Chooser, trace bool) (*world.World, *vrt.Exec, *c10Obs) {
	sc := c10Scripts[p.script]
	var w *world.World
	o := &c10Obs{}
	e := vrt.Run(vrt.Config{Horizon: int64(20 * time.Second), Race: true, Trace: trace, Chooser: ch}, func() {
		w = world.New(libIP)
		w.NW.Window = sc.window
		w.NewServer(libIP)
		pl := &world.Plugin{W: w, Peer: "P1", Marker: true}
		if sc.badCaps {
			pl.Caps = []corebgp.Capability{{Code: 200, Value: make([]byte, 300)}}
		}
		if sc.writers > 0 {
			pl.OnEst = func(p *world.Plugin, s int, wr corebgp.UpdateMessageWriter) {
				for i := 0; i < sc.writers; i++ {
					i := i
					vrt.GoWorld(fmt.Sprintf("writer%d", i), func() {
						cnt, body := 3, []byte(nil)
						if sc.bigWrites {
							cnt, body = 12, make([]byte, 4077)
						}
						for n := 0; n < cnt; n++ {
							b := []byte(fmt.Sprintf("W%d-%d", i, n))
							if body != nil {
								b = append(b, body[len(b):]...)
							}
							if err := wr.WriteUpdate(b); err != nil {
								return
							}
						}
					})
				}
			}
		}
		w.NW.OnDial(remAddr, func(att int, from *net.TCPAddr) vnet.DialOutcome {
			if sc.dial == nil {
				return vnet.DialOutcome{Kind: vnet.DialRefuse}
			}
			return sc.dial(w, att)
		})
		opts := []corebgp.PeerOption{corebgp.WithDialerControl(w.DialControl("P1"))}
		if sc.passive {
			opts = append(opts, corebgp.WithPassive())
		}
		if sc.hold0 {
			opts = append(opts, corebgp.WithHoldTime(0))
		}
		if err := w.AddPeer(peerConfig(remIP, 65001, 65002), pl, opts...); err != nil {
			panic("harness: " + err.Error())
		}
		if sc.second {
			pl2 := &world.Plugin{W: w, Peer: "P2", Marker: true}
			if err := w.Server.AddPeer(peerConfig(remIP2, 65001, 65003), pl2, corebgp.WithPassive()); err != nil {
				panic("harness: " + err.Error())
			}
		}
		w.Serve(libAddr)
		if sc.inbound {
			n := sc.burst
			if n < 1 {
				n = 1
			}
			var conns []*vnet.Conn
			for i := 0; i < n; i++ {
				if c, err := w.NW.DialIn(fmt.Sprintf("10.0.0.2:%d", 40001+i), libAddr); err == nil {
					conns = append(conns, c)
				}
			}
			for i, c := range conns {
				c := c
				vrt.GoWorld(fmt.Sprintf("remote-in%d", i), func() {
					r := w.NewRemote(c, "P1")
					sc.in(w, r)
					r.Finish()
				})
			}
		}
		if sc.second {
			vrt.GoWorld("remote-p2", func() {
				c, err := w.NW.DialIn("10.0.0.3:40002", libAddr)
				if err != nil {
					return
				}
				r := w.NewRemote(c, "P2")
				if !reach(r, stEstablished, 65003, 90) {
					r.Finish()
					return
				}
				w.SetFlag("p2-up")
				w.WaitFlag("p1-deleted")
				r.Send(wire.Update([]byte("PROBE-P2")))
				vrtWaitDelivered(w, "PROBE-P2")
				r.Deadline(0)
				r.Drain()
				r.Finish()
			})
		}
		switch {
		case p.trigger == -2:
			// baseline: let the default execution run for 19 virtual seconds to count its steps
			vrt.Sleep(19 * time.Second)
			o.stepsAtEnd = vrt.Cur().Steps()
		case p.trigger == -1:
			vrt.WaitQuiescent()
		case p.trigger <= -1000:
			// time trigger: -(1000 + milliseconds of virtual time)
			vrt.Sleep(time.Duration(-p.trigger-1000) * time.Millisecond)
		default:
			if !vrt.WaitStep(p.trigger) {
				// the default execution ended before this step: nothing to trigger
				w.Close()
				w.WaitServeDone()
				return
			}
		}
		snapshot := func(settled bool) {
			for _, c := range w.NW.Conns {
				if !c.Lib || (c.Inbound && !c.Accepted) {
					continue
				}
				host, _, _ := net.SplitHostPort(c.RemoteAddr().String())
				if p.api == "DeletePeer" && host != remIP {
					continue
				}
				if !c.IsClosed() && (len(c.Sent) > 0 || settled) {
					// a connection corebgp has written on is held by the peer's FSM and must be
					// closed at the return; one it has merely accepted/dialled so far (not yet
					// handed to the peer) must be closed once the library is quiescent
					o.openAtReturn = append(o.openAtReturn, c.String())
				}
			}
		}
		if p.api == "Close+Inbound" {
			// a connection from the configured peer arrives while Close is in flight
			vrt.GoWorld("late-inbound", func() {
				c, err := w.NW.DialIn("10.0.0.2:40077", libAddr)
				if err != nil {
					return
				}
				r := w.NewRemote(c, "P1")
				r.Deadline(5 * time.Second)
				r.Drain()
				r.Finish()
			})
		}
		if p.api == "Close+AddPeer" {
			// another goroutine adds a (refused, active) peer P3 while Close is in flight
			vrt.GoWorld("adder", func() {
				w.NW.OnDial("10.0.0.4:179", func(int, *net.TCPAddr) vnet.DialOutcome { return vnet.DialOutcome{Kind: vnet.DialRefuse} })
				w.Append(world.Event{Kind: "api:AddPeer", Phase: "call", Peer: "10.0.0.4", Conn: -1})
				err := w.Server.AddPeer(peerConfig("10.0.0.4", 65001, 65004), &world.Plugin{W: w, Peer: "P3"}, corebgp.WithDialerControl(w.DialControl("P3")))
				w.Append(world.Event{Kind: "api:AddPeer", Phase: "return", Peer: "10.0.0.4", Conn: -1, Err: fmt.Sprint(err)})
			})
		}
		o.apiCalled = true
		o.callT = vrt.Cur().Now()
		o.openAtCall = map[int]bool{}
		for _, c := range w.NW.Conns {
			if c.Lib && !c.IsClosed() {
				o.openAtCall[c.ID] = true
			}
		}
		if p.api == "DeletePeer" {
			w.DeletePeer(remIP)
			o.retT = vrt.Cur().Now()
			snapshot(false)
			w.SetFlag("p1-deleted")
			vrt.WaitQuiescent()
			snapshot(true)
			if !sc.second {
				// what a serving server without any peer keeps running (accept loops, ...) is not the
				// deleted peer's; everything beyond that is
				idle := map[string]int{}
				for k, v := range c10IdleServerSites {
					idle[k] = v
				}
				for _, g := range vrt.Cur().LiveLib() {
					s := g.PendingSite()
					if idle[s] > 0 {
						idle[s]--
						continue
					}
					o.leakAfterAPI = append(o.leakAfterAPI, g.Name()+"@"+s)
				}
			} else {
				// the by-stander must still work
				vrtWaitDelivered(w, "PROBE-P2")
				for _, ev := range w.Log {
					if ev.Kind == "Handler" && ev.Phase == "exit" && string(ev.Data) == "PROBE-P2" {
						o.secondProbe = true
					}
				}
			}
			w.Close()
		} else {
			w.Close()
			o.retT = vrt.Cur().Now()
			snapshot(false)
		}
		_ = p.api
		w.WaitServeDone()
		vrt.WaitQuiescent()
		if p.api == "Close" {
			snapshot(true)
		}
		for _, g := range vrt.Cur().LiveLib() {
			o.leakAtEnd = append(o.leakAtEnd, g.Name()+"@"+g.PendingSite())
		}
	})
	return w, e, o
}

func c10Judge(p c10Params, w *world.World, e *vrt.Exec, o *c10Obs) (string, string) {
	sc := c10Scripts[p.script]
	if p.trigger == -2 {
		return "", ""
	}
	if !o.apiCalled {
		return "", "" // the trigger step was never reached on this schedule
	}
	if d := o.retT - o.callT; d > int64(time.Second) {
		return "slow-shutdown", fmt.Sprintf("%s took %s of virtual time", p.api, time.Duration(d))
	}
	if len(o.openAtReturn) > 0 {
		return "connection-open-at-return", fmt.Sprintf("%s returned while corebgp still holds open connections: %v", p.api, o.openAtReturn)
	}
	if len(o.leakAfterAPI) > 0 {
		return "goroutine-leak", fmt.Sprintf("goroutines of the deleted peer still blocked after DeletePeer returned: %v", o.leakAfterAPI)
	}
	if len(o.leakAtEnd) > 0 {
		return "goroutine-leak", fmt.Sprintf("corebgp goroutines still alive after Close and Serve returned: %v", o.leakAtEnd)
	}
	closeRet := -1
	for _, ev := range w.Log {
		if ev.Kind == "api:Close" && ev.Phase == "return" {
			closeRet = ev.Seq
		}
		if closeRet >= 0 && ev.Kind == "dial" && ev.Seq > closeRet {
			return "dial-after-close", fmt.Sprintf("peer %s dials at #%d after Close returned at #%d", ev.Peer, ev.Seq, closeRet)
		}
	}
	if !w.ServeDone || w.ServeErr != corebgp.ErrServerClosed {
		return "serve-return", fmt.Sprintf("Serve returned %v (done=%v)", w.ServeErr, w.ServeDone)
	}
	if sc.second && p.api == "DeletePeer" && w.Flag("p2-up") && !o.secondProbe {
		return "bystander-disturbed", "the by-stander peer's session did not deliver a probe UPDATE after DeletePeer of the other peer"
	}
	// Cease before EOF on healthy connections
	for _, c := range w.NW.Conns {
		if !c.Lib || sc.faulty || !o.openAtCall[c.ID] || c.Peer().IsClosed() || c.IsReset() {
			// (a connection the remote closed or reset itself is not healthy)
			// connections closed earlier (collision, precedence) are not shutdown's business
			continue
		}
		ms := libFrames(c.Sent)
		sentKA, sentOpen := false, false
		var notifs []wire.Msg
		for _, m := range ms {
			switch m.Type {
			case wire.TypeKeepalive:
				sentKA = true
			case wire.TypeOpen:
				sentOpen = true
			case wire.TypeNotification:
				notifs = append(notifs, m)
			}
		}
		need := sentKA || (p.trigger == -1 && sentOpen)
		if !need {
			continue
		}
		if len(notifs) == 0 {
			return "no-cease", fmt.Sprintf("%s was closed at shutdown without a Cease NOTIFICATION (corebgp had sent %d messages on it)", c, len(ms))
		}
		if code, _, _ := notifs[0].Notif(); code != 6 || len(notifs) > 1 {
			return "wrong-shutdown-notification", fmt.Sprintf("%s carries %v at shutdown", c, notifs)
		}
		// (a WriteUpdate caller that passed its closed-check just before the Cease may still
		// write a complete UPDATE after it; the property does not forbid that)
	}
	return monitorCallbacks(w)
}

// c10IdleServerSites is the multiset of blocking sites of the library goroutines of a serving server that
// has no peer, learnt from the tree under test (not from file names): the reference for "no goroutine
// created for the deleted peer is still running".
var c10IdleServerSites map[string]int

func c10LearnIdleServer() {
	if c10IdleServerSites != nil {
		return
	}
	m := map[string]int{}
	e := vrt.Run(vrt.Config{Horizon: int64(20 * time.Second)}, func() {
		w := world.New(libIP)
		w.NewServer(libIP)
		w.Serve(libAddr)
		vrt.WaitQuiescent()
		for _, g := range vrt.Cur().LiveLib() {
			m[g.PendingSite()]++
		}
		w.Close()
		w.WaitServeDone()
	})
	e.Finish()
	c10IdleServerSites = m
}

func c10Scn(p c10Params, bound int) *Scn {
	name := fmt.Sprintf("%s/%s/step%d", c10Scripts[p.script].name, p.api, p.trigger)
	return &Scn{Name: name, Bound: bound, Run: func(ch vrt.Chooser, trace bool) *ScnResult {
		c10LearnIdleServer()
		w, e, o := c10Run(p, ch, trace)
		return finishRun("C10", c10Scripts[p.script].name, w, e, trace, true, func() (string, string) { return c10Judge(p, w, e, o) }, nil)
	}}
}

func c10Scenarios(th bool) []*Scn {
	var out []*Scn
	bound := 1
	if th {
		bound = 2
	}
	for si := range c10Scripts {
		// baseline run to learn the number of steps of the default execution
		w, e, o := c10Run(c10Params{script: si, api: "Close", trigger: -2}, nil, false)
		n := o.stepsAtEnd
		_ = w
		e.Finish()
		if n == 0 {
			n = e.Steps()
		}
		for _, api := range []string{"Close", "DeletePeer", "Close+AddPeer", "Close+Inbound"} {
			if api == "Close+AddPeer" && si != 5 && si != 8 && si != 0 {
				continue // out-established, in-established, out-refuse
			}
			if api == "Close+Inbound" && si != 0 && si != 1 && si != 4 && si != 10 {
				continue // out-refuse, out-stall-dial, out-openconfirm, damping: states in which the peer manager is busy or idle
			}
			out = append(out, c10Scn(c10Params{si, api, -1}, bound+1))
			stride := 1
			if !th && n > 120 {
				stride = 2
			}
			for j := 0; j <= n+2; j += stride {
				out = append(out, c10Scn(c10Params{si, api, j}, bound))
			}
		}
	}
	// slow plugin callbacks: the API call lands while an FSM goroutine sits inside a callback that
	// takes 300 ms (100 ms in, at the very instant it returns, 1 ms later)
	for _, name := range []string{"out-established", "in-established", "collision", "out-openconfirm", "two-peers"} {
		si := -1
		for i, sc := range c10Scripts {
			if sc.name == name {
				si = i
			}
		}
		for _, api := range []string{"Close", "DeletePeer"} {
			for _, kind := range []string{"GetCapabilities", "OnOpenMessage", "OnEstablished"} {
				if kind != "GetCapabilities" && name == "out-openconfirm" && kind == "OnEstablished" {
					continue
				}
				for _, ms := range []int{100, 300, 301} {
					out = append(out, slowTwin(c10Scn(c10Params{si, api, -1000 - ms}, 1), kind, 1, 300*time.Millisecond))
				}
			}
		}
	}
	return out
}

func c10Check(c *harness.Ctx) {
	base := c10Scenarios(c.Thorough())
	scns := withLegacy(base, legacyEvery(c.Thorough(), 4))
	scns = append(scns, withHold0(base, legacyEvery(c.Thorough(), 5)*2)[len(base):]...)
	// two shutdown calls at once (DeletePeer || Close, Close || Close), also with a slow callback in the way:
	// C01's scenarios, judged at the return of Close by the callback monitor
	scns = append(scns, c01ConcurrentTails("C10", c.Thorough(), []int{4, 5}, []int{4, 5})...)
	c.Res.Extra["scenarios_total"] = float64(len(scns)) / float64(max(c.Of, 1))
	for i, s := range scns {
		if !c.Mine(i) {
			continue
		}
		if c.Expired() {
			return
		}
		if !exploreScn(c, "C10", s) {
			return
		}
	}
}

func init() {
	harness.Register(&harness.Check{
		Property: "C10", Level: "model_checking", NeedsConc: true, QuickS: 200, ThoroughS: 1500,
		Rule:   "stateless model checking of the real (rewritten) corebgp: 16 connection scripts (refused / stalled / late dial, OpenSent, OpenConfirm, Established in both directions, collision, damping, active WriteUpdate callers, two peers, a burst of inbound connections, reconnect with writers, a peer that stopped reading on a bounded-window network) x {Close, DeletePeer, Close with a concurrent AddPeer, Close with an inbound connection arriving} issued at EVERY step index of the default execution and at the first quiescent point, and - with one plugin callback taking 300 ms - inside, at the end of and just after that callback, each explored over all schedules within the delay bound (quick 1, thorough 2; quiescent trigger +1) with happens-before caching; vector-clock race detection on every instrumented field/array/map access in every execution; distinct_nontrivial = distinct observable outcomes",
		Assume: []string{"delay-bounded schedules", "virtual network (A3)", "race detector covers instrumented struct-field/array/map accesses of the package (A5)", "goroutine leak rule: after the call returned the library goroutines are run to quiescence without clock advance; a goroutine that still exists then is blocked forever"},
		Run:    c10Check,
		Replay: scnReplay("C10", func(name string) *Scn {
			var si, trig int
			parts := strings.Split(name, "/")
			if len(parts) == 6 {
				return c01LookupFor("C10", name)
			}
			if len(parts) != 3 {
				return nil
			}
			si = -1
			for i, s := range c10Scripts {
				if s.name == parts[0] {
					si = i
				}
			}
			if si < 0 {
				return nil
			}
			fmt.Sscanf(parts[2], "step%d", &trig)
			return c10Scn(c10Params{si, parts[1], trig}, 3)
		}),
	})
}
