package props

import (
	"encoding/hex"
	"errors"
	"fmt"

	"github.com/jwhited/corebgp"

	"corebgpverif/harness"
	"corebgpverif/refmodel"
)

// Shared by C16 and C17: input generators for UPDATE bodies, the recording
// callbacks, and the comparison of a recorded callback trace with the
// reference partition (refmodel.PartitionUpdate).

// ---------------------------------------------------------------------------
// recording callbacks

// updCall is one recorded callback invocation.
type updCall struct {
	kind       byte // 'W' withdrawn routes, 'A' path attribute, 'N' NLRI
	typ, flags byte // 'A' only
	off, n     int  // the argument bytes, copied into updRec.buf
	ret        error
}

// updRec records every invocation and answers with the scripted behaviour.
type updRec struct {
	calls []updCall
	buf   []byte
	beh   []byte // behaviour code of the i-th invocation (missing = return nil)
	dec   *corebgp.UpdateDecoder[*updRec]
	// reenter, if set, runs inside the i-th invocation before it returns (a callback that uses the same
	// decoder for another message: a plugin shared by two peers, a nested decode)
	reenter func(i int)
}

func (r *updRec) record(kind, typ, flags byte, b []byte) error {
	i := len(r.calls)
	var ret error
	if i < len(r.beh) {
		ret = updBehave(r.beh[i], i)
	}
	r.calls = append(r.calls, updCall{kind: kind, typ: typ, flags: flags, off: len(r.buf), n: len(b), ret: ret})
	r.buf = append(r.buf, b...)
	if r.reenter != nil {
		r.reenter(i)
	}
	return ret
}

func newUpdRec() *updRec {
	r := &updRec{}
	r.dec = corebgp.NewUpdateDecoder[*updRec](
		func(t *updRec, b []byte) error { return t.record('W', 0, 0, b) },
		func(t *updRec, code uint8, flags corebgp.PathAttrFlags, b []byte) error {
			return t.record('A', code, byte(flags), b)
		},
		func(t *updRec, b []byte) error { return t.record('N', 0, 0, b) },
	)
	return r
}

func (r *updRec) data(i int) []byte { return r.buf[r.calls[i].off : r.calls[i].off+r.calls[i].n] }

// run decodes body with the behaviours beh; panicked is the recovered panic
// value (nil if Decode returned).
func (r *updRec) run(body []byte, beh []byte) (err error, panicked any) {
	r.calls, r.buf, r.beh = r.calls[:0], r.buf[:0], beh
	defer func() { panicked = recover() }()
	err = r.dec.Decode(r, body)
	return
}

// Callback behaviours.
const (
	behNil = iota
	behDiscard
	behWithdraw
	behNotif
	behForeign
	behWrapWithdraw
	behWrapNotif
	behJoinDiscardNotif
	behCount
)

var behNames = [...]string{"nil", "attr-discard", "treat-as-withdraw", "notification", "foreign", "wrap(treat-as-withdraw)", "wrap(notification)", "join(attr-discard,notification)"}

// updBehave builds a fresh error value for the i-th invocation; the
// invocation index is embedded so every returned value is identifiable.
func updBehave(code byte, i int) error {
	id := []byte{0xcb, byte(i)}
	switch code {
	case behDiscard:
		return &corebgp.AttrDiscardUpdateErr{Code: byte(i), Notification: &corebgp.Notification{Code: 3, Subcode: 9, Data: id}}
	case behWithdraw:
		return &corebgp.TreatAsWithdrawUpdateErr{Code: byte(i), Notification: &corebgp.Notification{Code: 3, Subcode: 4, Data: id}}
	case behNotif:
		return &corebgp.Notification{Code: 3, Subcode: 5, Data: id}
	case behForeign:
		return errors.New("foreign callback error")
	case behWrapWithdraw:
		return fmt.Errorf("callback %d: %w", i, &corebgp.TreatAsWithdrawUpdateErr{Code: byte(i)})
	case behWrapNotif:
		return fmt.Errorf("callback %d: %w", i, &corebgp.Notification{Code: 3, Subcode: 6, Data: id})
	case behJoinDiscardNotif:
		return errors.Join(&corebgp.AttrDiscardUpdateErr{Code: byte(i)}, &corebgp.Notification{Code: 3, Subcode: 11, Data: id})
	}
	return nil
}

// ---------------------------------------------------------------------------
// comparing a recorded trace with the reference partition

// updEv is one callback invocation in comparable form.
type updEv struct {
	kind, typ, flags byte
	data             []byte
}

func (e updEv) String() string {
	switch e.kind {
	case 'A':
		return fmt.Sprintf("attr(type=%d flags=%02x value[%d]=%s)", e.typ, e.flags, len(e.data), hexShort(e.data))
	case 'W':
		return fmt.Sprintf("withdrawn[%d]=%s", len(e.data), hexShort(e.data))
	}
	return fmt.Sprintf("nlri[%d]=%s", len(e.data), hexShort(e.data))
}

func hexShort(b []byte) string {
	if len(b) > 24 {
		return hex.EncodeToString(b[:12]) + ".." + hex.EncodeToString(b[len(b)-8:])
	}
	return hex.EncodeToString(b)
}

var updKindName = map[byte]string{'W': "withdrawn", 'A': "attr", 'N': "nlri", 0: "end"}

// updExpected lists the invocations the partition dictates. Normalisation:
// withdrawn / NLRI invocations with an empty slice are left out on both sides
// (the property speaks of the bytes handed over).
func updExpected(p *refmodel.UpdatePartition, out []updEv) []updEv {
	out = out[:0]
	if p.Fault != refmodel.UpdOK {
		return out
	}
	if len(p.Withdrawn) > 0 {
		out = append(out, updEv{kind: 'W', data: p.Withdrawn})
	}
	for _, a := range p.Attrs {
		out = append(out, updEv{kind: 'A', typ: a.Type, flags: a.Flags, data: a.Value})
	}
	if p.NLRIDelivered() && len(p.NLRI) > 0 {
		out = append(out, updEv{kind: 'N', data: p.NLRI})
	}
	return out
}

// normalised lists the recorded invocations, empty withdrawn / NLRI ones dropped.
func (r *updRec) normalised(out []updEv) []updEv {
	out = out[:0]
	for i, c := range r.calls {
		if c.kind != 'A' && c.n == 0 {
			continue
		}
		out = append(out, updEv{kind: c.kind, typ: c.typ, flags: c.flags, data: r.data(i)})
	}
	return out
}

func bytesEq(a, b []byte) bool {
	if len(a) != len(b) {
		return false
	}
	for i := range a {
		if a[i] != b[i] {
			return false
		}
	}
	return true
}

// updDiff compares got with want. prefixOK accepts got being a proper prefix
// of want (decoding legitimately stopped). It returns a coarse aspect ("" if
// they agree) and a message.
func updDiff(p *refmodel.UpdatePartition, got, want []updEv, prefixOK bool) (aspect, msg string) {
	for i := 0; i < len(got) || i < len(want); i++ {
		if i >= len(got) {
			if prefixOK {
				return "", ""
			}
			return "want-" + updKindName[want[i].kind] + "-got-end", fmt.Sprintf("invocation %d: expected %v, but no further callback ran", i, want[i])
		}
		g := got[i]
		if i < len(want) && want[i].kind == g.kind {
			w := want[i]
			switch {
			case g.kind == 'A' && g.typ != w.typ:
				return "attr-type-differs", fmt.Sprintf("invocation %d: got %v, expected %v", i, g, w)
			case g.kind == 'A' && g.flags != w.flags:
				return "attr-flags-differ", fmt.Sprintf("invocation %d: got %v, expected %v", i, g, w)
			case !bytesEq(g.data, w.data):
				return updKindName[g.kind] + "-bytes-differ", fmt.Sprintf("invocation %d: got %v, expected %v", i, g, w)
			}
			continue
		}
		// an invocation of another kind than expected (or none expected)
		exp, expKind := "no further callback", byte(0)
		if i < len(want) {
			exp, expKind = want[i].String(), want[i].kind
		}
		m := fmt.Sprintf("invocation %d: got %v, expected %s", i, g, exp)
		switch {
		case p.Fault != refmodel.UpdOK:
			return "callback-despite-length-overrun", m + " (" + p.Fault.String() + ")"
		case g.kind == 'A' && updTypeSeen(got[:i], g.typ):
			return "duplicate-attr-passed", m
		case g.kind == 'N' && p.RepeatedMP:
			return "nlri-after-repeated-mp", m
		}
		return "want-" + updKindName[expKind] + "-got-" + updKindName[g.kind], m
	}
	return "", ""
}

func updTypeSeen(evs []updEv, t byte) bool {
	for _, e := range evs {
		if e.kind == 'A' && e.typ == t {
			return true
		}
	}
	return false
}

// ---------------------------------------------------------------------------
// generator 1: all short strings over a protocol-relevant alphabet

var updSigma = []byte{0x00, 0x01, 0x02, 0x03, 0x04, 0x0e, 0x0f, 0x10, 0x40, 0x80, 0x90, 0xff}

// updShort calls fn for every string over updSigma of length <= maxLen that
// belongs to this shard. Strings of length >= 2 are sharded on their last two
// symbols so that every shard enumerates only its own part. It returns false
// if the time budget ran out.
func updShort(c *harness.Ctx, maxLen int, fn func(b []byte)) bool {
	k := len(updSigma)
	if c.Mine(0) {
		fn([]byte{})
	}
	for s := 0; s < k && maxLen >= 1; s++ {
		if c.Mine(1 + s) {
			fn([]byte{updSigma[s]})
		}
	}
	for n := 2; n <= maxLen; n++ {
		b := make([]byte, n)
		digits := make([]int, n-2)
		for tail := 0; tail < k*k; tail++ {
			if !c.Mine(tail) {
				continue
			}
			b[n-2], b[n-1] = updSigma[tail/k], updSigma[tail%k]
			for i := range digits {
				digits[i] = 0
				b[i] = updSigma[0]
			}
			for count := 0; ; count++ {
				if count&0xffff == 0 && c.Expired() {
					return false
				}
				fn(b)
				// odometer over the first n-2 symbols
				i := n - 3
				for i >= 0 {
					digits[i]++
					if digits[i] < k {
						b[i] = updSigma[digits[i]]
						break
					}
					digits[i] = 0
					b[i] = updSigma[0]
					i--
				}
				if i < 0 {
					break
				}
			}
		}
	}
	return true
}

// ---------------------------------------------------------------------------
// generator 2: grammar-built UPDATE bodies and length-field mutations

type updAttrSpec struct {
	typ, flags byte
	vlen       int
}

var updTypes = []byte{1, 2, 3, 14, 15, 99}

// updShapes: (flags, value length); one-octet lengths cannot express 256.
var updShapes = func() []updAttrSpec {
	var s []updAttrSpec
	for _, f := range []byte{0x40, 0x80, 0xc0} {
		for _, l := range []int{0, 1, 4, 255} {
			s = append(s, updAttrSpec{flags: f, vlen: l})
		}
	}
	for _, f := range []byte{0x90, 0x50} {
		for _, l := range []int{0, 1, 4, 255, 256} {
			s = append(s, updAttrSpec{flags: f, vlen: l})
		}
	}
	return s
}()

// updTypeSeqs lists every sequence of <= maxL type codes from updTypes
// (duplicates allowed), shortest first.
func updTypeSeqs(maxL int) [][]byte {
	out := [][]byte{{}}
	frontier := [][]byte{{}}
	for L := 1; L <= maxL; L++ {
		var next [][]byte
		for _, f := range frontier {
			for _, t := range updTypes {
				next = append(next, append(append([]byte{}, f...), t))
			}
		}
		out = append(out, next...)
		frontier = next
	}
	return out
}

func updSeqOf(ts []byte, shape func(i int) int) []updAttrSpec {
	seq := make([]updAttrSpec, len(ts))
	for i, t := range ts {
		seq[i] = updShapes[shape(i)%len(updShapes)]
		seq[i].typ = t
	}
	return seq
}

// updAttrSeqs enumerates attribute sequences of length <= maxL over
// updTypes x updShapes. Every type sequence is generated; sequences of
// length <= fullL get every shape assignment, longer ones get the rotations
// shape(i) = (r + i*step) mod |shapes| for every r and every step in steps
// (so each shape occurs at each position of each type sequence).
func updAttrSeqs(maxL, fullL int, steps []int) [][]updAttrSpec {
	var out [][]updAttrSpec
	k := len(updShapes)
	for _, ts := range updTypeSeqs(maxL) {
		if len(ts) <= fullL {
			total := 1
			for range ts {
				total *= k
			}
			for a := 0; a < total; a++ {
				out = append(out, updSeqOf(ts, func(i int) int {
					d := a
					for ; i > 0; i-- {
						d /= k
					}
					return d
				}))
			}
			continue
		}
		for si, step := range steps {
			if len(ts) == 1 && si > 0 {
				break // the step does not matter for a single attribute
			}
			for r := 0; r < k; r++ {
				out = append(out, updSeqOf(ts, func(i int) int { return r + i*step }))
			}
		}
	}
	return out
}

// fillPattern appends n bytes of a running pattern (so that any off-by-one in
// slicing shows up as different bytes).
func fillPattern(dst []byte, n int, seed byte) []byte {
	for i := 0; i < n; i++ {
		dst = append(dst, seed+byte(i)*7)
	}
	return dst
}

func appendAttr(dst []byte, a updAttrSpec, seed byte) []byte {
	dst = append(dst, a.flags, a.typ)
	if a.flags&0x10 != 0 {
		dst = append(dst, byte(a.vlen>>8), byte(a.vlen))
	} else {
		dst = append(dst, byte(a.vlen))
	}
	return fillPattern(dst, a.vlen, seed)
}

func attrBlock(dst []byte, seq []updAttrSpec) []byte {
	for i, a := range seq {
		dst = appendAttr(dst, a, 0x21+byte(i)*37)
	}
	return dst
}

// updAssemble writes an UPDATE body with explicit length fields.
func updAssemble(dst []byte, wrl, pal int, w, attrs, n []byte) []byte {
	dst = append(dst[:0], byte(wrl>>8), byte(wrl))
	dst = append(dst, w...)
	dst = append(dst, byte(pal>>8), byte(pal))
	dst = append(dst, attrs...)
	return append(dst, n...)
}

var (
	updWithdrawn = [][]byte{nil, {0x00}, {0x10, 0x0a, 0x01}, {0x20, 0xc0, 0x00, 0x02, 0x01}}
	updNLRI      = [][]byte{nil, {0x08, 0x0a}, {0x20, 0xcb, 0x00, 0x71, 0x07}}
	// updTails are appended to an attribute block: nothing, 1-3 stray bytes
	// (too few for a header) and a header whose value overruns by one. The
	// special tail "cut" (index len(updTails)) removes the last byte of the
	// block instead: the last attribute overruns by one.
	updTails = [][]byte{nil, {0x40}, {0x90}, {0x40, 0x63}, {0x90, 0x63, 0x00}, {0x40, 0x63, 0x02, 0xee}}
)

// updLenMut lists the mutations of a 16-bit length field: -1, +1, 0, 0xFFFF.
func updLenMut(v int) []int {
	var out []int
	for _, m := range []int{v - 1, v + 1, 0, 0xffff} {
		ok := m >= 0 && m <= 0xffff && m != v
		for _, o := range out {
			ok = ok && o != m
		}
		if ok {
			out = append(out, m)
		}
	}
	return out
}

// updGrammarOpts selects a sub-product of the grammar.
type updGrammarOpts struct {
	ws, ns, tails []int // indices into updWithdrawn, updNLRI, updTails (len(updTails) = cut)
	mutate        bool  // also emit every mutation of the two length fields
}

// updGrammar emits the bodies built from one attribute sequence.
func updGrammar(seq []updAttrSpec, o updGrammarOpts, buf *[]byte, fn func(body []byte)) {
	block := attrBlock(nil, seq)
	for _, ti := range o.tails {
		var attrs []byte
		if ti == len(updTails) {
			if len(block) == 0 {
				continue
			}
			attrs = block[:len(block)-1]
		} else {
			attrs = append(append([]byte{}, block...), updTails[ti]...)
		}
		for _, wi := range o.ws {
			w := updWithdrawn[wi]
			for _, ni := range o.ns {
				n := updNLRI[ni]
				*buf = updAssemble(*buf, len(w), len(attrs), w, attrs, n)
				fn(*buf)
				if !o.mutate {
					continue
				}
				wls := append([]int{len(w)}, updLenMut(len(w))...)
				pls := append([]int{len(attrs)}, updLenMut(len(attrs))...)
				for _, wl := range wls {
					for _, pl := range pls {
						if wl == len(w) && pl == len(attrs) {
							continue
						}
						*buf = updAssemble(*buf, wl, pl, w, attrs, n)
						fn(*buf)
					}
				}
			}
		}
	}
}

// updPadded emits bodies of exactly total bytes built around seq: the bulk
// goes into the withdrawn field, a large extended-length attribute, or the
// NLRI; with exact, +1 and overrunning length fields.
func updPadded(seq []updAttrSpec, total int, buf *[]byte, fn func(body []byte)) {
	block := attrBlock(nil, seq)
	for mode := 0; mode < 3; mode++ {
		w, n := updWithdrawn[2], updNLRI[1]
		attrs := append([]byte{}, block...)
		pad := total - 4 - len(w) - len(attrs) - len(n)
		switch mode {
		case 0:
			w = fillPattern(append([]byte{}, w...), pad, 0x31)
		case 1:
			attrs = appendAttr(attrs, updAttrSpec{typ: 200, flags: 0x90, vlen: pad - 4}, 0x57)
		case 2:
			n = fillPattern(append([]byte{}, n...), pad, 0x73)
		}
		for _, cut := range []int{0, 1} {
			if cut > len(attrs) {
				continue
			}
			a := attrs[:len(attrs)-cut]
			nn := n
			if cut == 1 {
				nn = append([]byte{0x99}, n...) // keep the total size
			}
			for _, l := range [][2]int{{len(w), len(a)}, {len(w), len(a) + 1}, {len(w) + 1, len(a)}, {len(w), len(a) + len(nn)}, {len(w), len(a) + len(nn) + 1}, {len(w), 0xffff}} {
				*buf = updAssemble(*buf, l[0], l[1], w, a, nn)
				fn(*buf)
			}
		}
	}
}

// ---------------------------------------------------------------------------
// generator 3: length-field boundary values x body sizes up to beyond 65535

var updBigLens = []int{0, 1, 2, 255, 256, 4073, 4077, 0x7fff, 0xfffd, 0xfffe, 0xffff}

// updBig describes one body of generator 3.
type updBig struct {
	WRL   int `json:"withdrawn_len"`
	PAL   int `json:"attr_len"`
	Total int `json:"body_len"`
	Fill  int `json:"fill"` // 0 zeros, 1 structured
}

func updBigTotals(wrl, pal int) []int {
	exact := 4 + wrl + pal
	var out []int
	for _, t := range []int{4, exact, exact - 1, exact + 1, 4077, 65535, 65536, 65537, 65540, 70000} {
		ok := t >= 0
		for _, o := range out {
			ok = ok && o != t
		}
		if ok {
			out = append(out, t)
		}
	}
	return out
}

// body builds the described body: the two length fields are written where
// they fall inside the body; with Fill 1 the attribute block is ORIGIN,
// AS_PATH and one large extended-length attribute and the other sections
// carry a running pattern.
func (g updBig) body() []byte {
	b := make([]byte, g.Total)
	if g.Fill == 1 {
		fillPattern(b[:0], len(b), 0x11)
	}
	put16 := func(at, v int) {
		if at+2 <= len(b) {
			b[at], b[at+1] = byte(v>>8), byte(v)
		}
	}
	put16(0, g.WRL)
	put16(2+g.WRL, g.PAL)
	if g.Fill == 1 {
		start := 4 + g.WRL
		end := min(start+g.PAL, len(b))
		if rest := end - start - 11; rest >= 0 {
			copy(b[start:], []byte{0x40, 1, 1, 0, 0x40, 2, 0, 0x90, 99, byte(rest >> 8), byte(rest)})
		}
	}
	return b
}

// forEachUpdBig enumerates generator 3.
func forEachUpdBig(fn func(g updBig)) {
	for _, w := range updBigLens {
		for _, p := range updBigLens {
			for _, t := range updBigTotals(w, p) {
				for fill := 0; fill < 2; fill++ {
					fn(updBig{WRL: w, PAL: p, Total: t, Fill: fill})
				}
			}
		}
	}
}

// ---------------------------------------------------------------------------
// replay objects

// updInput names a concrete input of C16 / C17 in a replay file.
type updInput struct {
	BodyHex  string  `json:"body_hex,omitempty"`
	Big      *updBig `json:"big,omitempty"`        // large bodies are described, not dumped
	BehCodes []int   `json:"behaviours,omitempty"` // per invocation, see behNames
	Tree     string  `json:"tree,omitempty"`       // C17 error-tree case
}

func updInputOf(body []byte, big *updBig, beh []byte) updInput {
	in := updInput{Big: big}
	if big == nil {
		in.BodyHex = hex.EncodeToString(body)
	}
	for _, b := range beh {
		in.BehCodes = append(in.BehCodes, int(b))
	}
	return in
}

func (in updInput) body() []byte {
	if in.Big != nil {
		return in.Big.body()
	}
	b, _ := hex.DecodeString(in.BodyHex)
	return b
}

func (in updInput) behaviours() []byte {
	var b []byte
	for _, c := range in.BehCodes {
		b = append(b, byte(c))
	}
	return b
}
