package props

import (
	"bytes"
	"encoding/hex"
	"encoding/json"
	"fmt"
	"net/netip"
	"time"

	"github.com/jwhited/corebgp"

	"corebgpverif/harness"
	"corebgpverif/vrt"
	"corebgpverif/wire"
	"corebgpverif/world"
)

const (
	stOpenSent    = 1
	stOpenConfirm = 2
	stEstablished = 3
)

var stName = map[int]string{1: "OpenSent", 2: "OpenConfirm", 3: "Established"}

// reach drives a fresh connection into FSM state st (from the remote's side).
func reach(r *world.Remote, st int, ras uint32, hold uint16, extra ...wire.Cap) bool {
	if _, ok := r.Expect(wire.TypeOpen); !ok {
		return false
	}
	if st == stOpenSent {
		return true
	}
	r.Send(wire.Open(ras, hold, 0x0a000002, extra...))
	if _, ok := r.Expect(wire.TypeKeepalive); !ok {
		return false
	}
	if st == stOpenConfirm {
		return true
	}
	r.Send(wire.Keepalive())
	m, ok := r.Expect(wire.TypeUpdate)
	if !ok {
		return false
	}
	_, ok = world.IsMarker(m.Body)
	return ok
}

// stimCase is one "reach a state, then send something" case of C08/C09.
type stimCase struct {
	Kind     string   `json:"kind"` // header-fault | length-sweep | table | plugin-notif
	State    int      `json:"state"`
	Inbound  bool     `json:"inbound"`
	Pre      []string `json:"pre_updates_hex,omitempty"` // bodies of well-formed UPDATEs sent first (Established only)
	PreKA    int      `json:"pre_keepalives,omitempty"`
	Stimulus string   `json:"stimulus_hex"`         // raw bytes
	Post     string   `json:"post_hex,omitempty"`   // raw bytes sent after the stimulus
	Chunks   []int    `json:"chunks,omitempty"`     // write sizes for pre+stimulus+post as one stream
	End      string   `json:"end,omitempty"`        // fin | rst | ""
	Expect   string   `json:"expect"`               // notif | silent-close | progress | none(rst)
	Admit    [][3]int `json:"admissible,omitempty"` // (code, sub, dataByte or -1 = data not judged / -2 = empty data)
	Msg      string   `json:"msg,omitempty"`        // table cell message name
	PlugAt   string   `json:"plugin_at,omitempty"`  // open | handler
	PlugN    string   `json:"plugin_notif_hex,omitempty"`
	Delivery string   `json:"expect_delivery_hex,omitempty"` // length-sweep: body that must be delivered
	// Cfg varies the session the stimulus meets: "" (local hold default, remote 90) | lhold0 | rhold0 | lhold3 | ibgp | rcap6 | slowclose
	Cfg string `json:"cfg,omitempty"`
	// DelayMs: the remote waits that long (virtual time) after the state was reached before it sends the
	// stimulus; what corebgp sends meanwhile (KEEPALIVEs, the plugin's UPDATE of lhold3w) is read and set aside
	DelayMs int `json:"delay_ms,omitempty"`
}

// stimCaps: capabilities the remote advertises besides its 4-octet AS (rcap6: RFC 8654 Extended Message,
// which the local plugin does NOT advertise, so nothing about the 4096-octet limit changes).
func stimCaps(cfg string) []wire.Cap {
	if cfg == "rcap6" {
		return []wire.Cap{{Code: 6}, {Code: 2}}
	}
	return nil
}

// stimCfg returns (local hold option or -1, hold time in the remote's OPEN, remote AS).
func stimCfg(cfg string) (lhold int, rhold uint16, ras uint32) {
	lhold, rhold, ras = -1, 90, 65002
	switch cfg {
	case "lhold0":
		lhold = 0
	case "rhold0":
		rhold = 0
	case "lhold3", "lhold3w":
		lhold = 3
	case "ibgp":
		ras = 65001
	}
	return
}

type stimObs struct {
	reached   bool
	after     []wire.Msg // messages received after the state was reached
	eof       bool
	timedOut  bool
	frameErr  error
	delivered [][]byte
	nEst      int
	nClose    int
	w         *world.World
	secondUp  bool
	secondRx  []wire.Msg
}

func runStim(cs stimCase, trace bool) (*stimObs, *vrt.Exec) {
	o := &stimObs{}
	stim, _ := hex.DecodeString(cs.Stimulus)
	post, _ := hex.DecodeString(cs.Post)
	var plugN []byte
	if cs.PlugN != "" {
		plugN, _ = hex.DecodeString(cs.PlugN)
	}
	mkNotif := func() *corebgp.Notification {
		return &corebgp.Notification{Code: plugN[0], Subcode: plugN[1], Data: append([]byte(nil), plugN[2:]...)}
	}
	conns := 0
	lhold, rhold, ras := stimCfg(cs.Cfg)
	s := &Sess{LocalAS: 65001, RemoteAS: ras, Hold: lhold, Inbound: cs.Inbound, Horizon: 20 * time.Second, Reconnect: cs.Expect == "second-connection",
		Plugin: func(w *world.World) *world.Plugin {
			p := &world.Plugin{W: w, Peer: "P1", Marker: true, NoYield: true}
			if cs.Cfg == "lhold3w" {
				// hold 3 s (KEEPALIVE every second) and one plugin write 1.7 s into the session, which postpones
				// the next KEEPALIVE to 2.7 s
				p.OnEst = func(pp *world.Plugin, s int, wr corebgp.UpdateMessageWriter) {
					vrt.GoWorld("late-writer", func() {
						vrt.Sleep(1700 * time.Millisecond)
						wr.WriteUpdate([]byte("LATE")) // nolint: errcheck
					})
				}
			}
			if cs.Cfg == "slowclose" {
				// OnClose takes 3 s: the connection must not stay open that long (the remote watches 1 s)
				p.OnCloseFn = func(*world.Plugin, int) { vrt.Sleep(3 * time.Second) }
			}
			if cs.PlugAt == "open" {
				p.OpenNotif = func(_ netip.Addr, _ []corebgp.Capability) *corebgp.Notification { return mkNotif() }
			}
			if cs.PlugAt == "handler" {
				p.Handle = func(p *world.Plugin, s, n int, b []byte) *corebgp.Notification { return mkNotif() }
			}
			return p
		},
		Script: func(w *world.World, r *world.Remote) {
			st := cs.State
			conns++
			if cs.Expect == "second-connection" && conns == 2 {
				// the second connection of the peer: a clean handshake must work
				o.secondUp = reach(r, stEstablished, ras, rhold, stimCaps(cs.Cfg)...)
				o.secondRx = append([]wire.Msg{}, r.Rx...)
				return
			}
			if cs.PlugAt == "open" {
				// reach OpenSent, send a valid OPEN, the plugin refuses it
				if !reach(r, stOpenSent, ras, rhold) {
					return
				}
				o.reached = true
				r.Send(wire.Open(ras, rhold, 0x0a000002, stimCaps(cs.Cfg)...))
			} else {
				if !reach(r, st, ras, rhold, stimCaps(cs.Cfg)...) {
					return
				}
				o.reached = true
			}
			if cs.DelayMs > 0 {
				vrt.Sleep(time.Duration(cs.DelayMs) * time.Millisecond)
				for r.C.Pending() > 0 {
					if _, err := r.ReadMsg(); err != nil {
						break
					}
				}
			}
			start := len(r.Rx)
			var stream []byte
			for i := 0; i < cs.PreKA; i++ {
				stream = append(stream, wire.Keepalive()...)
			}
			for _, p := range cs.Pre {
				b, _ := hex.DecodeString(p)
				stream = append(stream, wire.Update(b)...)
			}
			stream = append(stream, stim...)
			stream = append(stream, post...)
			if len(stream) > 0 {
				r.Send(stream, cs.Chunks...)
			}
			switch cs.End {
			case "fin":
				r.C.CloseWrite()
			case "rst":
				r.C.Reset()
				o.after = nil
				return
			}
			if cs.Expect == "progress" {
				switch {
				case st == stOpenSent:
					_, _ = r.Expect(wire.TypeKeepalive)
				case st == stOpenConfirm:
					_, _ = r.Expect(wire.TypeUpdate)
				default:
					// probe: one more UPDATE must still be delivered
					r.Send(wire.Update([]byte("PROBE")))
					r.Deadline(5 * time.Second)
					vrtWaitDelivered(w, "PROBE")
				}
				o.after = append([]wire.Msg{}, r.Rx[start:]...)
				return
			}
			if cs.Cfg == "slowclose" {
				r.Deadline(time.Second)
			} else {
				r.Deadline(5 * time.Second)
			}
			r.Drain()
			o.after = append([]wire.Msg{}, r.Rx[start:]...)
			o.eof, o.timedOut, o.frameErr = r.EOF, r.TimedOut, r.FrameErr
		}}
	w, e := s.Run(nil, trace)
	o.w = w
	if w != nil {
		for _, ev := range w.Log {
			switch {
			case ev.Kind == "Handler" && ev.Phase == "enter":
				o.delivered = append(o.delivered, ev.Data)
			case ev.Kind == "OnEstablished" && ev.Phase == "enter":
				o.nEst++
			case ev.Kind == "OnClose" && ev.Phase == "exit":
				o.nClose++
			}
		}
	}
	return o, e
}

// vrtWaitDelivered blocks until an UPDATE with the given body was delivered
// or 5 virtual seconds passed.
func vrtWaitDelivered(w *world.World, body string) {
	t := vrt.NewTimer(5 * time.Second)
	deadline := vrt.Cur().Now() + int64(5*time.Second)
	_ = t
	vrt.WaitLog("delivered:"+body, func() bool {
		if vrt.Cur().Now() >= deadline {
			return true
		}
		for _, ev := range w.Log {
			if ev.Kind == "Handler" && ev.Phase == "exit" && string(ev.Data) == body {
				return true
			}
		}
		return false
	})
	vrt.LogTouch()
}

func hasDelivered(o *stimObs, body []byte) bool {
	for _, d := range o.delivered {
		if bytes.Equal(d, body) {
			return true
		}
	}
	return false
}

// judgeStim compares the observation with the case's expectation.
func judgeStim(prop string, cs stimCase, o *stimObs, e *vrt.Exec) (rule, msg string) {
	if r, m := basicVerdict(e); r != "" {
		return r, m
	}
	if !o.reached {
		return "state-not-reached", "could not drive the connection into " + stName[cs.State]
	}
	if o.frameErr != nil {
		return "malformed-output", "corebgp wrote a malformed message: " + o.frameErr.Error()
	}
	var notifs, others []wire.Msg
	for _, m := range o.after {
		if m.Type == wire.TypeNotification {
			notifs = append(notifs, m)
		} else {
			others = append(others, m)
		}
	}
	// preceding well-formed UPDATEs took effect, in order
	if cs.State == stEstablished {
		var want [][]byte
		for _, p := range cs.Pre {
			b, _ := hex.DecodeString(p)
			want = append(want, b)
		}
		if cs.Delivery != "" {
			b, _ := hex.DecodeString(cs.Delivery)
			want = append(want, b)
		}
		if cs.Expect == "progress" && cs.Msg == "update" {
			b, _ := hex.DecodeString(cs.Stimulus)
			want = append(want, b[wire.HeaderLen:])
		}
		if len(o.delivered) < len(want) {
			return "preceding-message-lost", fmt.Sprintf("%d well-formed UPDATEs preceded the stimulus but only %d were delivered", len(want), len(o.delivered))
		}
		for i, b := range want {
			if !bytes.Equal(o.delivered[i], b) {
				return "delivery-differs", fmt.Sprintf("delivery %d is %x, sent %x", i, o.delivered[i], b)
			}
		}
		if cs.Post != "" && cs.Expect != "progress" && cs.Expect != "framing" {
			pb, _ := hex.DecodeString(cs.Post)
			if len(pb) > wire.HeaderLen && hasDelivered(o, pb[wire.HeaderLen:]) {
				return "interpreted-after-fault", "the message following the fault was delivered to the handler"
			}
		}
		if cs.Expect != "progress" && cs.Expect != "framing" && cs.Expect != "second-connection" && cs.Kind != "length-sweep" && len(o.delivered) > len(want) {
			return "interpreted-after-fault", fmt.Sprintf("%d deliveries, only %d expected", len(o.delivered), len(want))
		}
		// OnClose exactly once for the Established session (after shutdown)
		if cs.Expect == "second-connection" {
			// two sessions
		} else if o.nEst != 1 || o.nClose != 1 {
			return "onclose-count", fmt.Sprintf("OnEstablished=%d OnClose=%d for one Established session", o.nEst, o.nClose)
		}
	} else if o.nEst != 0 && cs.Expect != "progress" && cs.Expect != "framing" {
		return "unexpected-established", "session reported Established"
	}
	switch cs.Expect {
	case "second-connection":
		if !o.secondUp {
			return "second-connection-misframed", fmt.Sprintf("after a session that ended with bytes behind its last message, a clean handshake on the next connection failed: corebgp sent %v", o.secondRx)
		}
		return "", ""
	case "framing":
		if hasDelivered(o, []byte("PHANTOM")) {
			return "body-interpreted-as-message", "the body of a KEEPALIVE-typed message was interpreted as a message of its own"
		}
		if len(notifs) == 0 {
			if cs.State == stEstablished && !hasDelivered(o, []byte("REAL")) {
				return "message-after-keepalive-lost", "the UPDATE following an accepted KEEPALIVE-typed message with a body was not delivered"
			}
			return "", ""
		}
		c, s, _ := notifs[0].Notif()
		if c == 1 && s == 2 || cs.State == stOpenConfirm && c == 5 {
			// refused for its length, or (OpenConfirm) the following UPDATE was an FSM error: framing intact
			return "", ""
		}
		return fmt.Sprintf("misframed(%d,%d)", c, s), fmt.Sprintf("a KEEPALIVE-typed message of length %d followed by a well-formed UPDATE was answered with NOTIFICATION (%d,%d): the stream was not delimited by the length field", len(cs.Stimulus)/2, c, s)
	case "notif":
		if len(notifs) != 1 {
			return "notification-count", fmt.Sprintf("expected exactly one NOTIFICATION, got %v (others %v)", notifs, others)
		}
		c, s, d := notifs[0].Notif()
		ok := false
		for _, a := range cs.Admit {
			if int(c) == a[0] && int(s) == a[1] {
				switch {
				case a[2] == -1:
					ok = true
				case a[2] == -2:
					ok = ok || len(d) == 0
				default:
					ok = ok || (len(d) == 1 && int(d[0]) == a[2])
				}
			}
		}
		if cs.PlugN != "" {
			pn, _ := hex.DecodeString(cs.PlugN)
			ok = bytes.Equal(notifs[0].Body, pn)
			if !ok {
				return "notification-not-verbatim", fmt.Sprintf("plugin returned notification %x (len %d) but the wire carried %x (len %d)", trunc(pn), len(pn), trunc(notifs[0].Body), len(notifs[0].Body))
			}
		}
		if !ok {
			return fmt.Sprintf("wrong-notification(%d,%d)", c, s), fmt.Sprintf("got NOTIFICATION (%d,%d,%x); admissible (code,sub,data): %v", c, s, d, cs.Admit)
		}
		if len(others) > 0 {
			return "unexpected-message", fmt.Sprintf("unexpected messages %v", others)
		}
		if !o.eof {
			return "no-close", "connection not closed after the NOTIFICATION"
		}
	case "silent-close":
		if len(notifs) > 0 {
			c, s, d := notifs[0].Notif()
			return "notification-in-reply", fmt.Sprintf("corebgp sent NOTIFICATION (%d,%d,%x) where a silent close is required", c, s, d)
		}
		if len(others) > 0 {
			return "unexpected-message", fmt.Sprintf("unexpected messages %v", others)
		}
		if !o.eof {
			return "no-close", "connection not closed"
		}
	case "progress":
		if len(notifs) > 0 {
			c, s, d := notifs[0].Notif()
			return "notification-on-legal-message", fmt.Sprintf("legal message answered with NOTIFICATION (%d,%d,%x)", c, s, d)
		}
		switch cs.State {
		case stOpenSent:
			if len(others) != 1 || others[0].Type != wire.TypeKeepalive {
				return "no-progress", fmt.Sprintf("OPEN in OpenSent not answered with KEEPALIVE: %v", others)
			}
		case stOpenConfirm:
			if len(others) != 1 || others[0].Type != wire.TypeUpdate || o.nEst != 1 {
				return "no-progress", fmt.Sprintf("KEEPALIVE in OpenConfirm did not establish the session: %v", others)
			}
		case stEstablished:
			if !hasDelivered(o, []byte("PROBE")) {
				return "no-progress", "session did not survive a legal message (probe UPDATE not delivered)"
			}
		}
	case "none":
	}
	return "", ""
}

func trunc(b []byte) []byte {
	if len(b) > 24 {
		return b[:24]
	}
	return b
}

func stimReplay(prop string) func(c *harness.Ctx, raw json.RawMessage) {
	return func(c *harness.Ctx, raw json.RawMessage) {
		var r struct {
			Case     stimCase `json:"case"`
			Scenario string   `json:"scenario"`
		}
		if err := json.Unmarshal(raw, &r); err != nil {
			panic(err)
		}
		if r.Scenario != "" {
			scnReplay(prop, func(name string) *Scn {
				var cut int
				if n, _ := fmt.Sscanf(name, "two-peers-rx/cut%d", &cut); n == 1 {
					return twoPeersRxScn(prop, cut, 3)
				}
				for _, p := range c04FaultParams() {
					if p.name() == name {
						return c04ScnFor(prop, p, 3)
					}
				}
				if s := c04StallEventLookup(prop, name); s != nil {
					return s
				}
				return nil
			})(c, raw)
			return
		}
		evalStim(c, prop, r.Case, true)
	}
}

func evalStim(c *harness.Ctx, prop string, cs stimCase, trace bool) {
	if stimCollector != nil {
		stimCollector(prop, cs)
		return
	}
	o, e := runStim(cs, trace)
	rule, msg := judgeStim(prop, cs, o, e)
	if rule != "" {
		sig := fmt.Sprintf("%s:%s:%s:%s", prop, cs.Kind, stName[cs.State], rule)
		c.Violation(rule, sig, msg, map[string]any{"case": cs, "log": logText(o.w), "wire": wireText(o.w)})
	}
	e.Finish()
}

var c08Chunkings = [][]int{nil, {1}, {16, 4096}, {18, 4096}, {19, 4096}, {3}, {20, 4096}}

func headerAdmit(hdr []byte) [][3]int {
	var a [][3]int
	for i := 0; i < 16; i++ {
		if hdr[i] != 0xff {
			// a stream that is not synchronised has no length or type field to speak of: the marker
			// sentence of the property comes first and is unconditional
			return [][3]int{{1, 1, -1}}
		}
	}
	l := int(hdr[16])<<8 | int(hdr[17])
	if l < 19 || l > 4096 {
		a = append(a, [3]int{1, 2, -1})
	}
	if t := hdr[18]; t < 1 || t > 4 {
		a = append(a, [3]int{1, 3, int(t)})
	}
	return a
}

func c08Check(c *harness.Ctx) {
	th := c.Thorough()
	idx := 0
	if stimCollector == nil {
		// framing is per connection: two sessions receiving split headers at the same instant
		for i, cut := range twoPeersRxCuts {
			if !c.Mine(i) {
				continue
			}
			b := 2
			if th {
				b = 3
			}
			if !exploreScn(c, "C08", twoPeersRxScn("C08", cut, b)) {
				return
			}
		}
		// the NOTIFICATION for a header fault while plugin goroutines are writing: it is a message of its own
		for i, p := range c04FaultParams() {
			if !c.Mine(i + 3) {
				continue
			}
			b := 3 // the NOTIFICATION has to land between two writes of one WriteUpdate call: three deviations
			if th {
				b = 4
			}
			if !exploreScn(c, "C08", c04ScnFor("C08", p, b)) {
				return
			}
		}
	}
	run := func(cs stimCase, nontrivial bool) bool {
		idx++
		if !c.Mine(idx) {
			return true
		}
		if c.Expired() {
			return false
		}
		b, _ := json.Marshal(cs)
		c.Eval(b, nontrivial)
		if idx%5003 == 1 {
			c.Sample(cs)
		}
		evalStim(c, "C08", cs, false)
		return true
	}
	postUpd := hex.EncodeToString(wire.Update([]byte("AFTER")))
	type hdrFault struct {
		hdr  []byte
		body []byte
	}
	var faults []hdrFault
	// marker corruptions
	for pos := 0; pos < 16; pos++ {
		for _, v := range []byte{0x00, 0x7f, 0xfe} {
			m := wire.GoodMarker
			m[pos] = v
			faults = append(faults, hdrFault{wire.RawHeader(m, 19, wire.TypeKeepalive), nil})
			if th {
				faults = append(faults, hdrFault{wire.RawHeader(m, 23, wire.TypeUpdate), []byte{0, 0, 0, 0}})
			}
		}
	}
	faults = append(faults, hdrFault{wire.RawHeader([16]byte{}, 19, wire.TypeKeepalive), nil})
	// several faults at once
	faults = append(faults, hdrFault{wire.RawHeader([16]byte{}, 5, 99), nil}, hdrFault{wire.RawHeader(wire.GoodMarker, 4097, 77), nil})
	for _, pos := range []int{0, 7, 15} {
		for _, l := range []uint16{0, 18, 4097, 65535} {
			for _, t := range []byte{wire.TypeKeepalive, wire.TypeUpdate, 0, 5} {
				m := wire.GoodMarker
				m[pos] = 0xfe
				faults = append(faults, hdrFault{wire.RawHeader(m, l, t), nil})
			}
		}
		m := wire.GoodMarker
		m[pos] = 0
		faults = append(faults, hdrFault{wire.RawHeader(m, 19, 0), nil}, hdrFault{wire.RawHeader(m, 23, 200), []byte{1, 2, 3, 4}})
	}
	// lengths out of range
	var lens []int
	for l := 0; l <= 18; l++ {
		lens = append(lens, l)
	}
	lens = append(lens, 4097, 4098, 4099, 4100, 8192, 32767, 32768, 65535)
	if th {
		// every value of the 16-bit length field that is out of range
		lens = lens[:0]
		for l := 0; l <= 18; l++ {
			lens = append(lens, l)
		}
		for l := 4097; l <= 65535; l++ {
			lens = append(lens, l)
		}
	}
	var sweepFaults []hdrFault // thorough: the exhaustive out-of-range sweep, one variant each
	for _, l := range lens {
		if th && l > 4100 && l < 65535 && l != 8192 && l != 32767 && l != 32768 {
			sweepFaults = append(sweepFaults, hdrFault{wire.RawHeader(wire.GoodMarker, uint16(l), []byte{wire.TypeUpdate, wire.TypeKeepalive, wire.TypeOpen, wire.TypeNotification}[l%4]), nil})
			continue
		}
		for _, t := range []byte{wire.TypeUpdate, wire.TypeKeepalive, wire.TypeOpen} {
			faults = append(faults, hdrFault{wire.RawHeader(wire.GoodMarker, uint16(l), t), nil})
		}
	}
	// unknown types at lengths 19 and 23
	for t := 0; t < 256; t++ {
		if t >= 1 && t <= 4 {
			continue
		}
		faults = append(faults, hdrFault{wire.RawHeader(wire.GoodMarker, 19, byte(t)), nil})
		faults = append(faults, hdrFault{wire.RawHeader(wire.GoodMarker, 23, byte(t)), []byte{1, 2, 3, 4}})
	}
	for _, st := range []int{stOpenSent, stOpenConfirm, stEstablished} {
		for _, inbound := range []bool{true, false} {
			for fi, f := range faults {
				pres := [][]string{nil}
				if st == stEstablished {
					pres = append(pres, []string{hex.EncodeToString([]byte("PRE-1"))}, []string{hex.EncodeToString([]byte("PRE-1")), hex.EncodeToString([]byte{})})
				}
				for pi, pre := range pres {
					chunkings := c08Chunkings
					if !th {
						// quick: rotate through the segmentations
						chunkings = [][]int{c08Chunkings[(fi+pi)%len(c08Chunkings)]}
					}
					for _, ch := range chunkings {
						cs := stimCase{Kind: "header-fault", State: st, Inbound: inbound, Pre: pre, PreKA: pi % 2,
							Stimulus: hex.EncodeToString(append(append([]byte{}, f.hdr...), f.body...)), Post: postUpd, Chunks: ch,
							Expect: "notif", Admit: headerAdmit(f.hdr)}
						if !run(cs, len(cs.Admit) == 1) {
							return
						}
						// the same fault in sessions with other hold-time configurations (local 0: no
						// timers at all; remote 0; local 3: short timers)
						if pi == 0 && (th || fi%5 == 0) {
							for _, cfg := range []string{"lhold0", "rhold0", "lhold3", "ibgp", "rcap6"} {
								cc := cs
								cc.Cfg = cfg
								if !run(cc, len(cs.Admit) == 1) {
									return
								}
							}
						}
					}
				}
			}
		}
	}
	for fi, f := range sweepFaults {
		cs := stimCase{Kind: "header-fault", State: []int{stOpenSent, stOpenConfirm, stEstablished}[fi%3], Inbound: fi%2 == 0,
			Stimulus: hex.EncodeToString(f.hdr), Post: postUpd, Chunks: c08Chunkings[fi%len(c08Chunkings)], Expect: "notif", Admit: headerAdmit(f.hdr)}
		if !run(cs, true) {
			return
		}
	}
	// in-range lengths with type UPDATE in Established: every body length is legal and delivered byte-exact
	var sweep []int
	if th {
		for l := 19; l <= 4096; l++ {
			sweep = append(sweep, l)
		}
	} else {
		for l := 19; l <= 60; l++ {
			sweep = append(sweep, l)
		}
		sweep = append(sweep, 255+19, 256+19, 1024, 4090, 4091, 4092, 4093, 4094, 4095, 4096)
	}
	for _, l := range sweep {
		body := make([]byte, l-19)
		for i := range body {
			body[i] = byte(i*7 + l)
		}
		for _, inbound := range []bool{true, false} {
			cs := stimCase{Kind: "length-sweep", State: stEstablished, Inbound: inbound, Stimulus: hex.EncodeToString(wire.Update(body)),
				Delivery: hex.EncodeToString(body), Expect: "progress", Chunks: c08Chunkings[l%len(c08Chunkings)]}
			if !run(cs, true) {
				return
			}
		}
	}
	// a KEEPALIVE-typed message with a body: whether it is accepted or refused with Bad Message
	// Length is not judged, but the next message starts where the length field says
	phantom := wire.Update([]byte("PHANTOM"))
	for _, body := range [][]byte{phantom, {0}, bytes.Repeat([]byte{0}, 23), bytes.Repeat([]byte{0xff}, 19), append(append([]byte{}, phantom...), phantom...), bytes.Repeat([]byte{0xff}, 4077)} {
		for _, st := range []int{stOpenConfirm, stEstablished} {
			for _, inbound := range []bool{true, false} {
				ka := append(wire.RawHeader(wire.GoodMarker, uint16(19+len(body)), wire.TypeKeepalive), body...)
				cs := stimCase{Kind: "keepalive-with-body", State: st, Inbound: inbound, Stimulus: hex.EncodeToString(ka), Post: hex.EncodeToString(wire.Update([]byte("REAL"))), Expect: "framing"}
				if !run(cs, true) {
					return
				}
			}
		}
	}
	// bytes received behind a session-ending message must not leak into the next connection of the peer
	for _, tail := range [][]byte{wire.Keepalive(), append(wire.Keepalive(), 1, 2, 3, 4, 5), wire.Keepalive()[:9], append(wire.Keepalive(), wire.RawHeader(wire.GoodMarker, 19, 9)...)} {
		cs := stimCase{Kind: "leftover-bytes", State: stEstablished, Inbound: false, Stimulus: hex.EncodeToString(append(wire.Notification(6, 2, nil), tail...)), Expect: "second-connection"}
		if !run(cs, true) {
			return
		}
	}
	// in-range UPDATE before the session is up: FSM error (C09) - only that it is not taken for a header error
	// outgoing NOTIFICATION fidelity: plugin-returned notifications
	var dls []int
	if th {
		for l := 0; l <= 4075; l++ {
			dls = append(dls, l)
		}
	} else {
		for l := 0; l <= 64; l++ {
			dls = append(dls, l)
		}
		dls = append(dls, 255, 256, 4074, 4075)
	}
	codes := [][2]byte{{1, 1}, {2, 7}, {3, 11}, {4, 0}, {5, 3}, {6, 2}, {7, 1}, {0, 0}, {255, 255}}
	for _, dl := range dls {
		for ci, cc := range codes {
			if th && dl > 64 && ci != dl%len(codes) {
				continue
			}
			n := append([]byte{cc[0], cc[1]}, bytes.Repeat([]byte{byte(dl + 1)}, dl)...)
			for _, at := range []string{"open", "handler"} {
				cs := stimCase{Kind: "plugin-notif", State: stOpenSent, Inbound: (dl+ci)%2 == 0, PlugAt: at, PlugN: hex.EncodeToString(n), Expect: "notif"}
				if at == "handler" {
					cs.State = stEstablished
					cs.Stimulus = hex.EncodeToString(wire.Update([]byte("TRIGGER")))
					cs.Delivery = hex.EncodeToString([]byte("TRIGGER"))
				}
				if !run(cs, true) {
					return
				}
			}
		}
	}
}

func c09Check(c *harness.Ctx) {
	th := c.Thorough()
	idx := 0
	if !c09SecondSession(c, &idx) {
		return
	}
	if stimCollector == nil {
		// NOTIFICATION / end of stream in Established while plugin goroutines are blocked in WriteUpdate behind
		// a full window: the reaction of the table (close, OnClose) must not wait for them
		for i, ev := range c04StallEvents {
			if !c.Mine(i + 7) {
				continue
			}
			if !exploreScn(c, "C09", c04StallEventScn("C09", ev, 1)) {
				return
			}
		}
	}
	run := func(cs stimCase) bool {
		idx++
		if !c.Mine(idx) {
			return true
		}
		if c.Expired() {
			return false
		}
		b, _ := json.Marshal(cs)
		c.Eval(b, true)
		if idx%301 == 1 {
			c.Sample(cs)
		}
		evalStim(c, "C09", cs, false)
		return true
	}
	msgs := map[string][]byte{
		"open":      wire.Open(65002, 90, 0x0a000002),
		"update":    wire.Update([]byte{0, 0, 0, 0}),
		"keepalive": wire.Keepalive(),
	}
	typ := map[string]int{"open": 1, "update": 2, "keepalive": 4}
	legal := map[int]map[string]bool{stOpenSent: {"open": true}, stOpenConfirm: {"keepalive": true}, stEstablished: {"keepalive": true, "update": true}}
	for _, st := range []int{stOpenSent, stOpenConfirm, stEstablished} {
		for _, inbound := range []bool{true, false} {
			for _, name := range []string{"open", "update", "keepalive"} {
				chunkings := [][]int{nil}
				if th {
					chunkings = c08Chunkings
				}
				for _, ch := range chunkings {
					cs := stimCase{Kind: "table", State: st, Inbound: inbound, Msg: name, Stimulus: hex.EncodeToString(msgs[name]), Chunks: ch}
					if legal[st][name] {
						cs.Expect = "progress"
					} else {
						cs.Expect = "notif"
						cs.Admit = [][3]int{{5, st, typ[name]}}
						cs.Post = hex.EncodeToString(wire.Update([]byte("AFTER")))
					}
					if !run(cs) {
						return
					}
					if !legal[st][name] {
						// the unexpected message is immediately followed by FIN: it arrived first and
						// must still be answered
						fin := cs
						fin.Post, fin.End = "", "fin"
						if !run(fin) {
							return
						}
					}
					for _, cfg := range []string{"lhold0", "rhold0", "lhold3", "ibgp", "rcap6", "slowclose"} {
						if cfg == "slowclose" && (st != stEstablished || legal[st][name]) {
							continue
						}
						cc := cs
						cc.Cfg = cfg
						if name == "open" {
							_, rh, ras := stimCfg(cfg)
							cc.Stimulus = hex.EncodeToString(wire.Open(ras, rh, 0x0a000002))
						}
						if !run(cc) {
							return
						}
					}
				}
			}
			// an OPEN is unexpected in OpenConfirm and Established whatever it says: OPENs that would be
			// refused in OpenSent for their CONTENT (well-formed, decodable) are FSM errors here too
			if st != stOpenSent {
				c4 := wire.CapParam(wire.Cap4(65002))
				bad := map[string][]byte{
					"version3":      wire.Frame(wire.TypeOpen, wire.OpenBody(3, wire.AS2(65002), 90, 0x0a000002, c4)),
					"version0":      wire.Frame(wire.TypeOpen, wire.OpenBody(0, wire.AS2(65002), 90, 0x0a000002, c4)),
					"version255":    wire.Frame(wire.TypeOpen, wire.OpenBody(255, wire.AS2(65002), 90, 0x0a000002, c4)),
					"other-as":      wire.Open(64999, 90, 0x0a000002),
					"hold1":         wire.Open(65002, 1, 0x0a000002),
					"hold2":         wire.Open(65002, 2, 0x0a000002),
					"hold0":         wire.Open(65002, 0, 0x0a000002),
					"id-multicast":  wire.Open(65002, 90, 0xe0000001),
					"id-zero":       wire.Open(65002, 90, 0),
					"id-local":      wire.Open(65002, 90, 0x0a000001),
					"id-changed":    wire.Open(65002, 90, 0x0a000063),
					"no-capability": wire.Frame(wire.TypeOpen, wire.OpenBody(4, wire.AS2(65002), 90, 0x0a000002, wire.CapParam(wire.Cap{Code: 1, Value: []byte{0, 1, 0, 1}}))),
					"more-caps":     wire.Frame(wire.TypeOpen, wire.OpenBody(4, wire.AS2(65002), 90, 0x0a000002, wire.CapParam(wire.Cap4(65002), wire.Cap{Code: 2}, wire.Cap{Code: 69, Value: []byte{0, 1, 1, 3}}))),
				}
				for _, name := range []string{"version3", "version0", "version255", "other-as", "hold1", "hold2", "hold0", "id-multicast", "id-zero", "id-local", "id-changed", "no-capability", "more-caps"} {
					for _, end := range []string{"", "fin"} {
						cs := stimCase{Kind: "table", State: st, Inbound: inbound, Msg: "open:" + name, Stimulus: hex.EncodeToString(bad[name]), End: end,
							Expect: "notif", Admit: [][3]int{{5, st, 1}}}
						if !run(cs) {
							return
						}
					}
				}
			}
			if st == stEstablished {
				// late in a session with running timers and a plugin write in between (a deadline, a flag or a
				// buffer left behind by the periodic KEEPALIVE path must not spoil the reaction)
				for _, name := range []string{"open", "update", "keepalive"} {
					for _, d := range []int{1300, 2300, 2699, 2701} {
						cs := stimCase{Kind: "table", State: st, Inbound: inbound, Msg: name + "-late", Stimulus: hex.EncodeToString(msgs[name]), Cfg: "lhold3w", DelayMs: d}
						if legal[st][name] {
							cs.Expect = "progress"
						} else {
							cs.Expect, cs.Admit = "notif", [][3]int{{5, st, typ[name]}}
						}
						if !run(cs) {
							return
						}
					}
				}
				// a slow OnClose must not keep the connection open: received NOTIFICATION, FIN
				for _, stim := range [][]byte{wire.Notification(6, 2, nil), wire.Notification(3, 1, []byte{1}), nil} {
					cs := stimCase{Kind: "table", State: st, Inbound: inbound, Msg: "slow-onclose", Stimulus: hex.EncodeToString(stim), Expect: "silent-close", Cfg: "slowclose"}
					if stim == nil {
						cs.End = "fin"
					}
					if !run(cs) {
						return
					}
				}
			}
			// received NOTIFICATIONs
			subs := []byte{0, 1, 255}
			dls := []int{0, 1, 2, 100, 4074, 4075}
			if th {
				subs = []byte{0, 1, 2, 3, 7, 11, 255}
				dls = []int{0, 1, 2, 3, 100, 4075}
			}
			for code := 1; code <= 7; code++ {
				for _, sub := range subs {
					for _, dl := range dls {
						n := wire.Notification(byte(code), sub, bytes.Repeat([]byte{0x5a}, dl))
						cs := stimCase{Kind: "table", State: st, Inbound: inbound, Msg: fmt.Sprintf("notification(%d,%d,len%d)", code, sub, dl),
							Stimulus: hex.EncodeToString(n), Expect: "silent-close", Post: hex.EncodeToString(wire.Update([]byte("AFTER")))}
						if !run(cs) {
							return
						}
					}
				}
			}
			// data whose first octet looks like a length (RFC 9003 style), right and wrong
			for _, cc := range [][2]byte{{6, 2}, {6, 4}, {6, 0}, {2, 7}, {3, 1}, {5, 1}} {
				for _, data := range [][]byte{{64, 'b', 'y', 'e'}, {3, 'b', 'y', 'e'}, {0}, {255}, {1}, {2, 'a'}, bytes.Repeat([]byte{0xff}, 128)} {
					n := wire.Notification(cc[0], cc[1], data)
					for _, end := range []string{"", "fin"} {
						if !run(stimCase{Kind: "table", State: st, Inbound: inbound, Msg: fmt.Sprintf("notification(%d,%d,%x)", cc[0], cc[1], trunc(data)), Stimulus: hex.EncodeToString(n), End: end, Expect: "silent-close"}) {
							return
						}
					}
				}
			}
			if th {
				for code := 0; code < 256; code += 5 {
					n := wire.Notification(byte(code), byte(code), nil)
					if !run(stimCase{Kind: "table", State: st, Inbound: inbound, Msg: fmt.Sprintf("notification(%d)", code), Stimulus: hex.EncodeToString(n), Expect: "silent-close"}) {
						return
					}
				}
			}
			// TCP close / reset, also in the middle of a message
			for _, end := range []string{"fin", "rst"} {
				partials := [][]byte{nil, wire.Keepalive()[:7], wire.Update([]byte{1, 2, 3, 4, 5})[:21]}
				for _, part := range partials {
					cs := stimCase{Kind: "table", State: st, Inbound: inbound, Msg: end, End: end, Stimulus: hex.EncodeToString(part), Expect: "silent-close"}
					if end == "rst" {
						cs.Expect = "none"
					}
					if !run(cs) {
						return
					}
				}
			}
		}
	}
}

// c09SecondSession: the judged session is the second one on the same (dialling) FSM: it must
// get its own OnClose whatever ended the first one.
func c09SecondSession(c *harness.Ctx, idx *int) bool {
	for _, firstEnd := range []string{"cease", "fin", "rst"} {
		for _, secondEnd := range []string{"cease", "fin", "rst", "open", "close"} {
			*idx++
			if !c.Mine(*idx) {
				continue
			}
			if c.Expired() {
				return false
			}
			conns := 0
			end := func(r *world.Remote, how string) {
				switch how {
				case "cease":
					r.Send(wire.Notification(6, 2, nil))
					r.Deadline(3 * time.Second)
					r.Drain()
				case "fin":
					r.C.Close()
				case "rst":
					r.C.Reset()
				case "open":
					r.Send(wire.Open(65002, 90, 0x0a000002))
					r.Deadline(3 * time.Second)
					r.Drain()
				case "close":
					// the server's Close ends it
				}
			}
			s := &Sess{LocalAS: 65001, RemoteAS: 65002, Hold: -1, Inbound: false, Horizon: 30 * time.Second, Reconnect: true,
				Plugin: func(w *world.World) *world.Plugin {
					return &world.Plugin{W: w, Peer: "P1", Marker: true, NoYield: true}
				},
				Script: func(w *world.World, r *world.Remote) {
					conns++
					if !reach(r, stEstablished, 65002, 90) {
						return
					}
					if conns == 1 {
						end(r, firstEnd)
					} else {
						end(r, secondEnd)
					}
				}}
			w, e := s.Run(nil, false)
			rule, msg := basicVerdict(e)
			nEst, nClose := w.Count("OnEstablished", "enter", "P1"), w.Count("OnClose", "exit", "P1")
			if rule == "" && (nEst != 2 || nClose != 2) {
				rule, msg = "onclose-count", fmt.Sprintf("first session ended by %s, second by %s: OnEstablished fired %d times, OnClose %d times", firstEnd, secondEnd, nEst, nClose)
			}
			c.Eval([]byte("second-session/"+firstEnd+"/"+secondEnd), true)
			if rule != "" {
				c.Violation(rule, "C09:second-session:"+rule, msg, map[string]any{"second_session": []string{firstEnd, secondEnd}, "log": logText(w)})
			}
			e.Finish()
		}
	}
	return true
}

func init() {
	harness.Register(&harness.Check{
		Property: "C08", Level: "exploration", NeedsConc: true, QuickS: 120, ThoroughS: 900,
		Rule:   "for each of OpenSent/OpenConfirm/Established x direction: every single-octet marker corruption (3 values), every out-of-range length (0..18, >4096 boundary set), every unknown type octet at lengths 19 and 23, preceded by 0-2 well-formed messages and followed by a well-formed UPDATE, under a set of TCP segmentations; in-range UPDATE length sweep in Established; plugin-returned NOTIFICATIONs of every data length; KEEPALIVE headers announcing a body (framing must not be lost), octets left unread on a connection that ends must not leak into the next connection; two peers receiving split-header streams at the same instant under all schedules within delay bound 2 / 3; each case is one run of the real FSM over the virtual wire; non-trivial = header with exactly one fault, or a delivery/fidelity case",
		Assume: []string{"default schedule; virtual network (A3)", "data of (1,1)/(1,2) notifications and per-type minimum lengths are not judged (property silent)"},
		Run:    c08Check, Replay: stimReplay("C08"),
	})
	harness.Register(&harness.Check{
		Property: "C09", Level: "exploration", NeedsConc: true, QuickS: 120, ThoroughS: 600,
		Rule:   "the complete (state, message, direction) table: 3 states x {OPEN, UPDATE, KEEPALIVE} x 2 directions, received NOTIFICATIONs with codes 1..7 x subcodes x data lengths, TCP FIN and RST (also inside a message) at each state; every illegal cell also with FIN directly behind it; messages of exactly 4096 octets; the table again on the second session of the same peer (OnClose once per session); every cell is one run of the real FSM over the virtual wire; all cells are non-trivial",
		Assume: []string{"default schedule; virtual network (A3)"},
		Run:    c09Check, Replay: stimReplay("C09"),
	})
}
