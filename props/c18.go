package props

import (
	"encoding/binary"
	"encoding/hex"
	"encoding/json"
	"errors"
	"fmt"
	"hash/crc32"
	"net/netip"

	"github.com/jwhited/corebgp"

	"corebgpverif/harness"
	"corebgpverif/refmodel"
)

// C18: the typed path-attribute decoders accept exactly well-formed
// attributes. Pure API check: every case is one call of an exported Decode
// method on a fresh value, judged against refmodel.JudgeAttr.

// c18Case is the replay object: one (decoder, flags, value) triple. Attr
// "flags" denotes a case of the flag accessors.
type c18Case struct {
	Attr  string `json:"attr"`
	Flags byte   `json:"flags"`
	Value string `json:"value_hex"`
}

// c18Dec adapts one corebgp decoder: it decodes into a fresh value and
// converts the result to the neutral form of the reference model.
type c18Dec struct {
	name   string
	decode func(f corebgp.PathAttrFlags, b []byte) (refmodel.AttrValue, error)
}

func c18Addrs(l []netip.Addr) [][]byte {
	var r [][]byte
	for _, a := range l {
		r = append(r, a.AsSlice())
	}
	return r
}

var c18Decs = []c18Dec{
	{"ORIGIN", func(f corebgp.PathAttrFlags, b []byte) (refmodel.AttrValue, error) {
		var a corebgp.OriginPathAttr
		err := a.Decode(f, b)
		return refmodel.AttrValue{Origin: byte(a)}, err
	}},
	{"AS_PATH", func(f corebgp.PathAttrFlags, b []byte) (refmodel.AttrValue, error) {
		var a corebgp.ASPathAttr
		err := a.Decode(f, b)
		return refmodel.AttrValue{ASSequence: a.ASSequence, ASSet: a.ASSet}, err
	}},
	{"NEXT_HOP", func(f corebgp.PathAttrFlags, b []byte) (refmodel.AttrValue, error) {
		var a corebgp.NextHopPathAttr
		err := a.Decode(f, b)
		return refmodel.AttrValue{Addr: netip.Addr(a).AsSlice()}, err
	}},
	{"MULTI_EXIT_DISC", func(f corebgp.PathAttrFlags, b []byte) (refmodel.AttrValue, error) {
		var a corebgp.MEDPathAttr
		err := a.Decode(f, b)
		return refmodel.AttrValue{U32: uint32(a)}, err
	}},
	{"LOCAL_PREF", func(f corebgp.PathAttrFlags, b []byte) (refmodel.AttrValue, error) {
		var a corebgp.LocalPrefPathAttr
		err := a.Decode(f, b)
		return refmodel.AttrValue{U32: uint32(a)}, err
	}},
	{"ATOMIC_AGGREGATE", func(f corebgp.PathAttrFlags, b []byte) (refmodel.AttrValue, error) {
		var a corebgp.AtomicAggregatePathAttr
		err := a.Decode(f, b)
		return refmodel.AttrValue{Present: bool(a)}, err
	}},
	{"AGGREGATOR", func(f corebgp.PathAttrFlags, b []byte) (refmodel.AttrValue, error) {
		var a corebgp.AggregatorPathAttr
		err := a.Decode(f, b)
		return refmodel.AttrValue{U32: a.AS, Addr: a.IP.AsSlice()}, err
	}},
	{"COMMUNITIES", func(f corebgp.PathAttrFlags, b []byte) (refmodel.AttrValue, error) {
		var a corebgp.CommunitiesPathAttr
		err := a.Decode(f, b)
		return refmodel.AttrValue{U32s: []uint32(a)}, err
	}},
	{"ORIGINATOR_ID", func(f corebgp.PathAttrFlags, b []byte) (refmodel.AttrValue, error) {
		var a corebgp.OriginatorIDPathAttr
		err := a.Decode(f, b)
		return refmodel.AttrValue{Addr: netip.Addr(a).AsSlice()}, err
	}},
	{"CLUSTER_LIST", func(f corebgp.PathAttrFlags, b []byte) (refmodel.AttrValue, error) {
		var a corebgp.ClusterListPathAttr
		err := a.Decode(f, b)
		return refmodel.AttrValue{Addrs: c18Addrs(a)}, err
	}},
	{"LARGE_COMMUNITIES", func(f corebgp.PathAttrFlags, b []byte) (refmodel.AttrValue, error) {
		var a corebgp.LargeCommunitiesPathAttr
		err := a.Decode(f, b)
		var l [][3]uint32
		for _, x := range a {
			l = append(l, [3]uint32{x.GlobalAdmin, x.LocalData1, x.LocalData2})
		}
		return refmodel.AttrValue{Large: l}, err
	}},
}

// c18Outcome is what a decoder did with one input.
type c18Outcome struct {
	ok       bool
	value    refmodel.AttrValue
	approach string                // of a failure: treat-as-withdraw | attribute-discard | session-reset | other
	notif    *corebgp.Notification // embedded fallback NOTIFICATION of a failure
	err      error
	panicked string
}

func (o c18Outcome) String() string {
	switch {
	case o.panicked != "":
		return "panic: " + o.panicked
	case o.ok:
		return "success, value " + o.value.String()
	case o.notif == nil:
		return fmt.Sprintf("failure, approach %s, no fallback NOTIFICATION (%v)", o.approach, o.err)
	}
	return fmt.Sprintf("failure, approach %s, fallback NOTIFICATION code %d subcode %d", o.approach, o.notif.Code, o.notif.Subcode)
}

func c18Decode(d *c18Dec, flags byte, val []byte) (o c18Outcome) {
	defer func() {
		if r := recover(); r != nil {
			o = c18Outcome{panicked: fmt.Sprint(r)}
		}
	}()
	v, err := d.decode(corebgp.PathAttrFlags(flags), val)
	if err == nil {
		return c18Outcome{ok: true, value: v}
	}
	o.err = err
	var taw *corebgp.TreatAsWithdrawUpdateErr
	var ad *corebgp.AttrDiscardUpdateErr
	var n *corebgp.Notification
	switch {
	case errors.As(err, &taw):
		o.approach, o.notif = refmodel.TreatAsWithdraw.String(), taw.Notification
	case errors.As(err, &ad):
		o.approach, o.notif = refmodel.AttrDiscard.String(), ad.Notification
	case errors.As(err, &n):
		o.approach, o.notif = "session-reset", n
	default:
		o.approach = "other"
	}
	return o
}

// c18Compare judges an outcome against the reference verdict. It returns ""
// if the outcome is admissible, otherwise the violated aspect (coarse: it
// names the aspect and the kinds of fault present, never the input).
func c18Compare(v refmodel.AttrVerdict, o c18Outcome) string {
	if o.panicked != "" {
		return "panic"
	}
	if o.ok {
		if v.Class == refmodel.Reject {
			return "accepts-malformed:" + v.Kinds()
		}
		if !o.value.Equal(v.Value) {
			if o.value.Elements() < v.Value.Elements() {
				return "loses-elements"
			}
			return "wrong-value"
		}
		return ""
	}
	if v.Class == refmodel.Accept {
		return "rejects-well-formed"
	}
	// Reject, or DontCare and rejected: the failure must be one prescribed
	// for a fault (or silent aspect) present.
	if o.approach != refmodel.TreatAsWithdraw.String() && o.approach != refmodel.AttrDiscard.String() {
		return "error-type:" + v.Kinds()
	}
	if o.notif == nil {
		return "no-fallback-notification:" + v.Kinds()
	}
	if o.notif.Code != 3 {
		return "wrong-notification-code:" + v.Kinds()
	}
	approachAdmissible := false
	for _, r := range v.Admissible {
		if r.Approach.String() != o.approach {
			continue
		}
		approachAdmissible = true
		if r.Subcode < 0 || r.Subcode == int(o.notif.Subcode) {
			return ""
		}
	}
	if !approachAdmissible {
		return "wrong-approach:" + v.Kinds()
	}
	return "wrong-subcode:" + v.Kinds()
}

type c18FlagKey struct {
	name string
	set  int
}

// c18Run is the state of one shard run (or replay).
type c18Run struct {
	c        *harness.Ctx
	specs    map[string]*refmodel.AttrSpec // row each decoder is judged against, see effective
	reported map[string]bool
	flagSets map[c18FlagKey][]byte
	classes  [3]int
	expired  bool
	sweep3   bool // the length-3 sweep is running
	nSweep3  int
	perDec   map[string]int
}

func newC18Run(c *harness.Ctx) *c18Run {
	return &c18Run{c: c, specs: map[string]*refmodel.AttrSpec{}, reported: map[string]bool{}, flagSets: map[c18FlagKey][]byte{}, perDec: map[string]int{}}
}

// violation reports sig once per shard; the message is only built when needed.
// It returns true if sig is a known finding.
func (r *c18Run) violation(aspect, sig string, cs c18Case, msg func() string) bool {
	if r.c.KnownID(sig) != "" {
		return r.c.Violation(aspect, sig, "", nil)
	}
	if !r.reported[sig] {
		r.reported[sig] = true
		r.c.Violation(aspect, sig, msg(), map[string]any{"case": cs})
	}
	return false
}

// c18Hex renders a value for messages.
func c18Hex(v []byte) string {
	switch {
	case len(v) == 0:
		return "(empty)"
	case len(v) > 80:
		return fmt.Sprintf("%x...(%d octets)", v[:80], len(v))
	}
	return hex.EncodeToString(v)
}

func c18FlagsText(f byte) string {
	o, t, p, e := refmodel.FlagBits(f)
	b := func(x bool) int {
		if x {
			return 1
		}
		return 0
	}
	return fmt.Sprintf("0x%02x (Optional=%d Transitive=%d Partial=%d ExtendedLength=%d)", f, b(o), b(t), b(p), b(e))
}

// effective returns the table row decoder d is judged against; normally the
// RFC row. On first use it probes the decoder with a well-formed value under
// the four Optional/Transitive combinations. A decoder that accepts exactly
// one combination, and not the assigned one, reads a flag bit inverted; this
// is reported under a signature of its own. If (and only if) that signature
// is a known finding, the decoder is judged against the row with that bit
// inverted, so that everything else about the attribute (the other flag bit,
// length/value rule, approach, subcodes, value) stays judged.
func (r *c18Run) effective(d *c18Dec) *refmodel.AttrSpec {
	if s := r.specs[d.name]; s != nil {
		return s
	}
	spec := refmodel.AttrByName(d.name)
	legal := spec.LegalFlags()
	if v := refmodel.JudgeAttr(spec, legal, spec.Example); v.Class != refmodel.Accept {
		panic("C18: reference example of " + d.name + " is not well-formed")
	}
	var accepted []byte
	for _, f := range []byte{0x00, 0x40, 0x80, 0xc0} {
		if c18Decode(d, f, append([]byte{}, spec.Example...)).ok {
			accepted = append(accepted, f)
		}
	}
	r.specs[d.name] = spec
	if len(accepted) != 1 || accepted[0] == legal {
		return spec
	}
	aspect := map[byte]string{0x80: "flags-optional-bit", 0x40: "flags-transitive-bit", 0xc0: "flags-optional-and-transitive-bits"}[accepted[0]^legal]
	cs := c18Case{Attr: d.name, Flags: accepted[0], Value: hex.EncodeToString(spec.Example)}
	known := r.violation(aspect, "C18:"+d.name+":"+aspect, cs, func() string {
		return fmt.Sprintf("%s: the well-formed value %s is accepted only with flags %s; %s assigns %s", d.name, c18Hex(spec.Example),
			c18FlagsText(accepted[0]), spec.Source, c18FlagsText(legal))
	})
	if known {
		alt := *spec
		alt.Optional, alt.Transitive, _, _ = refmodel.FlagBits(accepted[0])
		r.specs[d.name] = &alt
	}
	return r.specs[d.name]
}

// eval runs and judges one case.
func (r *c18Run) eval(d *c18Dec, flags byte, val []byte) {
	spec := r.effective(d)
	v := refmodel.JudgeAttr(spec, flags, val)
	o := c18Decode(d, flags, val)
	key := make([]byte, 0, len(d.name)+1+len(val))
	key = append(append(append(key, d.name...), flags), val...)
	// non-trivial: well-formed, silent, or exactly one of the two fault classes present
	nontrivial := v.Class != refmodel.Reject || !v.FlagsFault || v.ValueFault == ""
	if r.sweep3 && nontrivial {
		r.nSweep3++
		nontrivial = false
	}
	r.c.Eval(key, nontrivial)
	r.classes[v.Class]++
	r.perDec[d.name]++
	if n := r.classes[v.Class]; n == 1000 || n == 100000 { // two samples of each reference class per shard
		r.c.Sample(map[string]any{"attr": d.name, "flags": flags, "value_hex": hex.EncodeToString(val), "reference": v.Class.String(),
			"faults": v.Kinds(), "decoder": o.String()})
	}
	aspect := c18Compare(v, o)
	if aspect == "" {
		return
	}
	cs := c18Case{Attr: d.name, Flags: flags, Value: hex.EncodeToString(val)}
	r.violation(aspect, "C18:"+d.name+":"+aspect, cs, func() string {
		return fmt.Sprintf("%s flags %s value %s: reference (%s): %s, faults [%s], admissible %v, value %s; decoder: %s",
			d.name, c18FlagsText(flags), c18Hex(val), spec.Source, v.Class, v.Kinds(), v.Admissible, v.Value, o)
	})
}

// accessors judges the four flag accessors on one flags octet.
func (r *c18Run) accessors(f byte) {
	p := corebgp.PathAttrFlags(f)
	got := [4]bool{p.Optional(), p.Transitive(), p.Partial(), p.ExtendedLen()}
	var want [4]bool
	want[0], want[1], want[2], want[3] = refmodel.FlagBits(f)
	r.c.Eval([]byte{'f', f}, true)
	for i, name := range []string{"optional", "transitive", "partial", "extended-length"} {
		if got[i] != want[i] {
			r.violation("flag-accessor", "C18:flags:"+name+"-accessor", c18Case{Attr: "flags", Flags: f}, func() string {
				return fmt.Sprintf("PathAttrFlags(%s): the %s accessor reports %v", c18FlagsText(f), name, got[i])
			})
		}
	}
}

// ---- enumeration ----

// Flag sets a value is crossed with. "Legal" is the Optional/Transitive pair of
// the row the decoder is judged against, all other bits zero.
const (
	c18AllFlags = iota // all 256 octets
	c18Wide            // the 16 combinations of the four defined bits x unused bits 0x0, 0x1, 0x8, 0xf (64 octets)
	c18Nibbles         // the 16 combinations of the four defined bits, and legal with all unused bits set
	c18Few             // legal, legal with Partial+ExtendedLength, Optional inverted, Transitive inverted
	c18Two             // legal, Optional inverted
	c18Legal           // legal
)

func c18Flags(set int, spec *refmodel.AttrSpec) []byte {
	l := spec.LegalFlags()
	var fs []byte
	switch set {
	case c18AllFlags:
		for f := 0; f < 256; f++ {
			fs = append(fs, byte(f))
		}
	case c18Wide:
		for f := 0; f < 256; f += 16 {
			fs = append(fs, byte(f), byte(f)|0x1, byte(f)|0x8, byte(f)|0xf)
		}
	case c18Nibbles:
		for f := 0; f < 256; f += 16 {
			fs = append(fs, byte(f))
		}
		fs = append(fs, l|0x0f)
	case c18Few:
		fs = []byte{l, l | 0x30, l ^ 0x80, l ^ 0x40}
	case c18Two:
		fs = []byte{l, l ^ 0x80}
	case c18Legal:
		fs = []byte{l}
	}
	return fs
}

// flags returns (and caches) a flag set for decoder d.
func (r *c18Run) flags(d *c18Dec, set int) []byte {
	k := c18FlagKey{d.name, set}
	if r.flagSets[k] == nil {
		r.flagSets[k] = c18Flags(set, r.effective(d))
	}
	return r.flagSets[k]
}

var c18Castagnoli = crc32.MakeTable(crc32.Castagnoli)

// cross evaluates value v under a flag set on the given decoders. Values are
// assigned to shards by content, so equal values produced by different
// generators meet in one shard and are counted as distinct cases once.
func (r *c18Run) cross(decs []c18Dec, set int, v []byte) {
	if r.expired || !r.c.Mine(int(crc32.Checksum(v, c18Castagnoli))) {
		return
	}
	if r.expired = r.c.Expired(); r.expired {
		return
	}
	val := append([]byte{}, v...)
	for i := range decs {
		d := &decs[i]
		for _, f := range r.flags(d, set) {
			r.eval(d, f, val)
		}
	}
}

// c18Fill returns n octets: pattern 0 = 0x00, 1 = 0xff, 2 = 1,2,3,... (all
// elements distinct, so that a lost or reordered element shows).
func c18Fill(n, pattern int) []byte {
	b := make([]byte, n)
	for i := range b {
		switch pattern {
		case 1:
			b[i] = 0xff
		case 2:
			b[i] = byte(i + 1)
		}
	}
	return b
}

// c18Sweep calls emit for every octet string of exactly length n.
func c18Sweep(n int, emit func([]byte)) {
	b := make([]byte, n)
	for {
		emit(b)
		i := n - 1
		for ; i >= 0; i-- {
			b[i]++
			if b[i] != 0 {
				break
			}
		}
		if i < 0 {
			return
		}
	}
}

// c18Lengths are the value lengths exercised with the three fill patterns:
// every length 0..72 (six LARGE_COMMUNITIES elements) and boundary lengths
// around multiples of 12, the one-octet length limit and up to 4096.
func c18Lengths() []int {
	var ls []int
	for n := 0; n <= 72; n++ {
		ls = append(ls, n)
	}
	return append(ls, 84, 96, 252, 255, 256, 257, 264, 1020, 1022, 1024, 4092, 4094, 4095, 4096)
}

// c18Bases returns well-sized values of a decoder around which single octets
// (and in the thorough tier pairs of octets) are varied exhaustively.
func c18Bases(spec *refmodel.AttrSpec) [][]byte {
	var bases [][]byte
	switch {
	case spec.Name == "AS_PATH":
		bases = append(bases,
			[]byte{2, 2, 0, 0, 0, 1, 0, 1, 0, 0},                                  // SEQ(1, 65536)
			[]byte{1, 1, 0, 0, 0xff, 0xff, 2, 1, 0xff, 0xff, 0xff, 0xff},          // SET(65535) SEQ(2^32-1)
			[]byte{2, 1, 0, 0, 0, 1, 1, 1, 0, 1, 0, 0, 2, 1, 0, 0, 0xff, 0xff, 1}, // SEQ SET SEQ and one octet left over
		)
	case spec.Elem > 0:
		for p := 0; p < 3; p++ {
			bases = append(bases, c18Fill(spec.Elem, p), c18Fill(2*spec.Elem, p))
		}
	case spec.Fixed > 0:
		for p := 0; p < 3; p++ {
			bases = append(bases, c18Fill(spec.Fixed, p))
		}
	}
	return bases
}

// c18OctetPairs returns the pairs of positions of a base that are varied
// together: adjacent octets and, for AS_PATH, every two segment-header octets.
func c18OctetPairs(spec *refmodel.AttrSpec, base []byte) [][2]int {
	var pairs [][2]int
	for p := 0; p+1 < len(base); p++ {
		pairs = append(pairs, [2]int{p, p + 1})
	}
	if spec.Name != "AS_PATH" {
		return pairs
	}
	var hdr []int
	for p := 0; p+1 < len(base); p += 2 + 4*int(base[p+1]) {
		hdr = append(hdr, p, p+1)
	}
	for i, p1 := range hdr {
		for _, p2 := range hdr[i+1:] {
			if p2 != p1+1 {
				pairs = append(pairs, [2]int{p1, p2})
			}
		}
	}
	return pairs
}

var c18ASNs = []uint32{1, 65535, 65536, 1<<32 - 1}

// c18Segments returns encoded AS_PATH segments: type in {0,1,2,3} x (count 0;
// count 1 with every AS number of c18ASNs; count 2 with every pair; count 255
// filled by rotating through c18ASNs from each start). The reduced alphabet
// keeps one or two AS-number choices per count.
func c18Segments(reduced bool) [][]byte {
	var segs [][]byte
	seg := func(typ byte, asns ...uint32) {
		b := []byte{typ, byte(len(asns))}
		for _, a := range asns {
			b = binary.BigEndian.AppendUint32(b, a)
		}
		segs = append(segs, b)
	}
	for typ := byte(0); typ < 4; typ++ {
		seg(typ)
		for i, a := range c18ASNs {
			if reduced && i < 2 {
				continue
			}
			seg(typ, a)
		}
		for i, a := range c18ASNs {
			for j, b := range c18ASNs {
				if reduced && !(i == 0 && j == 2) {
					continue
				}
				seg(typ, a, b)
			}
		}
		for start := range c18ASNs {
			if reduced && start > 0 {
				continue
			}
			long := make([]uint32, 255)
			for i := range long {
				long[i] = c18ASNs[(start+i)%len(c18ASNs)]
			}
			seg(typ, long...)
		}
	}
	return segs
}

// c18Trailers are appended to every segment list: a single left-over octet
// (the RFC 7606 underrun) and one AS number more than the segment count says.
var c18Trailers = [][]byte{{2}, {0xff}, {0, 0, 0, 1}, {2, 1, 0, 0}}

// c18ASPaths calls emit for every list of minSegs..maxSegs segments of the
// alphabet, for every truncation that cuts into the last segment (cuts into
// earlier segments are the truncations of the shorter lists; of a 255-AS
// segment only the cuts near its two ends), and for every trailer.
func c18ASPaths(segs [][]byte, minSegs, maxSegs int, emit func([]byte)) {
	var rec func(prefix []byte, depth int)
	rec = func(prefix []byte, depth int) {
		if depth >= minSegs {
			emit(prefix)
			for _, t := range c18Trailers {
				emit(append(prefix, t...))
			}
		}
		if depth == maxSegs {
			return
		}
		for _, s := range segs {
			enc := append(prefix, s...)
			if depth+1 >= minSegs {
				for cut := 1; cut < len(s); cut++ {
					if len(s) > 24 && cut > 9 && cut < len(s)-5 {
						continue
					}
					emit(enc[:len(prefix)+cut])
				}
			}
			rec(enc, depth+1)
		}
	}
	// one buffer for all lists: emit must not retain its argument
	rec(make([]byte, 0, 4096), 0)
}

func c18Check(c *harness.Ctx) {
	r := newC18Run(c)
	th := c.Thorough()
	for f := 0; f < 256; f++ {
		if c.Mine(f) {
			r.accessors(byte(f))
		}
	}
	all := c18Decs
	var fixed []c18Dec
	for _, d := range c18Decs {
		if refmodel.AttrByName(d.name).Fixed >= 0 {
			fixed = append(fixed, d)
		}
	}
	// 1. every value of length <= 2; thorough: of length 3 for the fixed-size attributes
	c18Sweep(0, func(v []byte) { r.cross(all, c18AllFlags, v) })
	c18Sweep(1, func(v []byte) { r.cross(all, c18AllFlags, v) })
	if th {
		c18Sweep(2, func(v []byte) { r.cross(all, c18Wide, v) })
		r.sweep3 = true
		c18Sweep(3, func(v []byte) { r.cross(fixed, c18Legal, v) })
		r.sweep3 = false
	} else {
		c18Sweep(2, func(v []byte) { r.cross(all, c18Nibbles, v) })
	}
	for i := range c18Decs {
		one := c18Decs[i : i+1]
		spec := refmodel.AttrByName(one[0].name)
		// 2. every length x fill pattern, all 256 flag octets
		for _, n := range c18Lengths() {
			for p := 0; p < 3; p++ {
				r.cross(one, c18AllFlags, c18Fill(n, p))
			}
		}
		// 3. well-sized values with one octet varied over all 256 values, all 256
		// flag octets; thorough: with pairs of octets varied over all 65536 values
		for _, base := range c18Bases(spec) {
			v := append([]byte{}, base...)
			for pos := range v {
				for x := 0; x < 256; x++ {
					v[pos] = byte(x)
					r.cross(one, c18AllFlags, v)
				}
				v[pos] = base[pos]
			}
			if !th || len(base) > 19 {
				continue
			}
			for _, p := range c18OctetPairs(spec, base) {
				for x := 0; x < 65536; x++ {
					v[p[0]], v[p[1]] = byte(x>>8), byte(x)
					r.cross(one, c18Legal, v)
				}
				v[p[0]], v[p[1]] = base[p[0]], base[p[1]]
			}
		}
	}
	// 4. AS_PATH segment lists
	aspath := c18Decs[1:2]
	full, reduced := c18Segments(false), c18Segments(true)
	c18ASPaths(full, 0, 2, func(v []byte) { r.cross(aspath, c18Few, v) })
	if th {
		c18ASPaths(full, 3, 3, func(v []byte) { r.cross(aspath, c18Two, v) })
	} else {
		c18ASPaths(reduced, 3, 3, func(v []byte) { r.cross(aspath, c18Few, v) })
	}
	// a maximal well-formed AS_PATH (4094 octets): four 255-AS segments of
	// alternating kind and one more AS; and the same with the last octet cut off
	var big []byte
	for i := 0; i < 4; i++ {
		big = append(big, byte(2-i%2), 255)
		for j := 0; j < 255; j++ {
			big = binary.BigEndian.AppendUint32(big, uint32(1000*i+j+1))
		}
	}
	big = append(big, 2, 1, 0, 1, 0, 0)
	r.cross(aspath, c18AllFlags, big)
	r.cross(aspath, c18AllFlags, big[:len(big)-1])

	c.Res.Extra["accept_class"] = float64(r.classes[refmodel.Accept])
	c.Res.Extra["reject_class"] = float64(r.classes[refmodel.Reject])
	c.Res.Extra["dont_care_class"] = float64(r.classes[refmodel.DontCare])
	c.Res.Extra["sweep3_single_fault_cases"] = float64(r.nSweep3)
	for name, n := range r.perDec {
		c.Res.Extra["cases_"+name] = float64(n)
	}
}

func init() {
	harness.Register(&harness.Check{
		Property:  "C18",
		Level:     "exploration",
		NeedsConc: false,
		QuickS:    60, ThoroughS: 600,
		Rule: "every case is one call of an exported typed path-attribute Decode method (11 decoders) on a fresh value with (flags octet, value), judged against an independent RFC table (refmodel/attrs.go). " +
			"All 256 flag octets x {all values of length <= 1; every length 0..72 and 14 boundary lengths up to 4096 x 3 fill patterns; well-sized values (one/two elements, three AS_PATHs) with each octet varied over all 256 values}; " +
			"all values of length 2 x the 16 Optional/Transitive/Partial/ExtendedLength combinations (thorough: x 4 settings of the unused bits); " +
			"AS_PATH: all lists of <= 2 segments (thorough: <= 3; quick: 3 over a reduced alphabet) with type in 0..3, count in {0,1,2,255}, AS numbers in {1,65535,65536,2^32-1}, every truncation inside the last segment, 4 left-over trailers, x 4 flag octets (thorough 3-segment lists: 2), and a 4094-octet path; " +
			"thorough adds all values of length 3 x legal flags for the 7 fixed-size attributes and all 65536 values of adjacent octet pairs (AS_PATH: also segment-header octet pairs) of the well-sized values x legal flags; " +
			"plus the 4 flag accessors on all 256 octets. distinct = distinct (decoder, flags, value); non-trivial = reference accept / dont-care, or reject with only a flags fault or only a value fault; " +
			"the length-3 sweep (single-fault cases, distinct by construction) is counted in evaluations and extra.sweep3_single_fault_cases but kept out of the distinctness set to bound its memory",
		Assume: []string{
			"each Decode call is made on a fresh zero value of the attribute type; the content left in the value by a failed decode is not judged",
			"not judged because the property does not state it: the Data field of the fallback NOTIFICATION, the Code field of the error, the Partial/ExtendedLength/unused flag bits (they never change the verdict)",
			"three-valued oracle: AS number 0 in AS_PATH/AGGREGATOR (RFC 7607) and a NEXT_HOP in 0/8, 127/8 or 224/3 (RFC 4271 6.3 host-address check) are not judged on accept/reject; if accepted the value must be exact, if rejected the approach must be the attribute's",
			"AS_PATH segment types other than 1 and 2 (incl. the RFC 5065 confederation types) must be rejected: ASPathAttr has no place for their AS numbers",
			"a decoder that accepts a well-formed value under exactly one Optional/Transitive combination other than the assigned one is reported as C18:<attr>:flags-<bit>-bit; if and only if that signature is a known finding, the decoder's cases are judged against the table row with that bit inverted, so that the other flag bit, the length/value rule, approach, subcodes and value stay judged",
		},
		Run: c18Check,
		Replay: func(c *harness.Ctx, raw json.RawMessage) {
			var rp struct {
				Case c18Case `json:"case"`
			}
			if err := json.Unmarshal(raw, &rp); err != nil {
				panic(err)
			}
			r := newC18Run(c)
			if rp.Case.Attr == "flags" {
				r.accessors(rp.Case.Flags)
				return
			}
			val, err := hex.DecodeString(rp.Case.Value)
			if err != nil {
				panic(err)
			}
			for i := range c18Decs {
				if c18Decs[i].name == rp.Case.Attr {
					r.eval(&c18Decs[i], rp.Case.Flags, val)
				}
			}
		},
	})
}
