package props

import (
	"bytes"
	"encoding/hex"
	"encoding/json"
	"fmt"
	"sort"
	"time"
	"unsafe"

	"github.com/jwhited/corebgp"

	"corebgpverif/harness"
	"corebgpverif/vrt"
	"corebgpverif/wire"
	"corebgpverif/world"
)

// C03: inbound UPDATE delivery exactly once, in order, byte-exact, under all
// segmentations of the byte stream (input enumeration on the default
// schedule) and under all schedules within a delay bound for short streams.

type c03Case struct {
	Msgs     []int `json:"msgs"` // indices into c03Alphabet
	Cuts     []int `json:"cuts,omitempty"`
	Chunk    int   `json:"chunk,omitempty"` // fixed write size (0 = use cuts)
	Coalesce bool  `json:"coalesce"`
	NotifAt  int   `json:"notif_at,omitempty"` // handler returns a notification at the j-th UPDATE (1-based), 0 = never
	Inbound  bool  `json:"inbound"`
	Fin      bool  `json:"fin_after_stream,omitempty"` // the remote half-closes right after the last byte
	// Bulk, if set, replaces Msgs by a long run: Bulk[0] messages whose body lengths cycle through Bulk[1:]
	// (-1 = KEEPALIVE); SlowHandler makes every handler call take 1 ms of virtual time.
	Bulk        []int `json:"bulk,omitempty"`
	SlowHandler bool  `json:"slow_handler,omitempty"`
	// LongHandler: the FIRST handler call takes that many milliseconds of virtual time while the
	// negotiated hold time is HoldS seconds and the remote keeps sending a KEEPALIVE every second
	// (a session that is never silent must not expire, whichever timer-channel semantics apply)
	LongHandler int  `json:"long_handler_ms,omitempty"`
	HoldS       int  `json:"hold_s,omitempty"`
	Legacy      bool `json:"legacy_timers,omitempty"`
	// Echo: the handler writes every UPDATE back with WriteUpdate (from inside the callback).
	// LHold0 / RHold0: the peer is configured WithHoldTime(0) / the remote's OPEN proposes hold time 0.
	Echo   bool   `json:"echo,omitempty"`
	LHold0 bool   `json:"local_hold_0,omitempty"`
	RHold0 bool   `json:"remote_hold_0,omitempty"`
	Note   string `json:"note,omitempty"`
}

func c03Body(n int, tag byte) []byte {
	b := make([]byte, n)
	for i := range b {
		b[i] = byte(i)*3 + tag
	}
	return b
}

// c03Alphabet: -1 = KEEPALIVE, otherwise UPDATE body length.
var c03Alphabet = []int{-1, 0, 1, 4, 23, 4077}

func c03BulkStream(bulk []int) (stream []byte, bodies [][]byte) {
	for i := 0; i < bulk[0]; i++ {
		l := bulk[1+i%(len(bulk)-1)]
		if l < 0 {
			stream = append(stream, wire.Keepalive()...)
			continue
		}
		b := make([]byte, l)
		for j := range b {
			b[j] = byte(j*5 + i)
		}
		if l >= 4 {
			b[0], b[1], b[2], b[3] = byte(i>>24), byte(i>>16), byte(i>>8), byte(i)
		}
		bodies = append(bodies, b)
		stream = append(stream, wire.Update(b)...)
	}
	return
}

func c03Stream(msgs []int) (stream []byte, bodies [][]byte, bounds []int) {
	for i, m := range msgs {
		l := c03Alphabet[m]
		if l < 0 {
			stream = append(stream, wire.Keepalive()...)
		} else {
			b := c03Body(l, byte(17*i+1))
			bodies = append(bodies, b)
			stream = append(stream, wire.Update(b)...)
		}
		bounds = append(bounds, len(stream))
	}
	return
}

var c03Notif = []byte{3, 1, 0xde, 0xad}

func c03Run(cs c03Case, ch vrt.Chooser, trace bool) (*world.World, *vrt.Exec, *world.Plugin, *world.Remote) {
	stream, bodies, _ := c03Stream(cs.Msgs)
	if len(cs.Bulk) > 1 {
		stream, bodies = c03BulkStream(cs.Bulk)
	}
	nUpd := len(bodies)
	expectDeliveries := nUpd
	if cs.NotifAt > 0 && cs.NotifAt <= nUpd {
		expectDeliveries = cs.NotifAt
	}
	var plug *world.Plugin
	var rem *world.Remote
	hold := -1
	if cs.HoldS > 0 {
		hold = cs.HoldS
	}
	if cs.LHold0 {
		hold = 0
	}
	rhold := uint16(90)
	if cs.RHold0 {
		rhold = 0
	}
	s := &Sess{LocalAS: 65001, RemoteAS: 65002, Hold: hold, Inbound: cs.Inbound, Horizon: 20 * time.Second, Legacy: cs.Legacy,
		Plugin: func(w *world.World) *world.Plugin {
			plug = &world.Plugin{W: w, Peer: "P1", Marker: true, NoYield: ch == nil}
			if cs.Echo {
				plug.Handle = func(p *world.Plugin, s, n int, b []byte) *corebgp.Notification {
					if err := p.Writers[s-1].WriteUpdate(append([]byte("ECHO"), b...)[:min(len(b)+4, 4077)]); err != nil {
						p.W.Note("echo-error", err.Error())
					}
					return nil
				}
			}
			if cs.LongHandler > 0 {
				plug.Handle = func(p *world.Plugin, s, n int, b []byte) *corebgp.Notification {
					if n == 1 {
						vrt.Sleep(time.Duration(cs.LongHandler) * time.Millisecond)
					}
					return nil
				}
			}
			if cs.SlowHandler {
				plug.Handle = func(p *world.Plugin, s, n int, b []byte) *corebgp.Notification {
					vrt.Sleep(time.Millisecond)
					return nil
				}
			}
			if cs.NotifAt > 0 {
				plug.Handle = func(p *world.Plugin, s, n int, b []byte) *corebgp.Notification {
					if n == cs.NotifAt {
						return &corebgp.Notification{Code: c03Notif[0], Subcode: c03Notif[1], Data: append([]byte(nil), c03Notif[2:]...)}
					}
					return nil
				}
			}
			return plug
		},
		Script: func(w *world.World, r *world.Remote) {
			rem = r
			w.NW.Coalesce = cs.Coalesce
			if !reach(r, stEstablished, 65002, rhold) {
				return
			}
			if cs.LongHandler > 0 {
				vrt.GoWorld("remote-ka", func() {
					for i := 0; i < 12; i++ {
						vrt.Sleep(time.Second)
						if r.C.IsClosed() || r.C.IsReset() || r.C.PeerClosed() {
							return
						}
						r.C.Write(wire.Keepalive())
					}
				})
			}
			switch {
			case cs.Chunk > 0:
				r.Send(stream, cs.Chunk)
			default:
				prev := 0
				for _, c := range cs.Cuts {
					if c > prev && c < len(stream) {
						r.Send(stream[prev:c])
						prev = c
					}
				}
				r.Send(stream[prev:])
			}
			if cs.Fin {
				// everything sent before the FIN must still be delivered
				r.C.CloseWrite()
			}
			// wait until everything expected was delivered (bounded)
			wait := 5*time.Second + time.Duration(cs.LongHandler)*time.Millisecond
			vrt.NewTimer(wait)
			deadline := vrt.Cur().Now() + int64(wait)
			vrt.WaitLog("deliveries", func() bool {
				return vrt.Cur().Now() >= deadline || w.Count("Handler", "exit", "P1") >= expectDeliveries
			})
			vrt.LogTouch()
			if cs.Fin || cs.NotifAt > 0 && cs.NotifAt <= nUpd {
				r.Deadline(5 * time.Second)
				r.Drain()
			}
		}}
	w, e := s.Run(ch, trace)
	return w, e, plug, rem
}

func c03Judge(cs c03Case, w *world.World, e *vrt.Exec, plug *world.Plugin, rem *world.Remote) (string, string) {
	_, bodies, _ := c03Stream(cs.Msgs)
	if len(cs.Bulk) > 1 {
		_, bodies = c03BulkStream(cs.Bulk)
	}
	if rem == nil || plug == nil {
		return "no-connection", "the scripted connection never happened"
	}
	if rem.FrameErr != nil {
		return "malformed-output", "corebgp wrote a malformed message: " + rem.FrameErr.Error()
	}
	want := bodies
	if cs.NotifAt > 0 && cs.NotifAt <= len(bodies) {
		want = bodies[:cs.NotifAt]
	}
	got := plug.Delivered
	for i := 0; i < len(got) && i < len(want); i++ {
		if !bytes.Equal(got[i].Copy, want[i]) {
			return "delivery-differs", fmt.Sprintf("delivery %d: handler got %d bytes %x.., remote sent %d bytes %x..", i+1, len(got[i].Copy), trunc(got[i].Copy), len(want[i]), trunc(want[i]))
		}
	}
	if len(got) < len(want) {
		return "update-lost", fmt.Sprintf("%d UPDATEs sent, %d delivered", len(want), len(got))
	}
	if len(got) > len(want) {
		if cs.NotifAt > 0 {
			return "delivery-after-handler-notification", fmt.Sprintf("%d deliveries although the handler returned a notification at UPDATE %d", len(got), cs.NotifAt)
		}
		return "update-duplicated", fmt.Sprintf("%d UPDATEs sent, %d delivered", len(want), len(got))
	}
	// delivered slices are not modified afterwards and do not alias
	type rng struct {
		lo, hi uintptr
		i      int
	}
	var rs []rng
	for i, d := range got {
		if !bytes.Equal(d.Slice, d.Copy) {
			return "delivered-slice-modified", fmt.Sprintf("the slice of delivery %d was modified after the handler returned (now %x.., was %x..)", i+1, trunc(d.Slice), trunc(d.Copy))
		}
		if len(d.Slice) > 0 {
			lo := uintptr(unsafe.Pointer(&d.Slice[0]))
			rs = append(rs, rng{lo, lo + uintptr(len(d.Slice)), i})
		}
	}
	sort.Slice(rs, func(a, b int) bool { return rs[a].lo < rs[b].lo })
	for i := 1; i < len(rs); i++ {
		if rs[i].lo < rs[i-1].hi {
			return "delivered-slices-alias", fmt.Sprintf("the slices of deliveries %d and %d share memory", rs[i-1].i+1, rs[i].i+1)
		}
	}
	if cs.NotifAt > 0 && cs.NotifAt <= len(bodies) {
		var notifs []wire.Msg
		for _, m := range rem.Rx {
			if m.Type == wire.TypeNotification {
				notifs = append(notifs, m)
			}
		}
		if len(notifs) != 1 || !bytes.Equal(notifs[0].Body, c03Notif) {
			return "handler-notification-not-verbatim", fmt.Sprintf("handler returned %x, the wire carried %v", c03Notif, notifs)
		}
		if !rem.EOF {
			return "no-close", "connection not closed after the handler's notification"
		}
		if w.Count("OnClose", "exit", "P1") != 1 {
			return "onclose-count", "OnClose did not fire after the handler's notification"
		}
	} else {
		for _, m := range rem.Rx {
			if m.Type == wire.TypeNotification {
				if c, _, _ := m.Notif(); c != 6 {
					return "unexpected-notification", fmt.Sprintf("well-formed stream answered with %s", m)
				}
			}
		}
	}
	return monitorCallbacks(w)
}

func c03CutPositions(msgs []int, dense bool) []int {
	stream, _, bounds := c03Stream(msgs)
	set := map[int]bool{}
	n := 24
	if dense {
		n = 40
	}
	for i := 1; i <= n && i < len(stream); i++ {
		set[i] = true
	}
	for _, b := range bounds {
		for _, d := range []int{-20, -19, -18, -2, -1, 0, 1, 2, 18, 19, 20} {
			if p := b + d; p > 0 && p < len(stream) {
				set[p] = true
			}
		}
	}
	if len(stream) > 1 {
		set[len(stream)-1] = true
	}
	var out []int
	for p := range set {
		out = append(out, p)
	}
	sort.Ints(out)
	return out
}

func c03Streams(maxLen int) [][]int {
	res := [][]int{}
	frontier := [][]int{{}}
	for d := 0; d < maxLen; d++ {
		var next [][]int
		for _, f := range frontier {
			for a := range c03Alphabet {
				next = append(next, append(append([]int{}, f...), a))
			}
		}
		res = append(res, next...)
		frontier = next
	}
	return res
}

func c03Eval(c *harness.Ctx, cs c03Case) {
	w, e, plug, rem := c03Run(cs, nil, false)
	rule, msg := basicVerdict(e)
	if rule == "" {
		rule, msg = c03Judge(cs, w, e, plug, rem)
	}
	if rule != "" {
		c.Violation(rule, "C03:input:"+rule, msg, map[string]any{"case": cs, "log": logText(w)})
	}
	e.Finish()
}

func c03Check(c *harness.Ctx) {
	th := c.Thorough()
	maxLen := 3
	if th {
		maxLen = 4
	}
	idx := 0
	run := func(cs c03Case) bool {
		idx++
		if !c.Mine(idx) {
			return true
		}
		if c.Expired() {
			return false
		}
		b, _ := json.Marshal(cs)
		c.Eval(b, true)
		if idx%30011 == 1 {
			c.Sample(cs)
		}
		c03Eval(c, cs)
		return true
	}
	for si, msgs := range c03Streams(maxLen) {
		big := 0
		for _, m := range msgs {
			if c03Alphabet[m] > 1000 {
				big++
			}
		}
		// fixed chunk sizes incl. 1-byte writes (1-byte writes only for streams without two 4 KiB bodies in quick)
		for _, ch := range []int{1, 2, 3, 5, 7, 18, 19, 20, 4096} {
			if ch == 1 && big > 1 && !th {
				continue
			}
			for _, co := range []bool{false, true} {
				if !run(c03Case{Msgs: msgs, Chunk: ch, Coalesce: co, Inbound: (si+ch)%2 == 0}) {
					return
				}
			}
		}
		// all partitions with <= 2 cut points (streams of <= 2 messages; 3+ messages: 1 cut point, and 2 in thorough for streams without 4 KiB bodies)
		cuts := c03CutPositions(msgs, th)
		two := len(msgs) <= 2 || (th && big == 0)
		for i, a := range cuts {
			if !run(c03Case{Msgs: msgs, Cuts: []int{a}, Coalesce: i%2 == 0, Inbound: (si+i)%2 == 0}) {
				return
			}
			if !two {
				continue
			}
			for j := i + 1; j < len(cuts); j++ {
				if !run(c03Case{Msgs: msgs, Cuts: []int{a, cuts[j]}, Coalesce: (i+j)%2 == 0, Inbound: (si+j)%2 == 0}) {
					return
				}
			}
		}
		// the stream is immediately followed by FIN: nothing that was sent may be lost
		for _, ch := range []int{0, 1, 19, 4096} {
			if ch == 1 && big > 0 {
				continue
			}
			for _, co := range []bool{false, true} {
				if !run(c03Case{Msgs: msgs, Chunk: ch, Coalesce: co, Fin: true, Inbound: (si+ch)%2 == 0}) {
					return
				}
			}
		}
		// handler notification at the j-th UPDATE
		for j := 1; j <= 3; j++ {
			for _, ch := range []int{0, 1, 19} {
				if ch == 1 && big > 0 {
					continue
				}
				if !run(c03Case{Msgs: msgs, Chunk: ch, NotifAt: j, Inbound: (si+j)%2 == 0}) {
					return
				}
			}
		}
	}
	// long runs: more bytes than any plausible receive buffer in one write, and more messages than any
	// plausible batch, with instant and with slow handlers
	for _, bulk := range [][]int{{12, 4077}, {40, 23}, {100, 23}, {300, 0, 1, 23}, {24, 4077, 23, 1000}, {64, 1000, -1, 4077}, {200, 4, -1}, {16, 4077, 4077, 0}} {
		for _, chunk := range []int{0, 4096, 1460} {
			for _, slow := range []bool{false, true} {
				if !run(c03Case{Bulk: bulk, Chunk: chunk, Coalesce: true, SlowHandler: slow, Inbound: slow}) {
					return
				}
			}
		}
	}
	// WriteUpdate from inside the handler, also in sessions without timers (hold time 0 on either side)
	for si, msgs := range c03Streams(3) {
		for _, h := range [][2]bool{{false, false}, {true, false}, {false, true}} {
			if !run(c03Case{Msgs: msgs, Chunk: []int{0, 7, 19}[si%3], Echo: true, LHold0: h[0], RHold0: h[1], Inbound: si%2 == 0}) {
				return
			}
		}
	}
	// a handler call that outlasts the hold time while the remote is never silent
	for _, bulk := range [][]int{{20, 23}, {3, 4077, -1, 0}} {
		for _, legacy := range []bool{true, false} {
			for _, hs := range [][2]int{{3, 3400}, {3, 3000}, {3, 2999}, {4, 9000}} {
				if !run(c03Case{Bulk: bulk, Coalesce: true, LongHandler: hs[1], HoldS: hs[0], Legacy: legacy, Inbound: legacy}) {
					return
				}
			}
		}
	}
	// two sessions receiving at once, headers split by the segmentation
	for i, cut := range twoPeersRxCuts {
		if !c.Mine(i) {
			continue
		}
		b := 2
		if th {
			b = 3
		}
		if !exploreScn(c, "C03", twoPeersRxScn("C03", cut, b)) {
			return
		}
	}
	// schedule exploration on short streams (reader vs FSM vs handler timing)
	bound := 1
	if th {
		bound = 2
	}
	k := 0
	for _, msgs := range c03Streams(2) {
		skip := false
		for _, m := range msgs {
			if c03Alphabet[m] > 1000 {
				skip = true // 4 KiB bodies add nothing to the schedule dimension
			}
		}
		if skip {
			continue
		}
		for _, cs := range []c03Case{{Msgs: msgs, Chunk: 0}, {Msgs: msgs, Chunk: 7}, {Msgs: msgs, Chunk: 0, NotifAt: 1}, {Msgs: msgs, Chunk: 19, Inbound: true}, {Msgs: msgs, Chunk: 0, Fin: true}} {
			k++
			if !c.Mine(k) {
				continue
			}
			if c.Expired() {
				return
			}
			if !exploreScn(c, "C03", c03Scn(cs, bound)) {
				return
			}
		}
	}
}

func c03Scn(cs c03Case, bound int) *Scn {
	b, _ := json.Marshal(cs)
	return &Scn{Name: "schedule/" + hex.EncodeToString(b), Bound: bound, Run: func(ch vrt.Chooser, trace bool) *ScnResult {
		if ch == nil {
			ch = &vrt.ReplayChooser{}
		}
		w, e, plug, rem := c03Run(cs, ch, trace)
		return finishRun("C03", "schedule", w, e, trace, false, func() (string, string) { return c03Judge(cs, w, e, plug, rem) }, nil)
	}}
}

func init() {
	harness.Register(&harness.Check{
		Property: "C03", Level: "exploration", NeedsConc: true, QuickS: 200, ThoroughS: 1200,
		Rule:   "all message sequences of length <=3 (quick) / <=4 (thorough) over {KEEPALIVE, UPDATE with body 0,1,4,23,4077 bytes} x segmentations of the byte stream: fixed write sizes {1,2,3,5,7,18,19,20,4096}, every partition with <=2 cut points taken from {first 24/40 bytes, every message boundary +-{0,1,2,18,19,20}, last byte}, with and without read coalescing, both directions; handler returning a NOTIFICATION at the j-th UPDATE; each case is one run of the real FSM over the virtual wire; in addition all schedules within the delay bound (1 quick / 2 thorough) of reader, FSM and handler for the streams of <=2 small messages; plus the stream followed directly by FIN, bulk runs of 12-300 messages (body lengths cycling through 0..4077, KEEPALIVEs interleaved), a handler that takes virtual time while further messages arrive, a handler that echoes every UPDATE with WriteUpdate (also with hold time 0 on either side), and two peers receiving split-header streams at the same instant under all schedules within delay bound 2 / 3; all cases non-trivial and distinct",
		Assume: []string{"virtual network (A3): a Read returns the bytes of one write (or of all pending writes with coalescing)", "handlers return in zero time"},
		Run:    c03Check,
		Replay: func(c *harness.Ctx, raw json.RawMessage) {
			var r struct {
				Case     *c03Case `json:"case"`
				Scenario string   `json:"scenario"`
				Choices  []int    `json:"choices"`
			}
			if err := json.Unmarshal(raw, &r); err != nil {
				panic(err)
			}
			if r.Case != nil {
				c03Eval(c, *r.Case)
				return
			}
			scnReplay("C03", func(name string) *Scn {
				var cut int
				if n, _ := fmt.Sscanf(name, "two-peers-rx/cut%d", &cut); n == 1 {
					return twoPeersRxScn("C03", cut, 3)
				}
				b, err := hex.DecodeString(name[len("schedule/"):])
				if err != nil {
					return nil
				}
				var cs c03Case
				if json.Unmarshal(b, &cs) != nil {
					return nil
				}
				return c03Scn(cs, 3)
			})(c, raw)
		},
	})
}
