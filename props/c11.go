package props

import (
	"encoding/json"
	"fmt"
	"net"
	"strings"
	"time"

	"github.com/jwhited/corebgp"

	"corebgpverif/harness"
	"corebgpverif/vnet"
	"corebgpverif/vrt"
	"corebgpverif/wire"
	"corebgpverif/world"
)

// C11: reconnection liveness and retry pacing after non-damping faults, over
// all fault histories up to a length, in virtual time.

var c11Faults = []string{"refuse", "stall", "fin@0", "fin@1", "fin@2", "rst@0", "rst@1", "rst@2", "cease@0", "cease@1", "cease@2", "inbound-fin", "rst@9", "fin@9",
	// beyond the alphabet of the history enumeration (c11Alphabet symbols): a Cease with every subcode
	"cease.0@2", "cease.1@2", "cease.2@2", "cease.3@2", "cease.5@2", "cease.6@2", "cease.7@2", "cease.8@2", "cease.9@2", "cease.10@2", "cease.255@2",
	"cease.0@0", "cease.1@0", "cease.8@0", "cease.1@1", "cease.8@1", "cease.255@1"}

// c11Alphabet: the faults the histories are enumerated over.
const c11Alphabet = 14

type c11Case struct {
	History  []int `json:"history"` // indices into c11Faults
	IdleHold int   `json:"idle_hold_s"`
	Retry    int   `json:"connect_retry_s"`
	Passive  bool  `json:"passive"`
	Legacy   bool  `json:"legacy_timers"`
}

func (cs c11Case) names() []string {
	var n []string
	for _, h := range cs.History {
		n = append(n, c11Faults[h])
	}
	return n
}

type c11Obs struct {
	lastFaultT  int64
	faultsDone  int
	stallCancel []int64 // times at which a stalled dial was seen cancelled
	inboundEnd  []int64 // times at which an inbound session was ended by the remote
	goodConn    bool
}

// c11Fault applies fault f on connection r (already accepted/dialled).
func c11Apply(w *world.World, r *world.Remote, f string, o *c11Obs) {
	st := int(f[len(f)-1] - '0')
	kind := f[:strings.IndexByte(f, '@')]
	ok := true
	switch st {
	case 9:
		// at accept: the remote does not wait for corebgp's OPEN (the fault may land before, while or after it is written)
	case 0:
		// connected, corebgp is in OpenSent; read its OPEN first so the fault hits that state
		_, ok = r.Expect(wire.TypeOpen)
	case 1:
		ok = reach(r, stOpenConfirm, 65002, 90)
	case 2:
		ok = reach(r, stEstablished, 65002, 90)
	}
	_ = ok
	switch kind {
	case "fin":
		r.C.Close()
	case "rst":
		r.C.Reset()
	case "cease":
		r.Send(wire.Notification(6, 4, nil))
		r.Deadline(2 * time.Second)
		r.Drain()
	default:
		// "cease.<subcode>"
		sub := 4
		fmt.Sscanf(kind, "cease.%d", &sub)
		r.Send(wire.Notification(6, byte(sub), nil))
		r.Deadline(2 * time.Second)
		r.Drain()
	}
	o.lastFaultT = vrt.Cur().Now()
	o.faultsDone++
}

func c11Good(w *world.World, r *world.Remote, o *c11Obs) {
	o.goodConn = true
	if !reach(r, stEstablished, 65002, 90) {
		return
	}
	r.Deadline(0)
	r.Drain()
}

func c11Run(cs c11Case, ch vrt.Chooser, trace bool) (*world.World, *vrt.Exec, *c11Obs) {
	var w *world.World
	o := &c11Obs{}
	idle := time.Duration(cs.IdleHold) * time.Second
	retry := time.Duration(cs.Retry) * time.Second
	span := time.Duration(len(cs.History)+2)*(idle+retry+3*time.Second) + 10*time.Second
	e := vrt.Run(vrt.Config{Horizon: int64(span + 30*time.Second), LegacyTimers: cs.Legacy, Trace: trace, Chooser: ch}, func() {
		w = world.New(libIP)
		w.NewServer(libIP)
		pl := &world.Plugin{W: w, Peer: "P1", Marker: true, NoYield: ch == nil}
		opts := []corebgp.PeerOption{corebgp.WithDialerControl(w.DialControl("P1")), corebgp.WithIdleHoldTime(idle), corebgp.WithConnectRetryTime(retry)}
		inboundSession := func(port int, good bool, fault string) {
			vrt.GoWorld(fmt.Sprintf("remote-in%d", port), func() {
				c, err := w.NW.DialIn(fmt.Sprintf("10.0.0.2:%d", port), libAddr)
				if err != nil {
					return
				}
				r := w.NewRemote(c, "P1")
				defer r.Finish()
				switch {
				case good:
					c11Good(w, r, o)
				case fault == "inbound-fin":
					if reach(r, stEstablished, 65002, 90) {
						vrt.Sleep(time.Second)
					}
					r.C.Close()
					o.lastFaultT = vrt.Cur().Now()
					o.inboundEnd = append(o.inboundEnd, o.lastFaultT)
					o.faultsDone++
				default:
					c11Apply(w, r, fault, o)
				}
			})
		}
		consumed := 0 // history elements handed out so far
		inboundActive := false
		if cs.Passive {
			opts = append(opts, corebgp.WithPassive())
		} else {
			w.NW.OnDial(remAddr, func(att int, from *net.TCPAddr) vnet.DialOutcome {
				if inboundActive || (consumed < len(cs.History) && c11Faults[cs.History[consumed]] == "inbound-fin") {
					// the remote is busy with its own inbound session: refuse, consuming nothing
					return vnet.DialOutcome{Kind: vnet.DialRefuse}
				}
				if consumed >= len(cs.History) {
					return vnet.DialOutcome{Kind: vnet.DialAccept, Serve: func(c *vnet.Conn) {
						r := w.NewRemote(c, "P1")
						c11Good(w, r, o)
						r.Finish()
					}}
				}
				f := c11Faults[cs.History[consumed]]
				consumed++
				switch f {
				case "refuse":
					o.lastFaultT = vrt.Cur().Now()
					o.faultsDone++
					w.Note("fault-done", f)
					return vnet.DialOutcome{Kind: vnet.DialRefuse}
				case "stall":
					// the fault ends when corebgp gives up (connect-retry)
					o.stallCancel = append(o.stallCancel, vrt.Cur().Now()+int64(retry))
					o.lastFaultT = vrt.Cur().Now() + int64(retry)
					return vnet.DialOutcome{Kind: vnet.DialStall, OnCancel: func() {
						o.faultsDone++
						w.Note("fault-done", f)
					}}
				}
				return vnet.DialOutcome{Kind: vnet.DialAccept, Serve: func(c *vnet.Conn) {
					r := w.NewRemote(c, "P1")
					c11Apply(w, r, f, o)
					w.Note("fault-done", f)
					r.Finish()
				}}
			})
		}
		startDrivers := func() {
			if cs.Passive {
				return
			}
			// inbound elements: the remote connects in once everything before is over
			for i, h := range cs.History {
				if c11Faults[h] != "inbound-fin" {
					continue
				}
				i := i
				vrt.GoWorld(fmt.Sprintf("inbound-driver%d", i), func() {
					vrt.WaitLog("previous-faults-done", func() bool { return o.faultsDone >= i && consumed == i })
					vrt.LogTouch()
					consumed++
					inboundActive = true
					if i > 0 {
						// leave corebgp two seconds to show its reaction to the previous fault
						vrt.Sleep(2 * time.Second)
					}
					w.Note("inbound-start", "")
					c, err := w.NW.DialIn(fmt.Sprintf("10.0.0.2:%d", 41000+i), libAddr)
					if err != nil {
						return
					}
					r := w.NewRemote(c, "P1")
					if reach(r, stEstablished, 65002, 90) {
						vrt.Sleep(time.Second)
					}
					inboundActive = false
					r.C.Close()
					o.lastFaultT = vrt.Cur().Now()
					o.inboundEnd = append(o.inboundEnd, o.lastFaultT)
					o.faultsDone++
					w.Note("fault-done", "inbound-fin")
					r.Finish()
				})
			}
		}
		if err := w.Server.AddPeer(peerConfig(remIP, 65001, 65002), pl, opts...); err != nil {
			panic("harness: " + err.Error())
		}
		w.Serve(libAddr)
		startDrivers()
		if cs.Passive {
			// the remote drives: one inbound connection per history element, then a good one
			for i, h := range cs.History {
				f := c11Faults[h]
				if f == "refuse" || f == "stall" {
					continue // no inbound equivalent
				}
				n := o.faultsDone
				inboundSession(42000+i, false, f)
				vrt.NewTimer(5 * time.Second)
				dl := vrt.Cur().Now() + int64(5*time.Second)
				vrt.WaitLog("fault-done", func() bool { return o.faultsDone > n || vrt.Cur().Now() >= dl })
				vrt.LogTouch()
				vrt.Sleep(time.Second)
			}
			o.lastFaultT = vrt.Cur().Now()
			inboundSession(43000, true, "")
		}
		vrt.Sleep(span)
		w.Close()
		w.WaitServeDone()
	})
	return w, e, o
}

func c11Judge(cs c11Case, w *world.World, e *vrt.Exec, o *c11Obs) (string, string) {
	idle := int64(cs.IdleHold) * int64(time.Second)
	retry := int64(cs.Retry) * int64(time.Second)
	var dials []int64
	for _, ev := range w.Log {
		if ev.Kind == "dial" {
			dials = append(dials, ev.T)
		}
	}
	if cs.Passive {
		if len(dials) > 0 {
			return "passive-peer-dialled", fmt.Sprintf("a passive peer made %d dial attempts (first at t=%s)", len(dials), time.Duration(dials[0]))
		}
	}
	// sessions expected before the final one
	wantEst := 1
	for _, h := range cs.History {
		f := c11Faults[h]
		if cs.Passive && (f == "refuse" || f == "stall") {
			continue
		}
		if strings.HasSuffix(f, "@2") || f == "inbound-fin" {
			wantEst++
		}
	}
	var ests []int64
	for _, ev := range w.Log {
		if ev.Kind == "OnEstablished" && ev.Phase == "enter" {
			ests = append(ests, ev.T)
		}
	}
	bound := idle + retry + int64(time.Second)
	if len(ests) < wantEst {
		return "not-reestablished", fmt.Sprintf("history %v: %d sessions expected, %d established (last fault at t=%s, dials at %v)", cs.names(), wantEst, len(ests), time.Duration(o.lastFaultT), durs(dials))
	}
	final := ests[wantEst-1]
	if final > o.lastFaultT+bound {
		return "slow-reestablishment", fmt.Sprintf("history %v: last fault at t=%s, session established at t=%s, later than idle-hold + connect-retry + 1 s = %s", cs.names(), time.Duration(o.lastFaultT), time.Duration(final), time.Duration(bound))
	}
	if len(ests) > wantEst {
		return "unexpected-session", fmt.Sprintf("history %v: %d sessions established, %d expected", cs.names(), len(ests), wantEst)
	}
	if !cs.Passive {
		// pacing: while every attempt from the start is refused, attempts are spaced by the idle-hold time
		nRef := 0
		for _, h := range cs.History {
			if c11Faults[h] != "refuse" {
				break
			}
			nRef++
		}
		last := nRef - 1 // dial attempts 0..nRef-1 met a refusal; the next one is only comparable if nothing else intervened
		if nRef == len(cs.History) {
			last = nRef
		}
		for i := 1; i <= last && i < len(dials); i++ {
			if gap := dials[i] - dials[i-1]; gap != idle {
				return "retry-pacing", fmt.Sprintf("history %v: dial attempts %d and %d are %s apart, idle-hold time is %s", cs.names(), i, i+1, time.Duration(gap), time.Duration(idle))
			}
		}
		// a stalled attempt is abandoned at connect-retry and a new dial starts at that instant
		for _, t := range o.stallCancel {
			found := false
			for _, d := range dials {
				if d == t {
					found = true
				}
			}
			if !found {
				return "stalled-dial-not-retried", fmt.Sprintf("history %v: a stalled connect should be abandoned and redialled at t=%s; dials at %v", cs.names(), time.Duration(t), durs(dials))
			}
		}
		// after an inbound session ended the peer resumes dialling at once
		for _, t := range o.inboundEnd {
			found := false
			for _, d := range dials {
				if d >= t && d <= t+int64(time.Second) {
					found = true
				}
			}
			if !found {
				return "no-redial-after-inbound", fmt.Sprintf("history %v: inbound session ended at t=%s, no dial within 1 s; dials at %v", cs.names(), time.Duration(t), durs(dials))
			}
		}
		// never back-to-back busy redialling: no two dials at the same instant
		for i := 1; i < len(dials); i++ {
			if dials[i] == dials[i-1] && idle > 0 {
				// legitimate only right after an inbound session ended or a stall was abandoned
				ok := false
				for _, t := range append(append([]int64{}, o.inboundEnd...), o.stallCancel...) {
					if t == dials[i] {
						ok = true
					}
				}
				if !ok && allRefused(cs) {
					return "busy-redial", fmt.Sprintf("history %v: two dial attempts at the same instant t=%s", cs.names(), time.Duration(dials[i]))
				}
			}
		}
	}
	return monitorCallbacks(w)
}

func allRefused(cs c11Case) bool {
	for _, h := range cs.History {
		if c11Faults[h] != "refuse" {
			return false
		}
	}
	return true
}

func durs(ts []int64) []string {
	var r []string
	for _, t := range ts {
		r = append(r, time.Duration(t).String())
	}
	return r
}

func c11Histories(maxLen int) [][]int {
	res := [][]int{{}}
	frontier := [][]int{{}}
	for d := 0; d < maxLen; d++ {
		var next [][]int
		for _, f := range frontier {
			for a := 0; a < c11Alphabet; a++ {
				next = append(next, append(append([]int{}, f...), a))
			}
		}
		res = append(res, next...)
		frontier = next
	}
	return res
}

func c11Eval(c *harness.Ctx, cs c11Case) {
	w, e, o := c11Run(cs, nil, false)
	rule, msg := basicVerdict(e)
	if rule == "" {
		rule, msg = c11Judge(cs, w, e, o)
	}
	if rule != "" {
		c.Violation(rule, "C11:history:"+rule, msg, map[string]any{"case": cs, "faults": cs.names(), "log": logText(w)})
	}
	e.Finish()
}

func c11Check(c *harness.Ctx) {
	th := c.Thorough()
	maxLen := 3
	if th {
		maxLen = 4
	}
	timers := [][2]int{{5, 5}, {1, 3}, {10, 2}}
	idx := 0
	for hi, h := range c11Histories(maxLen) {
		for ti, tm := range timers {
			for _, passive := range []bool{false, true} {
				for _, legacy := range []bool{false, true} {
					if !th && (legacy != ((hi+ti)%2 == 0)) {
						continue // quick: alternate the timer semantics over the enumeration
					}
					if passive && len(h) > 3 {
						continue
					}
					idx++
					if !c.Mine(idx) {
						continue
					}
					if c.Expired() {
						return
					}
					cs := c11Case{History: h, IdleHold: tm[0], Retry: tm[1], Passive: passive, Legacy: legacy}
					b, _ := json.Marshal(cs)
					c.Eval(b, true)
					if idx%2003 == 1 {
						c.Sample(map[string]any{"case": cs, "faults": cs.names()})
					}
					c11Eval(c, cs)
				}
			}
		}
	}
	// a received Cease never stops the peer from trying, whatever its subcode: alone, twice, and after a refusal
	for a := c11Alphabet; a < len(c11Faults); a++ {
		for _, h := range [][]int{{a}, {a, a}, {0, a}} {
			for _, passive := range []bool{false, true} {
				idx++
				if !c.Mine(idx) {
					continue
				}
				if c.Expired() {
					return
				}
				if passive && h[0] == 0 {
					continue
				}
				cs := c11Case{History: h, IdleHold: 1, Retry: 3, Passive: passive, Legacy: idx%2 == 0}
				b, _ := json.Marshal(cs)
				c.Eval(b, true)
				c11Eval(c, cs)
			}
		}
	}
	if th {
		for _, h := range c11Histories(5) {
			if len(h) != 5 {
				continue
			}
			idx++
			if !c.Mine(idx) {
				continue
			}
			if c.Expired() {
				return
			}
			cs := c11Case{History: h, IdleHold: 5, Retry: 5, Legacy: idx%2 == 0}
			b, _ := json.Marshal(cs)
			c.Eval(b, true)
			c11Eval(c, cs)
		}
	}
	bound := 1
	if th {
		bound = 2
	}
	k := 0
	for _, h := range c11Histories(2) {
		k++
		if !c.Mine(k) {
			continue
		}
		if c.Expired() {
			return
		}
		if !exploreScn(c, "C11", c11Scn(c11Case{History: h, IdleHold: 5, Retry: 5}, bound)) {
			return
		}
	}
}

func c11Scn(cs c11Case, bound int) *Scn {
	b, _ := json.Marshal(cs)
	return &Scn{Name: "schedule/" + string(b), Bound: bound, Run: func(ch vrt.Chooser, trace bool) *ScnResult {
		if ch == nil {
			ch = &vrt.ReplayChooser{}
		}
		w, e, o := c11Run(cs, ch, trace)
		return finishRun("C11", "schedule", w, e, trace, false, func() (string, string) { return c11Judge(cs, w, e, o) }, nil)
	}}
}

func init() {
	harness.Register(&harness.Check{
		Property: "C11", Level: "fault_enumeration", NeedsConc: true, QuickS: 200, ThoroughS: 1500,
		Rule:   "all fault histories of length <=3 (quick) / <=4 (thorough) over the 12-symbol alphabet {refuse, stalled connect, FIN / RST / Cease at remote-view states 0 (connected), 1 (OPEN exchanged), 2 (Established), inbound session then FIN} x (idle-hold, connect-retry) in {(5,5),(1,3),(10,2)} x {active, passive} x both timer semantics, each followed by a well-behaved remote and run in virtual time on the real FSM; dial attempts are observed through WithDialerControl; plus all schedules within the delay bound (1 quick / 2 thorough) for the histories of length <=2; faults also at the accept instant and in the middle of the OPEN (RST/FIN after 9 octets); a run that never lets virtual time advance is a livelock verdict; all cases non-trivial and distinct",
		Assume: []string{"virtual clock; zero-time computation (A4)", "default schedule for the history enumeration"},
		Run:    c11Check,
		Replay: func(c *harness.Ctx, raw json.RawMessage) {
			var r struct {
				Case     *c11Case `json:"case"`
				Scenario string   `json:"scenario"`
			}
			if err := json.Unmarshal(raw, &r); err != nil {
				panic(err)
			}
			if r.Case != nil {
				c11Eval(c, *r.Case)
				return
			}
			scnReplay("C11", func(name string) *Scn {
				var cs c11Case
				if json.Unmarshal([]byte(name[len("schedule/"):]), &cs) != nil {
					return nil
				}
				return c11Scn(cs, 3)
			})(c, raw)
		},
	})
}
