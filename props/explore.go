package props

import (
	"encoding/json"
	"fmt"
	"hash/fnv"
	"os"
	"strings"
	"time"

	"github.com/jwhited/corebgp"

	"corebgpverif/harness"
	"corebgpverif/vnet"
	"corebgpverif/vrt"
	"corebgpverif/world"
)

// Scn is one schedule-exploration scenario.
type Scn struct {
	Name  string
	Bound int
	// Unbounded asks for the unbounded (all interleavings) search with a private
	// time cap; it is a bonus on top of the bounded result: not finishing it does
	// not make the check non-exhaustive.
	Unbounded    bool
	UnboundedCap time.Duration
	// NoCache switches the happens-before cache off: every schedule within the bound is run to its end and
	// judged. For scenarios whose point is data handed between goroutines through memory the race detector
	// does not instrument (slice elements): two schedules with the same happens-before relation can then
	// differ in what they put on the wire.
	NoCache bool
	// Run executes the scenario once on a fresh world and judges it.
	Run func(ch vrt.Chooser, trace bool) *ScnResult
}

// legacyTwin runs the same scenario under the legacy timer-channel semantics (a tick that was
// already delivered to the channel survives Stop/Reset). corebgp's go.mod says go 1.21, so which
// semantics a user gets depends on the go line of the program that imports it: both must hold.
func legacyTwin(s *Scn) *Scn {
	t := *s
	t.Name = s.Name + "@legacy"
	t.Run = func(ch vrt.Chooser, trace bool) *ScnResult {
		vrt.LegacyOverride = true
		defer func() { vrt.LegacyOverride = false }()
		return s.Run(ch, trace)
	}
	return &t
}

// slowTwin runs the same scenario with the n-th invocation of one plugin callback kind taking d of
// virtual time (world.SlowCallback).
func slowTwin(s *Scn, kind string, n int, d time.Duration) *Scn {
	t := *s
	t.Name = fmt.Sprintf("%s@slow:%s:%d:%d", s.Name, kind, n, d/time.Millisecond)
	t.Run = func(ch vrt.Chooser, trace bool) *ScnResult {
		world.SlowCallback.Kind, world.SlowCallback.N, world.SlowCallback.D = kind, n, d
		defer func() { world.SlowCallback.Kind = "" }()
		return s.Run(ch, trace)
	}
	return &t
}

// hold0Twin runs the same scenario with peer P1 configured WithHoldTime(0): the session negotiates hold
// time 0, so there are no hold and keepalive timers and no periodic KEEPALIVEs - everything else the
// scenario's oracle asks for is unchanged.
func hold0Twin(s *Scn) *Scn {
	t := *s
	t.Name = s.Name + "@hold0"
	t.Run = func(ch vrt.Chooser, trace bool) *ScnResult {
		world.ExtraPeerOptions = []corebgp.PeerOption{corebgp.WithHoldTime(0)}
		defer func() { world.ExtraPeerOptions = nil }()
		return s.Run(ch, trace)
	}
	return &t
}

// opaqueTwin runs the same scenario on a network whose connections reach corebgp wrapped in a plain net.Conn,
// as they do behind a listener or dialer of the user's own (Serve takes any net.Listener): nothing corebgp
// promises may depend on the connection being a *net.TCPConn.
func opaqueTwin(s *Scn) *Scn {
	t := *s
	t.Name = s.Name + "@opaque"
	t.Run = func(ch vrt.Chooser, trace bool) *ScnResult {
		vnet.OpaqueDefault = true
		defer func() { vnet.OpaqueDefault = false }()
		return s.Run(ch, trace)
	}
	return &t
}

// withHold0 appends the hold-0 twin of every every-th scenario.
func withHold0(scns []*Scn, every int) []*Scn {
	out := scns
	for i, s := range scns {
		if every > 1 && i%every != every/3 {
			continue
		}
		out = append(out, hold0Twin(s))
	}
	return out
}

// twinOf rebuilds a twin from the suffix of its name ("" = s itself).
func twinOf(s *Scn, suffix string) *Scn {
	switch {
	case suffix == "":
		return s
	case suffix == "legacy":
		return legacyTwin(s)
	case suffix == "hold0":
		return hold0Twin(s)
	case suffix == "opaque":
		return opaqueTwin(s)
	case strings.HasPrefix(suffix, "slow:"):
		var kind string
		var n, ms int
		parts := strings.Split(suffix, ":")
		if len(parts) != 4 {
			return nil
		}
		kind = parts[1]
		fmt.Sscanf(parts[2], "%d", &n)
		fmt.Sscanf(parts[3], "%d", &ms)
		return slowTwin(s, kind, n, time.Duration(ms)*time.Millisecond)
	}
	return nil
}

// legacyEvery: quick tiers twin every n-th scenario, thorough tiers every second one.
func legacyEvery(thorough bool, quick int) int {
	if thorough {
		return 2
	}
	return quick
}

// withLegacy appends the legacy twin of every every-th scenario (every <= 1: of all).
func withLegacy(scns []*Scn, every int) []*Scn {
	out := scns
	for i, s := range scns {
		if every > 1 && i%every != every/2 {
			continue
		}
		out = append(out, legacyTwin(s))
	}
	return out
}

// ScnResult is the judged outcome of one execution.
type ScnResult struct {
	R       *vrt.Result
	Details map[string]any // log, wire, trace (filled when trace is on or on violation)
}

// finishRun turns an execution into a ScnResult: common verdicts first, then
// the scenario's own monitor.
func finishRun(prop, scn string, w *world.World, e *vrt.Exec, trace bool, race bool, monitor func() (rule, msg string), outcome func() string) *ScnResult {
	res := &vrt.Result{Points: e.Points(), Steps: e.Steps(), Reason: e.Reason()}
	sr := &ScnResult{R: res}
	rule, msg := basicVerdict(e)
	if rule == "" && e.Reason() == vrt.EndStepCap {
		// no scenario comes near the cap: an execution that does not end is spinning (e.g. a state
		// machine re-entering a state without waiting for anything)
		rule, msg = "livelock", fmt.Sprintf("the execution did not end within %d steps (virtual time %s): corebgp is busy-looping", e.Steps(), time.Duration(e.Now()))
	} else if rule == "" && e.Reason() != vrt.EndTruncated {
		if race && len(e.Races()) > 0 {
			r := e.Races()[0]
			rule, msg = "race", "data race: "+r.String()
			res.Violation = &vrt.Violation{Rule: rule, Message: msg, Sig: prop + ":race:" + raceSig(r)}
		} else if monitor != nil {
			rule, msg = monitor()
		}
	}
	if rule != "" && res.Violation == nil {
		res.Violation = &vrt.Violation{Rule: rule, Message: msg, Sig: prop + ":" + scnFamily(scn) + ":" + rule}
	}
	if e.Reason() != vrt.EndTruncated {
		h := fnv.New64a()
		if outcome != nil {
			h.Write([]byte(outcome()))
		} else if w != nil {
			for _, ev := range w.Log {
				fmt.Fprintf(h, "%s.%s.%s.%d|", ev.Kind, ev.Phase, ev.Peer, ev.Conn)
			}
			for _, c := range w.NW.Conns {
				if c.Lib {
					h.Write(c.Sent)
					h.Write([]byte{0})
				}
			}
		}
		res.Outcome = h.Sum64()
	}
	if trace || res.Violation != nil {
		sr.Details = map[string]any{"log": logText(w), "wire": wireText(w)}
		if trace {
			var tr []string
			for _, t := range e.TraceLog() {
				tr = append(tr, fmt.Sprintf("%d t=%s %s %s @%s", t.Step, time.Duration(t.Now), t.G, t.Op, t.Site))
			}
			sr.Details["trace"] = tr
		}
	}
	e.Finish()
	return sr
}

func raceSig(r vrt.RaceInfo) string {
	a, b := r.SiteA, r.SiteB
	if a > b {
		a, b = b, a
	}
	return a + "/" + b
}

// scnFamily strips the parameters from a scenario name ("forced-collision/cfg0/in-first" -> "forced-collision").
func scnFamily(s string) string {
	if i := strings.IndexByte(s, '/'); i >= 0 {
		return s[:i]
	}
	return s
}

// exploreScn explores one scenario within the shard's budget and records
// statistics and violations. It returns false if the budget expired.
func exploreScn(c *harness.Ctx, prop string, s *Scn) bool {
	var lastDetails map[string]any
	x := &vrt.Explorer{Bound: s.Bound, Deadline: c.Deadline, NoCache: s.NoCache}
	if s.Unbounded {
		x.Unbounded = true
		capd := s.UnboundedCap
		if capd == 0 {
			capd = 60 * time.Second
		}
		if dl := time.Now().Add(capd); c.Deadline.IsZero() || dl.Before(c.Deadline) {
			x.Deadline = dl
		}
	}
	x.Run = func(ch vrt.Chooser, trace bool) *vrt.Result {
		sr := s.Run(ch, trace)
		if sr.R.Violation != nil {
			if id := c.KnownID(sr.R.Violation.Sig); id != "" {
				// a recorded known finding: count it and keep exploring this scenario
				c.Res.Known[id]++
				sr.R.Violation = nil
				return sr.R
			}
			lastDetails = sr.Details
		}
		return sr.R
	}
	f := x.Explore()
	c.Res.Scenarios++
	c.Res.Executions += int64(x.Stats.Executions)
	c.Res.Evaluations += int64(x.Stats.Executions)
	c.Res.Transitions += x.Stats.Transitions
	c.Res.States += int64(x.Stats.States)
	c.Res.CapHits += int64(x.Stats.CapHits)
	c.Res.Outcomes += int64(len(x.Stats.Outcomes))
	c.Res.DistinctNontrivial += int64(len(x.Stats.Outcomes))
	if len(x.Stats.Outcomes) == 1 && x.Stats.Executions > 1000 {
		c.Note("vacuity warning: scenario %s: %d executions, 1 distinct outcome", s.Name, x.Stats.Executions)
	}
	if s.Unbounded {
		// not part of the bounded statistics
	} else if old, ok := c.Res.Extra["min_bound_completed"].(float64); !ok || float64(x.Stats.BoundDone) < old {
		c.Res.Extra["min_bound_completed"] = float64(x.Stats.BoundDone)
	}
	if len(c.Res.Samples) < 3 {
		c.Sample(map[string]any{"scenario": s.Name, "bound": s.Bound, "executions": x.Stats.Executions, "states": x.Stats.States,
			"truncated_by_cache": x.Stats.Truncated, "distinct_outcomes": len(x.Stats.Outcomes), "max_choice_points": x.Stats.MaxPoints, "bound_completed": x.Stats.BoundDone})
	}
	if f != nil {
		// determinism gate: replay twice with tracing, both must fail identically
		r1 := s.Run(&vrt.ReplayChooser{Choices: f.Choices}, true)
		r2 := s.Run(&vrt.ReplayChooser{Choices: f.Choices}, true)
		j1, _ := json.Marshal(r1.Details)
		j2, _ := json.Marshal(r2.Details)
		if r1.R.Violation == nil || r2.R.Violation == nil || r1.R.Violation.Sig != f.V.Sig || string(j1) != string(j2) {
			fmt.Fprintf(os.Stderr, "ENGINE-NONDETERMINISM scenario %s: violation %q did not reproduce identically on replay\n", s.Name, f.V.Sig)
			os.Exit(3)
		}
		rep := map[string]any{"scenario": s.Name, "choices": f.Choices, "bound": f.Bound, "details": r1.Details}
		if lastDetails == nil {
			lastDetails = r1.Details
		}
		c.Violation(f.V.Rule, f.V.Sig, fmt.Sprintf("[%s, %d deviations] %s", s.Name, f.Bound, f.V.Message), rep)
	}
	if s.Unbounded {
		add := func(k string, v float64) {
			old, _ := c.Res.Extra[k].(float64)
			c.Res.Extra[k] = old + v
		}
		add("unbounded_attempted", 1)
		if x.Stats.Exhaustive {
			add("unbounded_completed", 1)
			c.Note("unbounded search completed for %s: %d executions, %d happens-before states, %d outcomes", s.Name, x.Stats.Executions, x.Stats.States, len(x.Stats.Outcomes))
		} else if f == nil {
			c.Note("unbounded search for %s stopped at its time cap after %d executions, %d states (the bounded result stands)", s.Name, x.Stats.Executions, x.Stats.States)
		}
		return !c.Expired() || true
	}
	if !x.Stats.Exhaustive && f == nil {
		c.Res.Exhaustive = false
		return false
	}
	return true
}

// scnReplay builds a Replay function from a scenario table.
func scnReplay(prop string, lookup func(name string) *Scn) func(c *harness.Ctx, raw json.RawMessage) {
	return func(c *harness.Ctx, raw json.RawMessage) {
		var r struct {
			Scenario string `json:"scenario"`
			Choices  []int  `json:"choices"`
		}
		if err := json.Unmarshal(raw, &r); err != nil {
			panic(err)
		}
		base, suffix, _ := strings.Cut(r.Scenario, "@")
		s := lookup(base)
		if s != nil {
			s = twinOf(s, suffix)
		}
		if s == nil {
			fmt.Fprintln(os.Stderr, "ENGINE-ERROR unknown scenario", r.Scenario)
			os.Exit(3)
		}
		if bs := os.Getenv("VERIF_EXPLORE_BOUND"); bs != "" {
			// debugging aid: explore the named scenario up to the given bound instead of replaying one schedule
			var bound int
			fmt.Sscanf(bs, "%d", &bound)
			x := &vrt.Explorer{Bound: bound, NoCache: s.NoCache}
			x.Run = func(ch vrt.Chooser, trace bool) *vrt.Result { return s.Run(ch, trace).R }
			f := x.Explore()
			fmt.Printf("explored %s: bound %d, %d executions, %d states, %d outcomes, max choice points %d\n", r.Scenario, x.Stats.BoundDone, x.Stats.Executions, x.Stats.States, len(x.Stats.Outcomes), x.Stats.MaxPoints)
			if f == nil {
				return
			}
			fmt.Printf("violation at bound %d: %s (%s)\nchoices %v\n", f.Bound, f.V.Sig, f.V.Message, f.Choices)
			r.Choices = f.Choices
		}
		sr := s.Run(&vrt.ReplayChooser{Choices: r.Choices}, true)
		if tr, ok := sr.Details["trace"].([]string); ok {
			for _, l := range tr {
				fmt.Println(l)
			}
		}
		if lg, ok := sr.Details["log"].([]string); ok {
			for _, l := range lg {
				fmt.Println(l)
			}
		}
		if sr.R.Violation != nil {
			c.Violation(sr.R.Violation.Rule, sr.R.Violation.Sig, sr.R.Violation.Message, map[string]any{"scenario": r.Scenario, "choices": r.Choices, "details": sr.Details})
		}
	}
}
