package props

import (
	"bytes"
	"fmt"
	"net"
	"time"

	"github.com/jwhited/corebgp"

	"corebgpverif/vnet"
	"corebgpverif/vrt"
	"corebgpverif/wire"
	"corebgpverif/world"
)

// Two sessions receive at the same time. P1 (outbound) and P2 (inbound) are Established; at t = 1 s both
// remotes send UPDATEs whose headers are split by the TCP segmentation at octet `cut` (so that reading a
// header takes two Reads with a scheduling point in between) and whose lengths differ in both length
// octets. Framing and delivery of each session must be independent of the other: state shared between
// the readers of two connections (a receive buffer at package scope) shows as a lost, foreign or
// misframed message on some interleaving.
func twoPeersRxRun(cut int, ch vrt.Chooser, trace bool) (*world.World, *vrt.Exec, map[string][][]byte, map[string]*world.Remote) {
	var w *world.World
	sent := map[string][][]byte{}
	rems := map[string]*world.Remote{}
	e := vrt.Run(vrt.Config{Horizon: int64(20 * time.Second), Race: true, Trace: trace, Chooser: ch}, func() {
		w = world.New(libIP)
		w.NewServer(libIP)
		bodies := map[string][][]byte{
			"P1": {bytes.Repeat([]byte{0x11}, 4077), []byte("P1-small")},
			"P2": {[]byte("P2-a"), bytes.Repeat([]byte{0x22}, 300), {}},
		}
		script := func(r *world.Remote, peer string, ras uint32) {
			rems[peer] = r
			if !reach(r, stEstablished, ras, 90) {
				return
			}
			w.SetFlag("up-" + peer)
			w.WaitFlag("sent")
			vrt.NewTimer(5 * time.Second)
			dl := vrt.Cur().Now() + int64(5*time.Second)
			vrt.WaitLog("deliveries-"+peer, func() bool {
				return vrt.Cur().Now() >= dl || w.Count("Handler", "exit", peer) >= len(bodies[peer])
			})
			vrt.LogTouch()
			w.SetFlag("done-" + peer)
			w.WaitFlag("done-P1")
			w.WaitFlag("done-P2")
		}
		// one goroutine writes on both connections, so that both readers have a split header waiting
		// before either of them runs (two sleeping senders would be ordered by the clock instead)
		vrt.GoWorld("sender", func() {
			w.WaitFlag("up-P1")
			w.WaitFlag("up-P2")
			vrt.Sleep(time.Second)
			streams := map[string][]byte{}
			for _, peer := range []string{"P1", "P2"} {
				for _, b := range bodies[peer] {
					streams[peer] = append(streams[peer], wire.Update(b)...)
					sent[peer] = append(sent[peer], b)
				}
			}
			for _, peer := range []string{"P1", "P2"} {
				rems[peer].C.Write(streams[peer][:cut])
			}
			for _, peer := range []string{"P1", "P2"} {
				rems[peer].C.Write(streams[peer][cut:])
			}
			w.SetFlag("sent")
		})
		w.NW.OnDial(remAddr, func(att int, from *net.TCPAddr) vnet.DialOutcome {
			if att > 0 {
				return vnet.DialOutcome{Kind: vnet.DialRefuse}
			}
			return vnet.DialOutcome{Kind: vnet.DialAccept, Serve: func(c *vnet.Conn) {
				r := w.NewRemote(c, "P1")
				script(r, "P1", 65002)
				r.Finish()
			}}
		})
		mk := func(peer string) *world.Plugin { return &world.Plugin{W: w, Peer: peer, Marker: true} }
		if err := w.Server.AddPeer(peerConfig(remIP, 65001, 65002), mk("P1"), corebgp.WithDialerControl(w.DialControl("P1"))); err != nil {
			panic("harness: " + err.Error())
		}
		if err := w.Server.AddPeer(peerConfig(remIP2, 65001, 65003), mk("P2"), corebgp.WithPassive()); err != nil {
			panic("harness: " + err.Error())
		}
		w.Serve(libAddr)
		vrt.GoWorld("remote-p2", func() {
			c, err := w.NW.DialIn("10.0.0.3:40002", libAddr)
			if err != nil {
				return
			}
			r := w.NewRemote(c, "P2")
			script(r, "P2", 65003)
			r.Finish()
		})
		vrt.NewTimer(12 * time.Second)
		dl := vrt.Cur().Now() + int64(12*time.Second)
		vrt.WaitLog("both-done", func() bool { return vrt.Cur().Now() >= dl || w.AllRemotesDone(2) })
		vrt.LogTouch()
		w.Close()
		w.WaitServeDone()
	})
	return w, e, sent, rems
}

func twoPeersRxJudge(w *world.World, sent map[string][][]byte, rems map[string]*world.Remote) (string, string) {
	for _, peer := range []string{"P1", "P2"} {
		var got [][]byte
		for _, ev := range w.Log {
			if ev.Kind == "Handler" && ev.Phase == "enter" && ev.Peer == peer {
				got = append(got, ev.Data)
			}
		}
		want := sent[peer]
		if len(want) == 0 {
			return "setup", peer + " did not reach Established"
		}
		for i, b := range got {
			if i >= len(want) || !bytes.Equal(b, want[i]) {
				return "delivery-differs", fmt.Sprintf("%s: delivery %d is %x.. (%d bytes); the remote of %s sent %d UPDATEs, this is not the %d-th of them (two sessions receiving at once)", peer, i, trunc(b), len(b), peer, len(want), i+1)
			}
		}
		if len(got) < len(want) {
			msg := ""
			if r := rems[peer]; r != nil {
				for _, m := range r.Rx {
					if m.Type == wire.TypeNotification {
						msg = "; corebgp answered " + m.String()
					}
				}
			}
			return "update-lost", fmt.Sprintf("%s: %d of %d UPDATEs delivered while the other session was receiving too%s", peer, len(got), len(want), msg)
		}
	}
	return monitorCallbacks(w)
}

func twoPeersRxScn(prop string, cut, bound int) *Scn {
	return &Scn{Name: fmt.Sprintf("two-peers-rx/cut%d", cut), Bound: bound, Run: func(ch vrt.Chooser, trace bool) *ScnResult {
		w, e, sent, rems := twoPeersRxRun(cut, ch, trace)
		return finishRun(prop, "two-peers-rx", w, e, trace, true, func() (string, string) { return twoPeersRxJudge(w, sent, rems) }, nil)
	}}
}

// twoPeersRxCuts: inside the marker, between the two length octets, between length and type.
var twoPeersRxCuts = []int{7, 17, 18}
