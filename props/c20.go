package props

import (
	"encoding/binary"
	"encoding/json"
	"errors"
	"fmt"
	"net"
	"net/netip"
	"sort"
	"strings"
	"time"

	"github.com/anishathalye/porcupine"
	"github.com/jwhited/corebgp"

	"corebgpverif/harness"
	"corebgpverif/vnet"
	"corebgpverif/vrt"
	"corebgpverif/wire"
	"corebgpverif/world"
)

// C20: peer registry behaves as a consistent map; configuration validation.

// ---------- (d) validation grid, pure API ----------

type c20Cfg struct {
	Router  string `json:"router_id,omitempty"`
	Remote  string `json:"remote"`
	Local   string `json:"local"`
	LocalAS uint32 `json:"local_as"`
	RemAS   uint32 `json:"remote_as"`
	Hold    int    `json:"hold"`
	Port    int    `json:"port"`
	Passive bool   `json:"passive"`
}

var c20AddrKinds = map[string]netip.Addr{
	"invalid": {},
	"v4":      netip.MustParseAddr("192.0.2.2"),
	"v6":      netip.MustParseAddr("2001:db8::2"),
	"v4in6":   netip.MustParseAddr("::ffff:192.0.2.2"),
	"none":    {},
}

type nullPlugin struct{}

func (nullPlugin) GetCapabilities(corebgp.PeerConfig) []corebgp.Capability { return nil }
func (nullPlugin) OnOpenMessage(corebgp.PeerConfig, netip.Addr, []corebgp.Capability) *corebgp.Notification {
	return nil
}
func (nullPlugin) OnEstablished(corebgp.PeerConfig, corebgp.UpdateMessageWriter) corebgp.UpdateMessageHandler {
	return nil
}
func (nullPlugin) OnClose(corebgp.PeerConfig) {}

// c20Expect returns whether the configuration must be rejected, must be
// accepted, or is not judged (property silent), with the reason.
func c20Expect(cf c20Cfg) (reject, judged bool, why string) {
	var reasons []string
	if cf.Remote == "invalid" {
		reasons = append(reasons, "invalid remote address")
	}
	if cf.LocalAS == 0 || cf.RemAS == 0 {
		reasons = append(reasons, "AS 0")
	}
	if cf.Hold == 1 || cf.Hold == 2 {
		reasons = append(reasons, "hold time 1 or 2")
	}
	if cf.Port < 1 || cf.Port > 65535 {
		reasons = append(reasons, "port outside 1..65535")
	}
	mapped := cf.Remote == "v4in6" || cf.Local == "v4in6"
	if cf.Local != "none" && cf.Remote != "invalid" && !mapped && cf.Local != cf.Remote {
		reasons = append(reasons, "local/remote address family mismatch")
	}
	if len(reasons) > 0 {
		return true, true, strings.Join(reasons, ", ")
	}
	if mapped && cf.Local != "none" && cf.Local != cf.Remote {
		return false, false, "IPv4-mapped IPv6 address paired with another family: the property does not say which family it belongs to"
	}
	return false, true, "usable configuration"
}

// c20AnnouncedID serves one passive peer with the given server and returns the BGP Identifier of the OPEN
// it sends on an inbound connection.
func c20AnnouncedID(srv *corebgp.Server) (id uint32, ok bool) {
	e := vrt.Run(vrt.Config{Horizon: int64(20 * time.Second)}, func() {
		w := world.New(libIP)
		w.Server = srv
		if err := srv.AddPeer(peerConfig(remIP, 65001, 65002), &world.Plugin{W: w, Peer: "P1"}, corebgp.WithPassive()); err != nil {
			return
		}
		w.Serve(libAddr)
		cn, err := w.NW.DialIn("10.0.0.2:40000", libAddr)
		if err == nil {
			r := w.NewRemote(cn, "P1")
			r.Deadline(2 * time.Second)
			if m, got := r.Expect(wire.TypeOpen); got && len(m.Body) >= 9 {
				id, ok = binary.BigEndian.Uint32(m.Body[5:9]), true
			}
			r.C.Close()
			r.Finish()
		}
		w.Close()
		w.WaitServeDone()
	})
	e.Finish()
	return
}

func c20Validation(c *harness.Ctx, idx *int) bool {
	// NewServer: exactly IPv4 router ids
	for _, k := range []string{"invalid", "v4", "v6", "v4in6"} {
		*idx++
		if !c.Mine(*idx) {
			continue
		}
		srv, err := corebgp.NewServer(c20AddrKinds[k])
		c.Eval([]byte("router:"+k), true)
		switch {
		case k == "v4" && err != nil:
			c.Violation("newserver-rejects-ipv4", "C20:validation:newserver-rejects-ipv4", "NewServer rejected an IPv4 router id: "+err.Error(), map[string]any{"router_id": k})
		case (k == "invalid" || k == "v6") && err == nil:
			c.Violation("newserver-accepts-non-ipv4", "C20:validation:newserver-accepts-non-ipv4", "NewServer accepted router id kind "+k, map[string]any{"router_id": k})
		case (k == "v4" || k == "v4in6") && err == nil:
			// whatever form of an IPv4 address is accepted, it is that address the server announces
			// (whether the IPv4-mapped form is accepted at all is left open)
			want := c20AddrKinds[k].Unmap().As4()
			if id, ok := c20AnnouncedID(srv); ok && id != binary.BigEndian.Uint32(want[:]) {
				c.Violation("router-id-not-announced", "C20:validation:router-id-not-announced", fmt.Sprintf("NewServer accepted router id %s but the OPEN carries BGP Identifier %s", c20AddrKinds[k], ip4(id)), map[string]any{"router_id": k})
			}
		}
	}
	ass := []uint32{0, 1, 65535, 65536, 0xffffffff}
	for _, rem := range []string{"invalid", "v4", "v6", "v4in6"} {
		for _, loc := range []string{"none", "v4", "v6", "v4in6"} {
			for _, las := range ass {
				for _, ras := range ass {
					for _, hold := range []int{0, 1, 2, 3, 90, 65535} {
						for _, port := range []int{-1, 0, 1, 179, 65535, 65536} {
							for _, passive := range []bool{false, true} {
								*idx++
								if !c.Mine(*idx) {
									continue
								}
								if c.Expired() {
									return false
								}
								cf := c20Cfg{Remote: rem, Local: loc, LocalAS: las, RemAS: ras, Hold: hold, Port: port, Passive: passive}
								c20EvalCfg(c, cf, *idx)
							}
						}
					}
				}
			}
		}
	}
	return true
}

func c20EvalCfg(c *harness.Ctx, cf c20Cfg, idx int) {
	s, err := corebgp.NewServer(netip.MustParseAddr("192.0.2.1"))
	if err != nil {
		panic(err)
	}
	// a by-stander peer so that "ListPeers unchanged" is observable
	by := corebgp.PeerConfig{RemoteAddress: netip.MustParseAddr("198.51.100.7"), LocalAS: 64500, RemoteAS: 64501}
	if err := s.AddPeer(by, nullPlugin{}); err != nil {
		panic(err)
	}
	opts := []corebgp.PeerOption{corebgp.WithHoldTime(uint16(cf.Hold)), corebgp.WithPort(cf.Port)}
	if cf.Local != "none" {
		opts = append(opts, corebgp.WithLocalAddress(c20AddrKinds[cf.Local]))
	}
	if cf.Passive {
		opts = append(opts, corebgp.WithPassive())
	}
	pc := corebgp.PeerConfig{RemoteAddress: c20AddrKinds[cf.Remote], LocalAS: cf.LocalAS, RemoteAS: cf.RemAS}
	err = s.AddPeer(pc, nullPlugin{}, opts...)
	reject, judged, why := c20Expect(cf)
	b, _ := json.Marshal(cf)
	c.Eval(b, judged)
	if idx%4001 == 1 {
		c.Sample(map[string]any{"config": cf, "expected_reject": reject, "judged": judged, "why": why})
	}
	list := s.ListPeers()
	if !judged {
		return
	}
	if reject {
		if err == nil {
			c.Violation("accepts-unusable-config", "C20:validation:accepts:"+strings.ReplaceAll(strings.Split(why, ",")[0], " ", "-"), fmt.Sprintf("AddPeer accepted a configuration that cannot yield a valid session (%s): %s", why, b), map[string]any{"config": cf})
			return
		}
		if len(list) != 1 || list[0] != by {
			c.Violation("rejected-addpeer-side-effect", "C20:validation:rejected-addpeer-side-effect", fmt.Sprintf("a rejected AddPeer changed ListPeers: %v", list), map[string]any{"config": cf})
		}
		return
	}
	if err != nil {
		c.Violation("rejects-usable-config", "C20:validation:rejects-usable-config", fmt.Sprintf("AddPeer rejected a usable configuration %s: %v", b, err), map[string]any{"config": cf})
		return
	}
	if len(list) != 2 {
		c.Violation("accepted-addpeer-not-listed", "C20:validation:accepted-addpeer-not-listed", fmt.Sprintf("ListPeers has %d entries after a successful AddPeer", len(list)), map[string]any{"config": cf})
	}
}

// ---------- (a) sequential operation sequences vs a reference map ----------

type c20Op struct {
	Op  string `json:"op"`  // add | addalt | del | get | list
	Key string `json:"key"` // A | B
}

var c20Keys = map[string]string{"A": "10.0.0.2", "B": "10.0.0.3"}

func c20PeerCfg(key string, alt bool) corebgp.PeerConfig {
	as := uint32(65002)
	if alt {
		as = 65099
	}
	return peerConfig(c20Keys[key], 65001, as)
}

type c20Result struct {
	Err  string
	Cfg  string
	List string
}

func listString(l []corebgp.PeerConfig) string {
	var s []string
	for _, p := range l {
		s = append(s, fmt.Sprintf("%s/%d/%d", p.RemoteAddress, p.LocalAS, p.RemoteAS))
	}
	sort.Strings(s)
	return strings.Join(s, ",")
}

func errName(err error) string {
	switch {
	case err == nil:
		return "nil"
	case errors.Is(err, corebgp.ErrPeerAlreadyExists):
		return "ErrPeerAlreadyExists"
	case errors.Is(err, corebgp.ErrPeerNotExist):
		return "ErrPeerNotExist"
	case errors.Is(err, corebgp.ErrServerClosed):
		return "ErrServerClosed"
	}
	return "other:" + err.Error()
}

func c20Do(s *corebgp.Server, op c20Op) c20Result {
	switch op.Op {
	case "add", "addalt":
		return c20Result{Err: errName(s.AddPeer(c20PeerCfg(op.Key, op.Op == "addalt"), nullPlugin{}))}
	case "del":
		return c20Result{Err: errName(s.DeletePeer(netip.MustParseAddr(c20Keys[op.Key])))}
	case "get":
		cfg, err := s.GetPeer(netip.MustParseAddr(c20Keys[op.Key]))
		r := c20Result{Err: errName(err)}
		if err == nil {
			r.Cfg = listString([]corebgp.PeerConfig{cfg})
		}
		return r
	case "list":
		return c20Result{Err: "nil", List: listString(s.ListPeers())}
	}
	panic("bad op")
}

// refMap is the reference model: a map keyed by remote address.
type refMap map[string]corebgp.PeerConfig

func (m refMap) do(op c20Op) c20Result {
	switch op.Op {
	case "add", "addalt":
		if _, ok := m[op.Key]; ok {
			return c20Result{Err: "ErrPeerAlreadyExists"}
		}
		m[op.Key] = c20PeerCfg(op.Key, op.Op == "addalt")
		return c20Result{Err: "nil"}
	case "del":
		if _, ok := m[op.Key]; !ok {
			return c20Result{Err: "ErrPeerNotExist"}
		}
		delete(m, op.Key)
		return c20Result{Err: "nil"}
	case "get":
		cfg, ok := m[op.Key]
		if !ok {
			return c20Result{Err: "ErrPeerNotExist"}
		}
		return c20Result{Err: "nil", Cfg: listString([]corebgp.PeerConfig{cfg})}
	case "list":
		var l []corebgp.PeerConfig
		for _, v := range m {
			l = append(l, v)
		}
		return c20Result{Err: "nil", List: listString(l)}
	}
	panic("bad op")
}

func (m refMap) clone() refMap {
	n := refMap{}
	for k, v := range m {
		n[k] = v
	}
	return n
}

var c20Alphabet = []c20Op{{"add", "A"}, {"addalt", "A"}, {"del", "A"}, {"get", "A"}, {"add", "B"}, {"del", "B"}, {"get", "B"}, {"list", ""}, {"addalt", "B"}}

type c20SeqCase struct {
	Phase string  `json:"phase"` // never-served | serving | closed
	Ops   []c20Op `json:"ops"`
}

// c20RunSeq executes a sequence in the given server phase and compares every
// step with the reference map.
func c20RunSeq(cs c20SeqCase) (rule, msg string) {
	check := func(s *corebgp.Server) (string, string) {
		ref := refMap{}
		for i, op := range cs.Ops {
			got := c20Do(s, op)
			want := ref.do(op)
			if got != want {
				return "registry-differs-from-map", fmt.Sprintf("phase %s, step %d (%s %s): got %+v, a map gives %+v (sequence %v)", cs.Phase, i+1, op.Op, op.Key, got, want, cs.Ops)
			}
		}
		return "", ""
	}
	if cs.Phase == "never-served" {
		s, _ := corebgp.NewServer(netip.MustParseAddr(libIP))
		return check(s)
	}
	var w *world.World
	e := vrt.Run(vrt.Config{Horizon: int64(30 * time.Second)}, func() {
		w = world.New(libIP)
		s := w.NewServer(libIP)
		w.NW.OnDial(remAddr, func(int, *net.TCPAddr) vnet.DialOutcome { return vnet.DialOutcome{Kind: vnet.DialRefuse} })
		w.NW.OnDial(remAddr2, func(int, *net.TCPAddr) vnet.DialOutcome { return vnet.DialOutcome{Kind: vnet.DialStall} })
		w.Serve(libAddr)
		vrt.WaitQuiescent()
		if cs.Phase == "closed" {
			w.Close()
			w.WaitServeDone()
		}
		rule, msg = check(s)
		if cs.Phase == "serving" {
			w.Close()
			w.WaitServeDone()
			vrt.WaitQuiescent()
			if live := vrt.Cur().LiveLib(); len(live) > 0 {
				rule, msg = "goroutine-leak", fmt.Sprintf("%d corebgp goroutines alive after Close (sequence %v)", len(live), cs.Ops)
			}
		}
	})
	if r, m := basicVerdict(e); r != "" {
		rule, msg = r, m
	}
	e.Finish()
	return
}

// ---------- (b) concurrent mixes: linearizability with porcupine ----------

type c20ConcCase struct {
	Threads [][]c20Op `json:"threads"`
	Serve   string    `json:"serve"` // before | concurrent | never
	Close   bool      `json:"close_concurrently"`
}

type c20HistOp struct {
	client   int
	op       c20Op
	call     int64
	ret      int64
	res      c20Result
	returned bool
}

var c20Model = porcupine.Model{
	Init: func() interface{} { return "" },
	Step: func(state, input, output interface{}) (bool, interface{}) {
		m := refMap{}
		if s := state.(string); s != "" {
			for _, kv := range strings.Split(s, ";") {
				p := strings.SplitN(kv, "=", 2)
				m[p[0]] = c20PeerCfg(p[0], p[1] == "alt")
			}
		}
		want := m.do(input.(c20Op))
		if want != output.(c20Result) {
			return false, state
		}
		var kv []string
		for k, v := range m {
			t := "std"
			if v.RemoteAS == 65099 {
				t = "alt"
			}
			kv = append(kv, k+"="+t)
		}
		sort.Strings(kv)
		return true, strings.Join(kv, ";")
	},
	Equal: func(a, b interface{}) bool { return a.(string) == b.(string) },
}

func c20ConcRun(cs c20ConcCase, ch vrt.Chooser, trace bool) (*world.World, *vrt.Exec, []*c20HistOp) {
	var w *world.World
	var hist []*c20HistOp
	c20Leaks = nil
	e := vrt.Run(vrt.Config{Horizon: int64(20 * time.Second), Race: true, Trace: trace, Chooser: ch}, func() {
		w = world.New(libIP)
		s := w.NewServer(libIP)
		w.NW.OnDial(remAddr, func(int, *net.TCPAddr) vnet.DialOutcome { return vnet.DialOutcome{Kind: vnet.DialRefuse} })
		w.NW.OnDial(remAddr2, func(int, *net.TCPAddr) vnet.DialOutcome { return vnet.DialOutcome{Kind: vnet.DialStall} })
		if cs.Serve == "before" {
			w.Serve(libAddr)
		}
		nDone := 0
		for ti, ops := range cs.Threads {
			ti, ops := ti, ops
			vrt.GoWorld(fmt.Sprintf("client%d", ti), func() {
				for _, op := range ops {
					h := &c20HistOp{client: ti, op: op}
					hist = append(hist, h)
					h.call = int64(w.Append(world.Event{Kind: "op", Phase: "call", Text: op.Op + " " + op.Key, Conn: -1}))
					h.res = c20Do(s, op)
					h.ret = int64(w.Append(world.Event{Kind: "op", Phase: "return", Text: fmt.Sprint(h.res), Conn: -1}))
					h.returned = true
				}
				nDone++
				w.Note("client-done", "")
			})
		}
		if cs.Serve == "concurrent" {
			w.Serve(libAddr)
		}
		if cs.Close {
			vrt.Yield("c20.close")
			w.Close()
		}
		vrt.WaitLog("clients-done", func() bool { return nDone == len(cs.Threads) })
		vrt.LogTouch()
		if !cs.Close {
			w.Close()
		}
		if cs.Serve != "never" {
			w.WaitServeDone()
			// after Close and Serve returned nothing of corebgp may be left running: checked at a
			// quiescent cut without clock advance (a peer that was never stopped keeps redialling)
			vrt.WaitQuiescent()
			for _, g := range vrt.Cur().LiveLib() {
				c20Leaks = append(c20Leaks, g.Name()+"@"+g.PendingSite())
			}
		}
	})
	return w, e, hist
}

var c20Leaks []string

func c20ConcJudge(cs c20ConcCase, w *world.World, e *vrt.Exec, hist []*c20HistOp) (string, string) {
	var ops []porcupine.Operation
	for _, h := range hist {
		if !h.returned {
			return "operation-blocked", fmt.Sprintf("%s %s by client %d never returned", h.op.Op, h.op.Key, h.client)
		}
		ops = append(ops, porcupine.Operation{ClientId: h.client, Input: h.op, Call: h.call, Output: h.res, Return: h.ret})
	}
	if !porcupine.CheckOperations(c20Model, ops) {
		var sb strings.Builder
		for _, h := range hist {
			fmt.Fprintf(&sb, " [c%d %s %s @%d..%d -> %+v]", h.client, h.op.Op, h.op.Key, h.call, h.ret, h.res)
		}
		return "not-linearizable", "the history of registry operations is not linearizable with respect to a map:" + sb.String()
	}
	if len(c20Leaks) > 0 {
		return "goroutine-leak", fmt.Sprintf("corebgp goroutines alive after Close and Serve returned: %v", c20Leaks)
	}
	return "", ""
}

func c20ConcCases(th bool) []c20ConcCase {
	var out []c20ConcCase
	pairs := [][]c20Op{
		{{"add", "A"}}, {{"addalt", "A"}}, {{"del", "A"}}, {{"get", "A"}}, {{"list", ""}}, {{"add", "B"}, {"add", "A"}},
		{{"add", "A"}, {"del", "A"}}, {{"del", "A"}, {"add", "A"}}, {{"add", "A"}, {"get", "A"}}, {{"add", "B"}, {"list", ""}},
	}
	for i, a := range pairs {
		for j, b := range pairs {
			if j < i {
				continue
			}
			for _, serve := range []string{"before", "concurrent", "never"} {
				for _, cl := range []bool{false, true} {
					if cl && serve == "never" {
						continue
					}
					out = append(out, c20ConcCase{Threads: [][]c20Op{a, b}, Serve: serve, Close: cl})
					if th && len(a)+len(b) <= 3 {
						for _, c3 := range [][]c20Op{{{"get", "A"}}, {{"addalt", "A"}}, {{"del", "A"}}} {
							out = append(out, c20ConcCase{Threads: [][]c20Op{a, b, c3}, Serve: serve, Close: cl})
						}
					}
				}
			}
		}
	}
	return out
}

func c20ConcScn(cs c20ConcCase, bound int) *Scn {
	b, _ := json.Marshal(cs)
	return &Scn{Name: "concurrent/" + string(b), Bound: bound, Run: func(ch vrt.Chooser, trace bool) *ScnResult {
		w, e, hist := c20ConcRun(cs, ch, trace)
		return finishRun("C20", "concurrent", w, e, trace, true, func() (string, string) { return c20ConcJudge(cs, w, e, hist) }, nil)
	}}
}

// ---------- (c) lifecycle in virtual time ----------

func c20Lifecycle(c *harness.Ctx, idx *int) {
	type lc struct {
		name string
		run  func(w *world.World) (string, string)
	}
	dials := func(w *world.World) []int64 {
		var d []int64
		for _, ev := range w.Log {
			if ev.Kind == "dial" {
				d = append(d, ev.T)
			}
		}
		return d
	}
	cases := []lc{
		{"added-before-serve-dials-only-after-serve", func(w *world.World) (string, string) {
			s := w.NewServer(libIP)
			if err := s.AddPeer(peerConfig(remIP, 65001, 65002), nullPlugin{}, corebgp.WithDialerControl(w.DialControl("P1"))); err != nil {
				return "setup", err.Error()
			}
			vrt.Sleep(30 * time.Second)
			if d := dials(w); len(d) > 0 {
				return "dial-before-serve", fmt.Sprintf("a peer added before Serve dialled at %v", durs(d))
			}
			w.Serve(libAddr)
			vrt.Sleep(time.Second)
			d := dials(w)
			if len(d) == 0 || d[0] != int64(30*time.Second) {
				return "no-dial-at-serve", fmt.Sprintf("Serve called at t=30s, dials at %v", durs(d))
			}
			w.Close()
			w.WaitServeDone()
			return "", ""
		}},
		{"added-while-serving-starts", func(w *world.World) (string, string) {
			s := w.NewServer(libIP)
			w.Serve(libAddr)
			vrt.Sleep(10 * time.Second)
			if err := s.AddPeer(peerConfig(remIP, 65001, 65002), nullPlugin{}, corebgp.WithDialerControl(w.DialControl("P1"))); err != nil {
				return "setup", err.Error()
			}
			if err := s.AddPeer(peerConfig(remIP2, 65001, 65003), &world.Plugin{W: w, Peer: "P2"}, corebgp.WithPassive(), corebgp.WithDialerControl(w.DialControl("P2"))); err != nil {
				return "setup", err.Error()
			}
			vrt.Sleep(time.Second)
			d := dials(w)
			if len(d) == 0 || d[0] != int64(10*time.Second) {
				return "added-peer-does-not-dial", fmt.Sprintf("peer added while serving at t=10s, dials at %v", durs(d))
			}
			for _, ev := range w.Log {
				if ev.Kind == "dial" && ev.Peer == "P2" {
					return "passive-peer-dialled", "a passive peer added while serving dialled"
				}
			}
			// the passive peer accepts inbound
			cn, err := w.NW.DialIn("10.0.0.3:40000", libAddr)
			if err != nil {
				return "setup", err.Error()
			}
			r := w.NewRemote(cn, "P2")
			r.Deadline(time.Second)
			if _, ok := r.Expect(1); !ok {
				return "added-peer-refuses-inbound", "a passive peer added while serving did not answer an inbound connection with an OPEN"
			}
			// the inbound connection of the passive peer goes down: it still never dials
			r.C.Close()
			vrt.Sleep(12 * time.Second)
			for _, ev := range w.Log {
				if ev.Kind == "dial" && ev.Peer == "P2" {
					return "passive-peer-dialled", "a passive peer dialled after its inbound connection went down"
				}
			}
			// delete the active peer: its dialling stops
			if err := s.DeletePeer(netip.MustParseAddr(remIP)); err != nil {
				return "setup", err.Error()
			}
			n := len(dials(w))
			vrt.Sleep(20 * time.Second)
			if m := len(dials(w)); m != n {
				return "deleted-peer-keeps-dialling", fmt.Sprintf("%d dial attempts after DeletePeer returned", m-n)
			}
			w.Close()
			w.WaitServeDone()
			return "", ""
		}},
		{"inbound-through-dual-stack-wildcard-listener", func(w *world.World) (string, string) {
			// ":179" is an AF_INET6 socket that also takes IPv4 connections: the addresses of the accepted
			// connection are IPv4-mapped (they print dotted, but are not equal to the IPv4 address as values)
			s := w.NewServer(libIP)
			w.Serve(":179")
			if err := s.AddPeer(peerConfig(remIP2, 65001, 65003), &world.Plugin{W: w, Peer: "P2", Marker: true}, corebgp.WithPassive()); err != nil {
				return "setup", err.Error()
			}
			if err := s.AddPeer(peerConfig("10.0.0.4", 65001, 65004), &world.Plugin{W: w, Peer: "P3", Marker: true}, corebgp.WithPassive(), corebgp.WithLocalAddress(netip.MustParseAddr(libIP))); err != nil {
				return "setup", err.Error()
			}
			for i, pc := range []struct {
				from, name string
				as         uint32
			}{{"10.0.0.3:40000", "P2", 65003}, {"10.0.0.4:40000", "P3", 65004}} {
				cn, err := w.NW.DialIn(pc.from, libAddr)
				if err != nil {
					return "setup", err.Error()
				}
				r := w.NewRemote(cn, pc.name)
				r.Deadline(2 * time.Second)
				if !reach(r, stEstablished, pc.as, 90) {
					return "added-peer-refuses-inbound", fmt.Sprintf("peer %d (%s): an IPv4 connection accepted on a dual-stack wildcard listener did not lead to a session", i+1, pc.name)
				}
				r.C.Close()
			}
			w.Close()
			w.WaitServeDone()
			return "", ""
		}},
		{"ipv6-peer-port-and-local-address", func(w *world.World) (string, string) {
			// an IPv6 peer with a local address and a non-default port, and an IPv4 peer with another port:
			// the dial goes to exactly that address and port, from that local address, and a full session
			// comes up over IPv6 in both directions
			s := w.NewServer(libIP)
			est := map[string]bool{}
			var from6 string
			w.NW.OnDial("[fd00::2]:1790", func(att int, from *net.TCPAddr) vnet.DialOutcome {
				from6 = from.IP.String()
				return vnet.DialOutcome{Kind: vnet.DialAccept, Serve: func(cn *vnet.Conn) {
					r := w.NewRemote(cn, "P6")
					defer r.Finish()
					est["out6"] = reach(r, stEstablished, 65006, 90)
					r.Deadline(0)
					r.Drain()
				}}
			})
			w.NW.OnDial("10.0.0.2:1179", func(att int, from *net.TCPAddr) vnet.DialOutcome {
				return vnet.DialOutcome{Kind: vnet.DialAccept, Serve: func(cn *vnet.Conn) {
					r := w.NewRemote(cn, "P1")
					defer r.Finish()
					est["out4"] = reach(r, stEstablished, 65002, 90)
					r.Deadline(0)
					r.Drain()
				}}
			})
			p6 := corebgp.PeerConfig{RemoteAddress: netip.MustParseAddr("fd00::2"), LocalAS: 65001, RemoteAS: 65006}
			if err := s.AddPeer(p6, &world.Plugin{W: w, Peer: "P6", Marker: true}, corebgp.WithLocalAddress(netip.MustParseAddr("fd00::1")), corebgp.WithPort(1790), corebgp.WithDialerControl(w.DialControl("P6"))); err != nil {
				return "rejects-usable-config", "IPv6 peer with IPv6 local address and port 1790: " + err.Error()
			}
			if err := s.AddPeer(peerConfig(remIP, 65001, 65002), &world.Plugin{W: w, Peer: "P1", Marker: true}, corebgp.WithPort(1179), corebgp.WithDialerControl(w.DialControl("P1"))); err != nil {
				return "rejects-usable-config", "IPv4 peer with port 1179: " + err.Error()
			}
			p7 := corebgp.PeerConfig{RemoteAddress: netip.MustParseAddr("fd00::7"), LocalAS: 65001, RemoteAS: 65007}
			if err := s.AddPeer(p7, &world.Plugin{W: w, Peer: "P7", Marker: true}, corebgp.WithPassive(), corebgp.WithLocalAddress(netip.MustParseAddr("fd00::1"))); err != nil {
				return "rejects-usable-config", "passive IPv6 peer: " + err.Error()
			}
			w.Serve(libAddr, "[fd00::1]:179")
			vrt.Sleep(2 * time.Second)
			want := map[string]string{"P6": "[fd00::2]:1790", "P1": "10.0.0.2:1179"}
			for _, ev := range w.Log {
				if ev.Kind == "dial" && want[ev.Peer] != "" && ev.Text != want[ev.Peer] {
					return "dial-to-wrong-address", fmt.Sprintf("peer %s is configured for %s but corebgp dialled %s", ev.Peer, want[ev.Peer], ev.Text)
				}
			}
			if !est["out6"] {
				return "ipv6-peer-not-established", "the outbound session to the IPv6 peer [fd00::2]:1790 did not come up"
			}
			if from6 != "fd00::1" {
				return "dial-from-wrong-address", fmt.Sprintf("the IPv6 peer has local address fd00::1 but the connection came from %s", from6)
			}
			if !est["out4"] {
				return "peer-with-port-not-established", "the outbound session to 10.0.0.2:1179 did not come up"
			}
			cn, err := w.NW.DialIn("[fd00::7]:40000", "[fd00::1]:179")
			if err != nil {
				return "setup", err.Error()
			}
			r := w.NewRemote(cn, "P7")
			r.Deadline(2 * time.Second)
			if !reach(r, stEstablished, 65007, 90) {
				return "ipv6-inbound-not-established", "an inbound connection of the passive IPv6 peer to its configured local address did not establish"
			}
			w.Close()
			w.WaitServeDone()
			return "", ""
		}},
		{"serve-after-close", func(w *world.World) (string, string) {
			s := w.NewServer(libIP)
			w.Serve(libAddr)
			vrt.Sleep(time.Second)
			w.Close()
			w.WaitServeDone()
			if !errors.Is(w.ServeErr, corebgp.ErrServerClosed) {
				return "serve-return", fmt.Sprintf("Serve returned %v after Close", w.ServeErr)
			}
			if err := s.Serve(nil); !errors.Is(err, corebgp.ErrServerClosed) {
				return "serve-after-close", fmt.Sprintf("Serve after Close returned %v", err)
			}
			return "", ""
		}},
		{"close-before-serve", func(w *world.World) (string, string) {
			s := w.NewServer(libIP)
			s.Close()
			if err := s.Serve(nil); !errors.Is(err, corebgp.ErrServerClosed) {
				return "serve-after-close", fmt.Sprintf("Serve after Close (never served) returned %v", err)
			}
			return "", ""
		}},
	}
	for _, cse := range cases {
		*idx++
		if !c.Mine(*idx) {
			continue
		}
		var w *world.World
		var rule, msg string
		e := vrt.Run(vrt.Config{Horizon: int64(120 * time.Second)}, func() {
			w = world.New(libIP)
			w.NW.OnDial(remAddr, func(int, *net.TCPAddr) vnet.DialOutcome { return vnet.DialOutcome{Kind: vnet.DialRefuse} })
			rule, msg = cse.run(w)
		})
		if r, m := basicVerdict(e); r != "" {
			rule, msg = r, m
		}
		c.Eval([]byte("lifecycle:"+cse.name), true)
		if rule != "" {
			c.Violation(rule, "C20:lifecycle:"+rule, cse.name+": "+msg, map[string]any{"lifecycle": cse.name, "log": logText(w)})
		}
		e.Finish()
	}
}

func c20Check(c *harness.Ctx) {
	idx := 0
	if !c20Validation(c, &idx) {
		return
	}
	c20Lifecycle(c, &idx)
	// (a) sequences
	maxLen := 5
	if c.Thorough() {
		maxLen = 6
	}
	frontier := [][]c20Op{{}}
	for d := 0; d < maxLen; d++ {
		var next [][]c20Op
		for _, f := range frontier {
			for _, a := range c20Alphabet {
				seq := append(append([]c20Op{}, f...), a)
				next = append(next, seq)
				for _, phase := range []string{"never-served", "serving", "closed"} {
					if phase != "never-served" && len(seq) > maxLen-1 {
						continue // the phases that need the runtime go one level less deep
					}
					idx++
					if !c.Mine(idx) {
						continue
					}
					if c.Expired() {
						return
					}
					cs := c20SeqCase{Phase: phase, Ops: seq}
					b, _ := json.Marshal(cs)
					c.Eval(b, true)
					if idx%50021 == 1 {
						c.Sample(cs)
					}
					if rule, msg := c20RunSeq(cs); rule != "" {
						c.Violation(rule, "C20:sequence:"+rule, msg, map[string]any{"sequence": cs})
					}
				}
			}
		}
		frontier = next
	}
	// (b) concurrent
	bound := 3
	if c.Thorough() {
		bound = 4
	}
	for i, cs := range c20ConcCases(c.Thorough()) {
		if !c.Mine(i) {
			continue
		}
		if c.Expired() {
			return
		}
		if !exploreScn(c, "C20", c20ConcScn(cs, bound)) {
			return
		}
	}
}

func init() {
	harness.Register(&harness.Check{
		Property: "C20", Level: "model_checking", NeedsConc: true, QuickS: 250, ThoroughS: 1500,
		Rule:   "(d) the full validation grid: router id kinds, remote x local address kinds {invalid/none, v4, v6, v4-in-v6} x local AS x remote AS {0,1,65535,65536,2^32-1} x hold {0,1,2,3,90,65535} x port {-1,0,1,179,65535,65536} x passive (28 800 configurations) against the rejection predicate of the property; (a) all operation sequences up to length 5 (6 thorough) over {Add, Add with other AS, Delete, Get} x {A,B} + List in the phases never-served / serving / closed against a reference map; (b) two or three concurrent clients with 1-2 operations on colliding keys, with Serve before / concurrently / never and Close concurrently or afterwards: all schedules within the delay bound (3 quick / 4 thorough), every complete history checked for linearizability against the map model with porcupine, race detector on; (c) lifecycle scenarios in virtual time (delete stops dialling, re-add, passive peers never dial - also after an inbound session ended, Close before/without Serve, IPv6 peers with local address and non-default ports in both directions); distinct_nontrivial = judged configurations + sequences + distinct outcomes",
		Assume: []string{"IPv4-mapped IPv6 addresses paired with another family are not judged (property silent)", "delay-bounded schedules for (b)"},
		Run:    c20Check,
		Replay: func(c *harness.Ctx, raw json.RawMessage) {
			var r struct {
				Config   *c20Cfg     `json:"config"`
				Sequence *c20SeqCase `json:"sequence"`
				Scenario string      `json:"scenario"`
			}
			if err := json.Unmarshal(raw, &r); err != nil {
				panic(err)
			}
			switch {
			case r.Config != nil:
				c20EvalCfg(c, *r.Config, 0)
			case r.Sequence != nil:
				if rule, msg := c20RunSeq(*r.Sequence); rule != "" {
					c.Violation(rule, "C20:sequence:"+rule, msg, map[string]any{"sequence": r.Sequence})
				}
			default:
				scnReplay("C20", func(name string) *Scn {
					var cs c20ConcCase
					if !strings.HasPrefix(name, "concurrent/") || json.Unmarshal([]byte(name[len("concurrent/"):]), &cs) != nil {
						return nil
					}
					return c20ConcScn(cs, 4)
				})(c, raw)
			}
		},
	})
}
