package props

import (
	"bytes"
	"encoding/binary"
	"encoding/hex"
	"encoding/json"
	"fmt"
	"net/netip"
	"strings"
	"time"

	"github.com/jwhited/corebgp"

	"corebgpverif/harness"
	"corebgpverif/refmodel"
	"corebgpverif/vrt"
	"corebgpverif/wire"
	"corebgpverif/world"
)

// C02: OPEN handshake accept/reject boundary, decided by bounded-exhaustive
// enumeration of OPEN bodies sent over the (virtual) wire to the real FSM.

type c02Case struct {
	LocalAS   uint32 `json:"local_as"`
	RemoteAS  uint32 `json:"remote_as"`
	LocalID   uint32 `json:"local_id"`
	Inbound   bool   `json:"inbound"`
	Hold      int    `json:"local_hold"`
	Eager     bool   `json:"eager"`
	Fin       bool   `json:"fin_after_open,omitempty"` // the remote half-closes right behind its OPEN
	Body      string `json:"body_hex"`
	OpenNotif string `json:"open_notif_hex,omitempty"` // code,sub,data returned by OnOpenMessage
	DelayMs   int    `json:"delay_ms,omitempty"`       // the remote sends its OPEN that long after it could
}

type c02Cfg struct{ las, ras, lid uint32 }

var c02Cfgs = []c02Cfg{
	{65001, 65002, 0x0a000001},
	{65001, 65001, 0x0a000001},
	{65001, 70000, 0x0a000001},
	{4200000000, 4200000001, 0x0a000001},
	{70000, 23456, 0x0a000001},
}

func be16(v uint16) []byte { return binary.BigEndian.AppendUint16(nil, v) }
func be32(v uint32) []byte { return binary.BigEndian.AppendUint32(nil, v) }

// c02Fixed enumerates fixed-field tuples (version, as, hold, id).
type c02Fixed struct {
	v    byte
	as   uint16
	hold uint16
	id   uint32
}

func c02FixedValues(cfg c02Cfg) (vs []byte, ass []uint16, holds []uint16, ids []uint32) {
	r16 := wire.AS2(cfg.ras)
	vs = []byte{4, 0, 3, 5, 255}
	ass = []uint16{r16, 0, r16 - 1, r16 + 1, 23456, 65535}
	if cfg.ras > 65535 {
		// the halves of a 4-octet remote AS are not its 2-octet representation
		ass = append(ass, uint16(cfg.ras), uint16(cfg.ras>>16))
	}
	holds = []uint16{90, 0, 1, 2, 3, 4, 65535}
	ids = []uint32{0x0a000002, 0, cfg.lid, cfg.lid - 1, cfg.lid + 1, 0xdfffffff, 0xe0000000, 0xefffffff, 0xf0000000, 0xffffffff}
	return
}

func c02CapAlphabet(cfg c02Cfg, small bool) []wire.Cap {
	a := []wire.Cap{
		wire.Cap4(cfg.ras), wire.Cap4(cfg.ras + 1), {Code: 65, Value: []byte{0, 0, 1}},
		{Code: 1, Value: []byte{0, 1, 0, 1}}, {Code: 69, Value: []byte{0, 1, 1, 3}}, {Code: 0}, {Code: 255, Value: []byte{1, 2, 3, 4, 5}},
	}
	if small {
		return a
	}
	a = append(a, wire.Cap4(23456), wire.Cap{Code: 65}, wire.Cap{Code: 65, Value: []byte{0, 0, 0, 0, 1}})
	for _, code := range []byte{1, 69, 0, 255} {
		for _, l := range []int{0, 3, 4, 5} {
			dup := false
			for _, x := range a {
				if x.Code == code && len(x.Value) == l {
					dup = true
				}
			}
			if !dup {
				a = append(a, wire.Cap{Code: code, Value: bytes.Repeat([]byte{0x11}, l)})
			}
		}
	}
	return a
}

func capLists(alpha []wire.Cap, max int) [][]wire.Cap {
	res := [][]wire.Cap{{}}
	frontier := [][]wire.Cap{{}}
	for d := 0; d < max; d++ {
		var next [][]wire.Cap
		for _, f := range frontier {
			for _, c := range alpha {
				l := append(append([]wire.Cap{}, f...), c)
				next = append(next, l)
			}
		}
		res = append(res, next...)
		frontier = next
	}
	return res
}

func capBytes(l []wire.Cap) []byte {
	var v []byte
	for _, c := range l {
		v = append(v, c.Bytes()...)
	}
	return v
}

func param(t byte, v []byte) []byte { return append([]byte{t, byte(len(v))}, v...) }

// c02Layouts returns optional-parameter areas (the bytes after the
// optional-parameters-length octet) together with that octet.
type c02Opt struct {
	l   byte
	opt []byte
}

func mkOpt(opt []byte) c02Opt { return c02Opt{byte(len(opt)), opt} }

func c02Layouts(cfg c02Cfg, thorough bool) []c02Opt {
	var out []c02Opt
	seen := map[string]bool{}
	add := func(o c02Opt) {
		k := string(append([]byte{o.l}, o.opt...))
		if !seen[k] {
			seen[k] = true
			out = append(out, o)
		}
	}
	depth := 2
	if thorough {
		depth = 3
	}
	// one capabilities parameter with every capability list up to depth
	for _, l := range capLists(c02CapAlphabet(cfg, false), depth) {
		add(mkOpt(param(2, capBytes(l))))
	}
	add(mkOpt(nil)) // no optional parameters at all
	// several parameters
	small := c02CapAlphabet(cfg, true)
	var palpha [][]byte
	for _, l := range capLists(small, 1) {
		palpha = append(palpha, param(2, capBytes(l)))
	}
	palpha = append(palpha, param(0, nil), param(1, []byte{1, 2}), param(255, nil))
	for _, a := range palpha {
		for _, b := range palpha {
			add(mkOpt(append(append([]byte{}, a...), b...)))
			if thorough {
				for _, c := range palpha {
					add(mkOpt(append(append(append([]byte{}, a...), b...), c...)))
				}
			}
		}
	}
	// length-octet mutations and truncations of a base set
	var base []c02Opt
	for _, l := range capLists(small, 2) {
		base = append(base, mkOpt(param(2, capBytes(l))))
	}
	for _, a := range palpha[:4] {
		for _, b := range palpha {
			base = append(base, mkOpt(append(append([]byte{}, a...), b...)))
		}
	}
	for _, bo := range base {
		// positions of length octets inside opt: parameter lengths and capability lengths
		var lenPos []int
		p := 0
		for p+1 < len(bo.opt) {
			lenPos = append(lenPos, p+1)
			pl := int(bo.opt[p+1])
			if bo.opt[p] == 2 {
				q := p + 2
				for q+1 < p+2+pl && q+1 < len(bo.opt) {
					lenPos = append(lenPos, q+1)
					q += 2 + int(bo.opt[q+1])
				}
			}
			p += 2 + pl
		}
		for _, pos := range lenPos {
			for _, nv := range []int{int(bo.opt[pos]) - 1, int(bo.opt[pos]) + 1, 0, 255} {
				if nv < 0 || nv > 255 || nv == int(bo.opt[pos]) {
					continue
				}
				m := append([]byte{}, bo.opt...)
				m[pos] = byte(nv)
				add(c02Opt{bo.l, m})
			}
		}
		for _, nl := range []int{int(bo.l) - 1, int(bo.l) + 1, 0, 255} {
			if nl >= 0 && nl <= 255 && nl != int(bo.l) {
				add(c02Opt{byte(nl), bo.opt})
			}
		}
		for cut := 0; cut < len(bo.opt); cut++ {
			add(c02Opt{bo.l, bo.opt[:cut]})      // truncated, length octet unchanged
			add(c02Opt{byte(cut), bo.opt[:cut]}) // truncated, outer length consistent
		}
	}
	return out
}

func c02Body(f c02Fixed, o c02Opt) []byte {
	b := []byte{f.v}
	b = append(b, be16(f.as)...)
	b = append(b, be16(f.hold)...)
	b = append(b, be32(f.id)...)
	b = append(b, o.l)
	return append(b, o.opt...)
}

// c02Bodies enumerates the OPEN bodies for one configuration.
func c02Bodies(cfg c02Cfg, thorough bool) [][]byte {
	var out [][]byte
	vs, ass, holds, ids := c02FixedValues(cfg)
	valid := c02Fixed{4, wire.AS2(cfg.ras), 90, 0x0a000002}
	layouts := c02Layouts(cfg, thorough)
	// representative layouts for the full fixed-field product
	reps := []c02Opt{
		mkOpt(param(2, capBytes([]wire.Cap{wire.Cap4(cfg.ras)}))),
		mkOpt(param(2, capBytes([]wire.Cap{{Code: 1, Value: []byte{0, 1, 0, 1}}, wire.Cap4(cfg.ras)}))),
		mkOpt(param(2, capBytes([]wire.Cap{wire.Cap4(cfg.ras + 1)}))),
		mkOpt(param(2, capBytes([]wire.Cap{{Code: 1, Value: []byte{0, 1, 0, 1}}}))),
		mkOpt(nil),
		mkOpt(param(1, []byte{1, 2})),
	}
	if thorough {
		reps = append(reps, c02Opt{3, param(2, capBytes([]wire.Cap{wire.Cap4(cfg.ras)}))},
			mkOpt(param(2, []byte{65, 9, 0, 0})), mkOpt(param(2, nil)),
			mkOpt(append(param(2, capBytes([]wire.Cap{wire.Cap4(cfg.ras)})), param(2, capBytes([]wire.Cap{{Code: 69, Value: []byte{0, 1, 1, 3}}}))...)))
	}
	for _, v := range vs {
		for _, as := range ass {
			for _, h := range holds {
				for _, id := range ids {
					for _, o := range reps {
						out = append(out, c02Body(c02Fixed{v, as, h, id}, o))
					}
				}
			}
		}
	}
	// valid fixed part and every single-field deviation x all layouts
	singles := []c02Fixed{valid}
	for _, v := range vs[1:] {
		f := valid
		f.v = v
		singles = append(singles, f)
	}
	for _, as := range ass[1:] {
		f := valid
		f.as = as
		singles = append(singles, f)
	}
	for _, h := range holds[1:] {
		f := valid
		f.hold = h
		singles = append(singles, f)
	}
	for _, id := range ids[1:] {
		f := valid
		f.id = id
		singles = append(singles, f)
	}
	if !thorough {
		// quick: the valid part and one deviation per field
		singles = []c02Fixed{valid, {3, valid.as, 90, valid.id}, {4, 23456, 90, valid.id}, {4, valid.as, 0, valid.id}, {4, valid.as, 2, valid.id}, {4, valid.as, 90, 0xe0000000}}
		if cfg.ras > 65535 {
			singles = append(singles, c02Fixed{4, uint16(cfg.ras), 90, valid.id})
		}
	}
	for _, f := range singles {
		for _, o := range layouts {
			out = append(out, c02Body(f, o))
		}
	}
	// arbitrary short bodies and selected lengths
	out = append(out, []byte{})
	for a := 0; a < 256; a++ {
		out = append(out, []byte{byte(a)})
	}
	if thorough {
		for a := 0; a < 256; a++ {
			for b := 0; b < 256; b++ {
				out = append(out, []byte{byte(a), byte(b)})
			}
		}
	}
	good := c02Body(valid, reps[0])
	for _, n := range []int{9, 10, 11, 28, 29, 255 + 10, 256 + 10, 4077} {
		for _, fill := range []byte{0x00, 0xff, 0x02} {
			b := make([]byte, n)
			for i := range b {
				b[i] = fill
			}
			out = append(out, b)
			// valid fixed part followed by fill
			c := append([]byte{}, good[:min(len(good), n)]...)
			for len(c) < n {
				c = append(c, fill)
			}
			out = append(out, c)
		}
	}
	// maximal optional parameter area: 255 bytes of capabilities
	big := capBytes([]wire.Cap{wire.Cap4(cfg.ras), {Code: 200, Value: bytes.Repeat([]byte{7}, 247)}})
	out = append(out, c02Body(valid, mkOpt(param(2, big))))
	return out
}

func c02Plugin(notif []byte) func(w *world.World) *world.Plugin {
	return func(w *world.World) *world.Plugin {
		p := &world.Plugin{W: w, Peer: "P1", Marker: true, NoYield: true}
		if notif != nil {
			p.OpenNotif = func(rid netip.Addr, caps []corebgp.Capability) *corebgp.Notification {
				return &corebgp.Notification{Code: notif[0], Subcode: notif[1], Data: append([]byte(nil), notif[2:]...)}
			}
		}
		return p
	}
}

// c02Run executes one case and judges it. It returns rule, signature and
// message of a violation ("" if the case is fine) and the reference class.
func c02Run(cs c02Case, trace bool) (rule, sig, msg string, class refmodel.Class, rep map[string]any) {
	body, _ := hex.DecodeString(cs.Body)
	var notif []byte
	if cs.OpenNotif != "" {
		notif, _ = hex.DecodeString(cs.OpenNotif)
	}
	var rem *world.Remote
	gotKA, gotMarker := false, false
	var notifs []wire.Msg
	var others []wire.Msg
	s := &Sess{LocalAS: cs.LocalAS, RemoteAS: cs.RemoteAS, RouterID: cs.LocalID, Hold: cs.Hold, Inbound: cs.Inbound, Plugin: c02Plugin(notif),
		Script: func(w *world.World, r *world.Remote) {
			rem = r
			if !cs.Eager {
				if _, ok := r.Expect(wire.TypeOpen); !ok {
					return
				}
			}
			if cs.DelayMs > 0 {
				// a peer that takes its time: the acceptability of an OPEN does not depend on when it arrives
				// (within the large OpenSent hold time), whatever hold time is configured locally
				vrt.Sleep(time.Duration(cs.DelayMs) * time.Millisecond)
			}
			r.Send(wire.Frame(wire.TypeOpen, body))
			if cs.Fin {
				r.C.CloseWrite()
			}
			if cs.Eager {
				if _, ok := r.Expect(wire.TypeOpen); !ok {
					return
				}
			}
			for {
				m, err := r.ReadMsg()
				if err != nil {
					return
				}
				switch {
				case m.Type == wire.TypeKeepalive && !gotKA:
					gotKA = true
					if !cs.Fin {
						r.Send(wire.Keepalive())
					}
				case m.Type == wire.TypeNotification:
					notifs = append(notifs, m)
				case m.Type == wire.TypeUpdate && gotKA && !gotMarker:
					if _, ok := world.IsMarker(m.Body); ok {
						gotMarker = true
						return
					}
					others = append(others, m)
				default:
					others = append(others, m)
				}
			}
		}}
	w, e := s.Run(nil, trace)
	defer e.Finish()
	verdict := refmodel.JudgeOpen(body, refmodel.OpenCfg{LocalAS: cs.LocalAS, RemoteAS: cs.RemoteAS, LocalID: cs.LocalID})
	class = verdict.Class
	rep = map[string]any{"case": cs, "reference": map[string]any{"class": verdict.Class.String(), "faults": verdict.Why, "silent": verdict.Silent, "admissible": fmt.Sprint(verdict.Admissible)}}
	fail := func(r, m string) (string, string, string, refmodel.Class, map[string]any) {
		rep["log"] = logText(w)
		rep["wire"] = wireText(w)
		return r, "C02:" + verdict.Class.String() + ":" + r, m, class, rep
	}
	if r, m := basicVerdict(e); r != "" {
		return fail(r, m)
	}
	if rem == nil {
		return fail("no-connection", "the scripted connection never happened")
	}
	if rem.FrameErr != nil {
		return fail("malformed-output", "corebgp wrote a malformed message: "+rem.FrameErr.Error())
	}
	nOpenCb := w.Count("OnOpenMessage", "enter", "P1")
	nEst := w.Count("OnEstablished", "enter", "P1")
	if notif != nil && verdict.Class == refmodel.Accept {
		// scripted OnOpenMessage notification: must be sent verbatim, prevents establishment
		if nOpenCb != 1 {
			return fail("onopen-count", fmt.Sprintf("OnOpenMessage invoked %d times for an acceptable OPEN", nOpenCb))
		}
		if len(notifs) != 1 || !bytes.Equal(notifs[0].Body, notif) {
			return fail("plugin-notification-not-verbatim", fmt.Sprintf("OnOpenMessage returned %x but the remote received %v", notif, notifs))
		}
		if nEst != 0 || gotKA {
			return fail("established-after-plugin-notification", "session proceeded although OnOpenMessage returned a notification")
		}
		if !rem.EOF {
			return fail("no-close", "connection not closed after the plugin's notification")
		}
		return "", "", "", class, rep
	}
	switch verdict.Class {
	case refmodel.Accept:
		if len(notifs) > 0 {
			c, sb, d := notifs[0].Notif()
			return fail("rejected-valid-open", fmt.Sprintf("acceptable OPEN answered with NOTIFICATION (%d,%d,%x)", c, sb, d))
		}
		if !gotKA {
			return fail("no-keepalive", "acceptable OPEN not answered with KEEPALIVE")
		}
		if nOpenCb != 1 {
			return fail("onopen-count", fmt.Sprintf("OnOpenMessage invoked %d times", nOpenCb))
		}
		for _, ev := range w.Log {
			if ev.Kind == "OnOpenMessage" && ev.Phase == "enter" {
				if ev.Text != ip4(verdict.ID) {
					return fail("onopen-id", fmt.Sprintf("OnOpenMessage got identifier %s, OPEN carried %s", ev.Text, ip4(verdict.ID)))
				}
				if !bytes.Equal(ev.Data, capBytes(verdict.Caps)) {
					return fail("onopen-caps", fmt.Sprintf("OnOpenMessage got capabilities %x, OPEN carried %x", ev.Data, capBytes(verdict.Caps)))
				}
			}
		}
		if cs.Fin {
			// the remote is gone: the reply to the OPEN is all that can be judged
		} else if nEst != 1 || !gotMarker {
			return fail("not-established", fmt.Sprintf("session not Established after the remote's KEEPALIVE (OnEstablished=%d marker=%v)", nEst, gotMarker))
		}
		if len(others) > 0 {
			return fail("unexpected-message", fmt.Sprintf("unexpected messages %v", others))
		}
	case refmodel.Reject:
		if gotKA || nEst > 0 {
			return fail("accepted-invalid-open", fmt.Sprintf("unacceptable OPEN (%v) was answered with KEEPALIVE / Established", verdict.Why))
		}
		if nOpenCb != 0 {
			return fail("onopen-on-invalid", fmt.Sprintf("OnOpenMessage invoked for an unacceptable OPEN (%v)", verdict.Why))
		}
		if len(notifs) != 1 {
			return fail("notification-count", fmt.Sprintf("expected exactly one NOTIFICATION, got %d (%v)", len(notifs), verdict.Why))
		}
		c, sb, d := notifs[0].Notif()
		ok := false
		for _, a := range verdict.Admissible {
			if a.Matches(c, sb, d) {
				ok = true
			}
		}
		if !ok {
			return fail(fmt.Sprintf("wrong-notification(%d,%d)", c, sb), fmt.Sprintf("NOTIFICATION (%d,%d,%x) does not apply to a fault present; admissible: %v", c, sb, d, verdict.Admissible))
		}
		if !rem.EOF {
			return fail("no-close", "connection not closed after the NOTIFICATION")
		}
		if len(others) > 0 {
			return fail("unexpected-message", fmt.Sprintf("unexpected messages %v", others))
		}
	case refmodel.DontCare:
		if gotKA && len(notifs) > 0 && !gotMarker {
			// proceeded and then refused: incoherent only if it also reported Established
		}
	}
	return "", "", "", class, rep
}

// c02Pipelined: the OPEN is immediately followed, in the same TCP write, by another
// message with a body of the same size (an UPDATE, or a KEEPALIVE-typed message) whose
// bytes differ from the OPEN's at the 4-octet-AS capability. The judgement of the OPEN
// must not depend on what follows it, under any schedule of reader and FSM.
type c02Pipe struct {
	Valid   bool `json:"open_valid"` // the OPEN itself is acceptable
	Trailer byte `json:"trailer_type"`
	Inbound bool `json:"inbound"`
}

func c02PipeRun(p c02Pipe, ch vrt.Chooser, trace bool) (*world.World, *vrt.Exec, func() (string, string)) {
	good := wire.OpenBody(4, wire.AS2(65002), 90, 0x0a000002, wire.CapParam(wire.Cap{Code: 1, Value: []byte{0, 1, 0, 1}}, wire.Cap4(65002)))
	bad := wire.OpenBody(4, wire.AS2(65002), 90, 0x0a000002, wire.CapParam(wire.Cap{Code: 1, Value: []byte{0, 1, 0, 1}}, wire.Cap4(64999)))
	open, trailerBody := good, bad
	if !p.Valid {
		open, trailerBody = bad, good
	}
	var first *wire.Msg
	var rem *world.Remote
	s := &Sess{LocalAS: 65001, RemoteAS: 65002, Hold: -1, Inbound: p.Inbound, Plugin: c02Plugin(nil),
		Script: func(w *world.World, r *world.Remote) {
			rem = r
			if _, ok := r.Expect(wire.TypeOpen); !ok {
				return
			}
			r.Send(append(wire.Frame(wire.TypeOpen, open), wire.Frame(p.Trailer, trailerBody)...))
			r.Deadline(3 * time.Second)
			for {
				m, err := r.ReadMsg()
				if err != nil {
					return
				}
				if first == nil {
					mm := m
					first = &mm
				}
			}
		}}
	s.Plugin = func(w *world.World) *world.Plugin {
		return &world.Plugin{W: w, Peer: "P1", Marker: true}
	}
	w, e := s.Run(ch, trace)
	judge := func() (string, string) {
		if rem == nil || first == nil {
			return "no-reaction", "corebgp did not react to the OPEN"
		}
		nCb := w.Count("OnOpenMessage", "enter", "P1")
		if p.Valid {
			if first.Type != wire.TypeKeepalive {
				return "rejected-valid-open", fmt.Sprintf("an acceptable OPEN followed at once by another message was answered with %s", first)
			}
			if nCb != 1 {
				return "onopen-count", fmt.Sprintf("OnOpenMessage invoked %d times", nCb)
			}
			want := capBytes([]wire.Cap{{Code: 1, Value: []byte{0, 1, 0, 1}}, wire.Cap4(65002)})
			for _, ev := range w.Log {
				if ev.Kind == "OnOpenMessage" && ev.Phase == "enter" && !bytes.Equal(ev.Data, want) {
					return "onopen-caps", fmt.Sprintf("OnOpenMessage got capabilities %x, the OPEN carried %x", ev.Data, want)
				}
			}
			return "", ""
		}
		if first.Type != wire.TypeNotification {
			return "accepted-invalid-open", fmt.Sprintf("an OPEN whose 4-octet-AS capability names another AS was answered with %s", first)
		}
		if c, sc, _ := first.Notif(); c != 2 || sc != 2 {
			return "wrong-notification", fmt.Sprintf("got %s, expected (2,2)", first)
		}
		if nCb != 0 {
			return "onopen-on-invalid", "OnOpenMessage invoked for an unacceptable OPEN"
		}
		return "", ""
	}
	return w, e, judge
}

func c02PipeScn(p c02Pipe, bound int) *Scn {
	b, _ := json.Marshal(p)
	return &Scn{Name: "pipelined/" + string(b), Bound: bound, Run: func(ch vrt.Chooser, trace bool) *ScnResult {
		if ch == nil {
			ch = &vrt.ReplayChooser{}
		}
		w, e, judge := c02PipeRun(p, ch, trace)
		return finishRun("C02", "pipelined", w, e, trace, false, judge, nil)
	}}
}

func c02Check(c *harness.Ctx) {
	k := 0
	for _, valid := range []bool{true, false} {
		for _, tr := range []byte{wire.TypeUpdate, wire.TypeKeepalive, wire.TypeNotification} {
			for _, inbound := range []bool{true, false} {
				k++
				if !c.Mine(k) {
					continue
				}
				bound := 2
				if c.Thorough() {
					bound = 3
				}
				if !exploreScn(c, "C02", c02PipeScn(c02Pipe{Valid: valid, Trailer: tr, Inbound: inbound}, bound)) {
					return
				}
			}
		}
	}
	th := c.Thorough()
	cfgs := c02Cfgs[:3]
	if th {
		cfgs = c02Cfgs
	}
	idx := 0
	nAccept, nReject, nDC := 0, 0, 0
	for _, cfg := range cfgs {
		bodies := c02Bodies(cfg, th)
		c.Res.Extra["bodies_cfg_"+fmt.Sprint(cfg.las, "_", cfg.ras)] = float64(0)
		for _, inbound := range []bool{true, false} {
			for bi, body := range bodies {
				idx++
				if !c.Mine(idx) {
					continue
				}
				if c.Expired() {
					return
				}
				cs := c02Case{LocalAS: cfg.las, RemoteAS: cfg.ras, LocalID: cfg.lid, Inbound: inbound, Hold: 90, Body: hex.EncodeToString(body)}
				// vary the secondary dimensions deterministically over the enumeration
				if th {
					cs.Eager = bi%2 == 1
					if bi%3 == 1 {
						cs.Hold = 0
					}
				} else if bi%5 == 1 {
					cs.Hold = 0
				}
				if bi%7 == 3 {
					cs.Fin = true // the OPEN arrived before the FIN and must be judged all the same
				}
				if bi%4 == 2 {
					cs.DelayMs = 1500
				}
				rule, sig, msg, class, rep := c02Run(cs, false)
				switch class {
				case refmodel.Accept:
					nAccept++
				case refmodel.Reject:
					nReject++
				default:
					nDC++
				}
				key := append([]byte(fmt.Sprint(cfg, inbound)), body...)
				c.Eval(key, class != refmodel.Reject || len(rep["reference"].(map[string]any)["faults"].([]string)) == 1)
				if idx%20011 == 1 {
					c.Sample(rep)
				}
				if rule != "" {
					c.Violation(rule, sig, msg, rep)
				}
			}
		}
	}
	// plugin-returned notifications for acceptable OPENs
	for _, cfg := range cfgs {
		for _, inbound := range []bool{true, false} {
			for _, dl := range []int{0, 1, 2, 7} {
				for _, cc := range [][2]byte{{2, 7}, {6, 0}, {0, 0}, {255, 255}} {
					idx++
					if !c.Mine(idx) {
						continue
					}
					n := append([]byte{cc[0], cc[1]}, bytes.Repeat([]byte{0xab}, dl)...)
					body := wire.OpenBody(4, wire.AS2(cfg.ras), 90, 0x0a000002, wire.CapParam(wire.Cap4(cfg.ras)))
					cs := c02Case{LocalAS: cfg.las, RemoteAS: cfg.ras, LocalID: cfg.lid, Inbound: inbound, Hold: 90, Body: hex.EncodeToString(body), OpenNotif: hex.EncodeToString(n)}
					rule, sig, msg, _, rep := c02Run(cs, false)
					c.Eval([]byte(fmt.Sprint("notif", cfg, inbound, n)), true)
					if rule != "" {
						c.Violation(rule, sig, msg, rep)
					}
				}
			}
		}
	}
	c.Res.Extra["accept_class"] = float64(nAccept)
	c.Res.Extra["reject_class"] = float64(nReject)
	c.Res.Extra["dont_care_class"] = float64(nDC)
}

func init() {
	harness.Register(&harness.Check{
		Property:  "C02",
		Level:     "exploration",
		NeedsConc: true,
		QuickS:    120, ThoroughS: 900,
		Rule: "every OPEN body of the generator G02 (fixed-field boundary product x optional-parameter layouts incl. length-octet mutations and truncations, short arbitrary bodies, selected lengths) x configurations x both directions is sent over the virtual wire to the real FSM (default schedule) and judged against an independent RFC 4271/5492/6286/6793 acceptability predicate; plus pipelined scenarios under all schedules within the delay bound (the OPEN followed in the same write by another message or by FIN: the judgement must not depend on what follows), plugin-returned notifications; distinct = distinct (config, direction, body); non-trivial = reference class accept / dont-care, or reject with exactly one fault present",
		Assume: []string{"virtual network and clock (vrt/vnet) are faithful to net/time (DESIGN 3.7)", "default schedule only: schedule dependence of the handshake is covered by C01/C07/C10",
			"three-valued oracle: inputs on which the property text is silent (identifier 0.0.0.0, AS_TRANS with a 16-bit remote AS, zero-length capabilities parameter, conflicting 4-octet-AS capabilities) are not judged on accept/reject"},
		Run: c02Check,
		Replay: func(c *harness.Ctx, raw json.RawMessage) {
			var r struct {
				Case     c02Case `json:"case"`
				Scenario string  `json:"scenario"`
			}
			if err := json.Unmarshal(raw, &r); err != nil {
				panic(err)
			}
			if r.Scenario != "" {
				scnReplay("C02", func(name string) *Scn {
					var p c02Pipe
					if !strings.HasPrefix(name, "pipelined/") || json.Unmarshal([]byte(name[len("pipelined/"):]), &p) != nil {
						return nil
					}
					return c02PipeScn(p, 3)
				})(c, raw)
				return
			}
			rule, sig, msg, _, rep := c02Run(r.Case, true)
			if rule != "" {
				c.Violation(rule, sig, msg, rep)
			}
		},
	})
}
