package props

import (
	"bytes"
	"fmt"
	"net"
	"strings"
	"time"

	"github.com/jwhited/corebgp"

	"corebgpverif/harness"
	"corebgpverif/vnet"
	"corebgpverif/vrt"
	"corebgpverif/wire"
	"corebgpverif/world"
)

// C04: outbound byte stream is whole messages; WriteUpdate contract.

type c04Params struct {
	mode    string // onest | handler | free1 | free2 | free3
	tailCut bool   // judge only: a write blocked behind a full window when the session ended may leave a fragment at the very end
	event   string // none | fin | notif-rx | handler-notif | close | rst (an UPDATE, then RST) | hdr-fault (a corrupted marker)
	hold    int
	// join: OnClose waits until the free writer goroutines of the session have returned from the
	// WriteUpdate call they are in (a plugin that joins its announcer before it lets go of a session)
	join bool
}

func (p c04Params) name() string {
	s := fmt.Sprintf("%s/%s/hold%d", p.mode, p.event, p.hold)
	if p.join {
		s += "/join"
	}
	return s
}

type c04Call struct {
	g        string
	session  int
	body     []byte
	startSeq int
	endSeq   int
	err      error
	done     bool
}

type c04Obs struct {
	calls []*c04Call
}

func c04Body(writer, n int) []byte {
	sizes := []int{23, 0, 4077, 1, 23, 23}
	l := sizes[(writer*2+n)%len(sizes)]
	b := make([]byte, l)
	for i := range b {
		b[i] = byte(0x40 + writer*16 + n)
	}
	if l >= 4 {
		copy(b, []byte{'W', byte('0' + writer), byte('0' + n), '!'})
	}
	return b
}

func c04Run(p c04Params, ch vrt.Chooser, trace bool) (*world.World, *vrt.Exec, *c04Obs) {
	var w *world.World
	o := &c04Obs{}
	e := vrt.Run(vrt.Config{Horizon: int64(14 * time.Second), Race: true, Trace: trace, Chooser: ch}, func() {
		w = world.New(libIP)
		w.NewServer(libIP)
		write := func(wr corebgp.UpdateMessageWriter, session int, body []byte) {
			c := &c04Call{g: vrt.Cur().Self().Name(), session: session, body: body}
			o.calls = append(o.calls, c)
			c.startSeq = w.Append(world.Event{Kind: "write", Phase: "call", Peer: "P1", Session: session, Conn: -1, Data: body})
			c.err = wr.WriteUpdate(body)
			c.done = true
			c.endSeq = w.Append(world.Event{Kind: "write", Phase: "return", Peer: "P1", Session: session, Conn: -1, Err: fmt.Sprint(c.err)})
		}
		nFree := 0
		if strings.HasPrefix(p.mode, "free") {
			nFree = int(p.mode[4] - '0')
		}
		pl := &world.Plugin{W: w, Peer: "P1", Marker: true}
		inCall := 0 // free writers currently inside WriteUpdate
		if p.join {
			pl.OnCloseFn = func(pp *world.Plugin, s int) {
				if s == 1 {
					vrt.WaitLog("writers-out-of-call", func() bool { return inCall == 0 })
					vrt.LogTouch()
				}
			}
		}
		pl.OnEst = func(pp *world.Plugin, s int, wr corebgp.UpdateMessageWriter) {
			if p.mode == "onest" {
				write(wr, s, c04Body(0, 0))
				write(wr, s, c04Body(0, 1))
			}
			if s != 1 {
				return
			}
			for i := 0; i < nFree; i++ {
				i := i
				vrt.GoWorld(fmt.Sprintf("writer%d", i), func() {
					// first write coincides with the keepalive timer / the event at t=3s, then
					// keep using the (by then possibly dead) writer
					vrt.Sleep(3 * time.Second)
					for n := 0; n < 2; n++ {
						inCall++
						write(wr, s, c04Body(i+1, n))
						inCall--
						w.Note("writer", "out of call")
					}
					vrt.Sleep(2 * time.Second)
					write(wr, s, c04Body(i+1, 2))
				})
			}
		}
		pl.Handle = func(pp *world.Plugin, s, n int, b []byte) *corebgp.Notification {
			if p.mode == "handler" {
				write(pp.Writers[s-1], s, c04Body(0, n))
				if p.event == "rst" && string(b) == "EVENT" {
					// the connection is gone (RST) while the FSM goroutine is still in here: these writes
					// fail, and must say so
					write(pp.Writers[s-1], s, c04Body(0, n+1))
					write(pp.Writers[s-1], s, c04Body(0, n+2))
				}
			}
			if p.event == "handler-notif" && string(b) == "EVENT" {
				return &corebgp.Notification{Code: 6, Subcode: 4}
			}
			return nil
		}
		w.NW.OnDial(remAddr, func(att int, from *net.TCPAddr) vnet.DialOutcome {
			if att > 1 {
				return vnet.DialOutcome{Kind: vnet.DialRefuse}
			}
			return vnet.DialOutcome{Kind: vnet.DialAccept, Serve: func(c *vnet.Conn) {
				r := w.NewRemote(c, "P1")
				defer r.Finish()
				if !reach(r, stEstablished, 65002, uint16(p.hold)) {
					return
				}
				r.Send(wire.Update([]byte("HELLO")))
				if att == 0 {
					vrt.Sleep(3 * time.Second)
					switch p.event {
					case "fin":
						r.C.Close()
						return
					case "notif-rx":
						r.Send(wire.Notification(6, 2, nil))
					case "handler-notif":
						r.Send(wire.Update([]byte("EVENT")))
					case "rst":
						r.Send(wire.Update([]byte("EVENT")))
						r.C.Reset()
						return
					case "hdr-fault":
						// a header with a corrupted marker: corebgp answers (1,1) while the writers are writing
						m := wire.GoodMarker
						m[5] = 0
						r.Send(wire.RawHeader(m, 19, wire.TypeKeepalive))
					}
				}
				r.Deadline(0)
				r.Drain()
			}}
		})
		opts := []corebgp.PeerOption{corebgp.WithDialerControl(w.DialControl("P1")), corebgp.WithHoldTime(uint16(p.hold))}
		if err := w.Server.AddPeer(peerConfig(remIP, 65001, 65002), pl, opts...); err != nil {
			panic("harness: " + err.Error())
		}
		w.Serve(libAddr)
		if p.event == "close" {
			vrt.Sleep(3 * time.Second)
			w.Close()
			w.WaitServeDone()
			vrt.Sleep(4 * time.Second) // let the writers run into the closed writer
			return
		}
		vrt.Sleep(12 * time.Second)
		w.Close()
		w.WaitServeDone()
	})
	return w, e, o
}

// cutByPeer reports whether the incomplete message at the end of what corebgp wrote on c was cut by the
// environment rather than by corebgp: the bytes of the fragment were written by one goroutine, that
// goroutine's next write on the connection was refused because the peer had reset the connection or gone
// away, and nothing was written after that. The peer cannot have read such a fragment as anything but the
// start of a message it will never see the end of. (A tree may hand one message to the connection in more
// than one Write; what TCP delivers of a message in flight when the connection dies is not corebgp's doing.
// A fragment followed by other bytes, or cut by corebgp's own Close while the peer still listens, is.)
func cutByPeer(c *vnet.Conn, rest []byte) bool {
	return c.RstCutAt == len(c.Sent) && fragmentOfOneWriter(c, rest)
}

// fragmentOfOneWriter: the trailing fragment is the beginning of one message written by one goroutine.
func fragmentOfOneWriter(c *vnet.Conn, rest []byte) bool {
	if len(rest) == 0 {
		return false
	}
	for i := 0; i < len(rest) && i < 16; i++ {
		if rest[i] != 0xff {
			return false
		}
	}
	n, g := 0, ""
	for i := len(c.Chunks) - 1; i >= 0 && n < len(rest); i-- {
		if g != "" && c.Chunks[i].G != g {
			return false
		}
		g = c.Chunks[i].G
		n += len(c.Chunks[i].B)
	}
	return true
}

func c04Judge(p c04Params, w *world.World, e *vrt.Exec, o *c04Obs) (string, string) {
	// which connection carries which session
	sessConn := map[int]*vnet.Conn{}
	type upd struct {
		body []byte
		pos  int
	}
	connUpd := map[int][]upd{}
	for _, c := range w.NW.Conns {
		if !c.Lib {
			continue
		}
		ms, rest, err := wire.ParseStrict(c.Sent)
		if err != nil {
			return "malformed-output", fmt.Sprintf("%s: bytes written by corebgp are not a sequence of well-formed messages: %v", c, err)
		}
		if len(rest) > 0 && !cutByPeer(c, rest) && !p.tailCut && !(vnet.OpaqueDefault && fragmentOfOneWriter(c, rest)) {
			// (on an opaque connection a tree may need two Writes per message; its own Close between them - on
			// a session that is ending anyway - is not judged there, the interleaving with another writer is)
			return "partial-message", fmt.Sprintf("%s: the byte stream written by corebgp ends inside a message (%d stray bytes)", c, len(rest))
		}
		for i, m := range ms {
			if m.Type != wire.TypeUpdate {
				continue
			}
			if s, ok := world.IsMarker(m.Body); ok {
				sessConn[s] = c
				continue
			}
			connUpd[c.ID] = append(connUpd[c.ID], upd{m.Body, i})
		}
	}
	// OnClose.enter per session
	closeSeq := map[int]int{}
	for _, ev := range w.Log {
		if ev.Kind == "OnClose" && ev.Phase == "enter" {
			closeSeq[ev.Session] = ev.Seq
		}
	}
	used := map[int][]bool{}
	for id, us := range connUpd {
		used[id] = make([]bool, len(us))
	}
	lastPos := map[string]int{}
	for _, c := range o.calls {
		if !c.done {
			return "writeupdate-blocked", fmt.Sprintf("WriteUpdate called by %s (session %d, %d bytes) never returned", c.g, c.session, len(c.body))
		}
		if cs, ok := closeSeq[c.session]; ok && c.startSeq > cs && c.err == nil {
			return "write-after-close-succeeded", fmt.Sprintf("WriteUpdate started at #%d, after OnClose of session %d began at #%d, and returned nil", c.startSeq, c.session, cs)
		}
		conn := sessConn[c.session]
		// the body must not appear on any other connection
		n := 0
		pos := -1
		if conn != nil {
			for i, u := range connUpd[conn.ID] {
				if !used[conn.ID][i] && bytes.Equal(u.body, c.body) {
					// take the first unused occurrence
					if pos < 0 {
						pos = u.pos
						used[conn.ID][i] = true
					}
					n++
				}
			}
		}
		if c.err == nil && pos < 0 {
			return "successful-write-missing", fmt.Sprintf("WriteUpdate(%d bytes %x..) by %s returned nil but the UPDATE is not on the session's connection", len(c.body), trunc(c.body), c.g)
		}
		if c.err == nil {
			key := fmt.Sprintf("%s/%d", c.g, c.session)
			if lp, ok := lastPos[key]; ok && pos < lp {
				return "write-order", fmt.Sprintf("successive WriteUpdate calls of %s appear out of order on the wire", c.g)
			}
			lastPos[key] = pos
		}
	}
	if p.event == "hdr-fault" {
		// the NOTIFICATION answering the fault is on the first connection, whole and exactly once
		n := 0
		for _, c := range w.NW.Conns {
			if !c.Lib {
				continue
			}
			for _, m := range libFrames(c.Sent) {
				if m.Type == wire.TypeNotification {
					if code, sub, _ := m.Notif(); code == 1 && sub == 1 {
						n++
					}
				}
			}
		}
		if n != 1 {
			return "notification-count", fmt.Sprintf("a corrupted marker was received while plugin goroutines were writing: %d intact (1,1) NOTIFICATIONs on the wire, expected exactly one", n)
		}
	}
	// every UPDATE on the wire is explained by a call (markers excluded)
	for id, us := range connUpd {
		for i, u := range us {
			if !used[id][i] {
				// it may stem from a failed call (at most once): find an unexplained failed call with this body
				return "unexplained-update", fmt.Sprintf("conn%d carries an UPDATE (%d bytes %x..) that no WriteUpdate call of its session explains (duplicate or cross-connection write)", id, len(u.body), trunc(u.body))
			}
		}
	}
	return monitorCallbacks(w)
}

func c04Scn(p c04Params, bound int) *Scn { return c04ScnFor("C04", p, bound) }

func c04ScnFor(prop string, p c04Params, bound int) *Scn {
	return &Scn{Name: p.name(), Bound: bound, Run: func(ch vrt.Chooser, trace bool) *ScnResult {
		w, e, o := c04Run(p, ch, trace)
		return finishRun(prop, "writers", w, e, trace, true, func() (string, string) { return c04Judge(p, w, e, o) }, nil)
	}}
}

// c04JoinParams are the scenarios in which the plugin's OnClose waits for its writers (also run by C05:
// a plugin that couples its callbacks must not be able to wedge the peer).
// c04FaultParams: a header fault arrives while plugin goroutines are inside WriteUpdate (also run by C08:
// the NOTIFICATION must reach the wire as a message).
func c04FaultParams() []c04Params {
	return []c04Params{{mode: "free1", event: "hdr-fault", hold: 9}, {mode: "free2", event: "hdr-fault", hold: 9}}
}

func c04JoinParams() []c04Params {
	var out []c04Params
	for _, ev := range []string{"fin", "notif-rx", "handler-notif", "close"} {
		out = append(out, c04Params{mode: "free1", event: ev, hold: 9, join: true})
	}
	return out
}

// c04StallRun: back-pressure. The remote keeps sending KEEPALIVEs but stops READING for 10 virtual
// seconds (window 16 KiB per direction) while two goroutines write 4077-byte UPDATEs; then it reads
// everything. Every byte corebgp wrote must still parse as complete messages and match the calls.
func c04StallRun(ch vrt.Chooser, trace bool) (*world.World, *vrt.Exec, *c04Obs) {
	var w *world.World
	o := &c04Obs{}
	e := vrt.Run(vrt.Config{Horizon: int64(40 * time.Second), Race: true, Trace: trace, Chooser: ch, MaxSteps: 400000}, func() {
		w = world.New(libIP)
		w.NW.Window = 17000 // not a multiple of the message size: a blocked write is always in the middle of a frame
		w.NewServer(libIP)
		write := func(wr corebgp.UpdateMessageWriter, session int, body []byte) bool {
			c := &c04Call{g: vrt.Cur().Self().Name(), session: session, body: body}
			o.calls = append(o.calls, c)
			c.startSeq = w.Append(world.Event{Kind: "write", Phase: "call", Peer: "P1", Session: session, Conn: -1})
			c.err = wr.WriteUpdate(body)
			c.done = true
			c.endSeq = w.Append(world.Event{Kind: "write", Phase: "return", Peer: "P1", Session: session, Conn: -1, Err: fmt.Sprint(c.err)})
			return c.err == nil
		}
		pl := &world.Plugin{W: w, Peer: "P1", Marker: true, NoYield: ch == nil}
		pl.OnEst = func(pp *world.Plugin, s int, wr corebgp.UpdateMessageWriter) {
			for i := 0; i < 2; i++ {
				i := i
				vrt.GoWorld(fmt.Sprintf("writer%d", i), func() {
					vrt.Sleep(500 * time.Millisecond)
					for n := 0; n < 12; n++ {
						b := bytes.Repeat([]byte{byte(0x41 + i)}, 4077)
						b[0], b[1], b[2] = 'S', byte('0'+i), byte(n)
						if !write(wr, s, b) {
							return
						}
					}
				})
			}
		}
		w.NW.OnDial(remAddr, func(att int, from *net.TCPAddr) vnet.DialOutcome {
			if att > 0 {
				return vnet.DialOutcome{Kind: vnet.DialRefuse}
			}
			return vnet.DialOutcome{Kind: vnet.DialAccept, Serve: func(c *vnet.Conn) {
				r := w.NewRemote(c, "P1")
				defer r.Finish()
				if !reach(r, stEstablished, 65002, 9) {
					return
				}
				// keep the session alive without reading
				vrt.GoWorld("remote-ka", func() {
					for i := 0; i < 14; i++ {
						vrt.Sleep(time.Second)
						if r.C.IsClosed() || r.C.IsReset() || r.C.PeerClosed() {
							return
						}
						r.C.Write(wire.Keepalive())
					}
				})
				vrt.Sleep(10 * time.Second)
				r.Deadline(5 * time.Second)
				r.Drain()
			}}
		})
		if err := w.Server.AddPeer(peerConfig(remIP, 65001, 65002), pl, corebgp.WithHoldTime(9), corebgp.WithDialerControl(w.DialControl("P1"))); err != nil {
			panic("harness: " + err.Error())
		}
		w.Serve(libAddr)
		vrt.Sleep(20 * time.Second)
		w.Close()
		w.WaitServeDone()
	})
	return w, e, o
}

// c04StallEventScn: back-pressure plus an end of session that is the peer's doing. After the handshake the
// remote stops reading (window 17000 octets) while two plugin goroutines write 4077-octet UPDATEs until they
// block inside WriteUpdate; 3 s in, the remote sends a NOTIFICATION / closes / resets (corebgp has nothing to
// write in answer, so D16 does not apply). The session must end all the same: OnClose within a second, the
// blocked callers released with an error, the connection closed, and Close returns. Run by C04 (WriteUpdate
// contract at teardown), C05 (no wedge) and C09 (reaction to a NOTIFICATION / end of stream in Established).
func c04StallEventScn(prop, event string, bound int) *Scn {
	name := "stalled-writer/" + event
	return &Scn{Name: name, Bound: bound, Run: func(ch vrt.Chooser, trace bool) *ScnResult {
		var w *world.World
		o := &c04Obs{}
		closedInTime, released := false, false
		nWriters, nDone := 2, 0
		e := vrt.Run(vrt.Config{Horizon: int64(40 * time.Second), Race: true, Trace: trace, Chooser: ch, MaxSteps: 400000}, func() {
			w = world.New(libIP)
			w.NW.Window = 17000
			w.NewServer(libIP)
			pl := &world.Plugin{W: w, Peer: "P1", Marker: true, NoYield: ch == nil}
			pl.OnEst = func(pp *world.Plugin, s int, wr corebgp.UpdateMessageWriter) {
				if s != 1 {
					return
				}
				for i := 0; i < nWriters; i++ {
					i := i
					vrt.GoWorld(fmt.Sprintf("writer%d", i), func() {
						vrt.Sleep(500 * time.Millisecond)
						for n := 0; n < 12; n++ {
							b := bytes.Repeat([]byte{byte(0x41 + i)}, 4077)
							b[0], b[1], b[2] = 'S', byte('0'+i), byte(n)
							c := &c04Call{g: vrt.Cur().Self().Name(), session: s, body: b}
							o.calls = append(o.calls, c)
							c.startSeq = w.Append(world.Event{Kind: "write", Phase: "call", Peer: "P1", Session: s, Conn: -1})
							c.err = wr.WriteUpdate(b)
							c.done = true
							c.endSeq = w.Append(world.Event{Kind: "write", Phase: "return", Peer: "P1", Session: s, Conn: -1, Err: fmt.Sprint(c.err)})
							if c.err != nil {
								break
							}
						}
						nDone++
						w.Note("writer", "done")
					})
				}
			}
			w.NW.OnDial(remAddr, func(att int, from *net.TCPAddr) vnet.DialOutcome {
				if att > 0 {
					return vnet.DialOutcome{Kind: vnet.DialRefuse}
				}
				return vnet.DialOutcome{Kind: vnet.DialAccept, Serve: func(c *vnet.Conn) {
					r := w.NewRemote(c, "P1")
					defer r.Finish()
					if !reach(r, stEstablished, 65002, 90) {
						return
					}
					vrt.Sleep(3 * time.Second) // not reading: the writers fill the window and block
					switch event {
					case "notif-rx":
						r.C.Write(wire.Notification(6, 2, nil))
					case "fin":
						r.C.Close()
						return
					case "rst":
						r.C.Reset()
						return
					}
					w.WaitFlag("judged")
				}}
			})
			if err := w.Server.AddPeer(peerConfig(remIP, 65001, 65002), pl, corebgp.WithHoldTime(90), corebgp.WithDialerControl(w.DialControl("P1"))); err != nil {
				panic("harness: " + err.Error())
			}
			w.Serve(libAddr)
			vrt.Sleep(4 * time.Second) // one second after the event
			closedInTime = w.Count("OnClose", "exit", "P1") >= 1
			released = nDone == nWriters
			for _, c := range w.NW.Conns {
				if c.Lib && c.ID == 0 && !c.IsClosed() {
					closedInTime = false
				}
			}
			w.SetFlag("judged")
			w.Close()
			w.WaitServeDone()
		})
		return finishRun(prop, "stalled-writer", w, e, trace, true, func() (string, string) {
			if w.Count("OnEstablished", "exit", "P1") == 0 {
				return "", "" // the session never came up on this schedule
			}
			if !closedInTime {
				return "teardown-incomplete", fmt.Sprintf("the peer ended the session (%s) while plugin goroutines were blocked in WriteUpdate behind a full window: one second later the connection is not closed or OnClose has not returned", event)
			}
			if !released {
				return "writer-not-released", fmt.Sprintf("the peer ended the session (%s): one second later a WriteUpdate call that was blocked behind the full window has still not returned", event)
			}
			return c04Judge(c04Params{mode: "free2", event: "none", hold: 90, tailCut: true}, w, e, o)
		}, nil)
	}}
}

var c04StallEvents = []string{"notif-rx", "fin", "rst"}

func c04StallEventLookup(prop, name string) *Scn {
	for _, ev := range c04StallEvents {
		if name == "stalled-writer/"+ev {
			return c04StallEventScn(prop, ev, 2)
		}
	}
	return nil
}

func c04Scenarios(th bool) []*Scn {
	var out []*Scn
	out = append(out, &Scn{Name: "stalled-reader/hold9", Bound: 1, Run: func(ch vrt.Chooser, trace bool) *ScnResult {
		w, e, o := c04StallRun(ch, trace)
		return finishRun("C04", "stalled-reader", w, e, trace, true, func() (string, string) { return c04Judge(c04Params{mode: "free2", event: "none", hold: 9}, w, e, o) }, nil)
	}})
	for _, ev := range c04StallEvents {
		out = append(out, c04StallEventScn("C04", ev, 1))
	}
	tp := 2
	if th {
		tp = 3
	}
	out = append(out, &Scn{Name: "two-peers/hold9", Bound: tp, Run: func(ch vrt.Chooser, trace bool) *ScnResult {
		w, e, ok := c04TwoPeersRun(ch, trace)
		return finishRun("C04", "two-peers", w, e, trace, true, func() (string, string) { return c04TwoPeersJudge(w, ok) }, nil)
	}})
	bound := 2
	if th {
		bound = 3
	}
	for _, mode := range []string{"onest", "handler", "free1", "free2", "free3"} {
		for _, ev := range []string{"none", "fin", "notif-rx", "handler-notif", "close", "rst", "hdr-fault"} {
			for _, hold := range []int{9, 0} {
				if hold == 0 && !th && ev != "none" && ev != "close" {
					continue
				}
				b := bound
				if mode == "free3" {
					b = bound - 1
				}
				if th && (mode == "free1" || mode == "free2") && hold == 9 {
					b = bound + 1
				}
				if !th && mode == "free1" && hold == 9 && (ev == "hdr-fault" || ev == "notif-rx") {
					// corebgp writes (a NOTIFICATION) or closes by itself while a plugin goroutine is inside
					// WriteUpdate: a message handed over in two Writes shows between them, one delay deeper
					b = bound + 1
				}
				out = append(out, c04Scn(c04Params{mode: mode, event: ev, hold: hold}, b))
				if (mode == "free1" || mode == "free2") && ev != "none" && hold == 9 {
					out = append(out, c04Scn(c04Params{mode: mode, event: ev, hold: hold, join: true}, bound))
				}
			}
		}
	}
	return out
}

func init() {
	harness.Register(&harness.Check{
		Property: "C04", Level: "model_checking", NeedsConc: true, QuickS: 200, ThoroughS: 1500,
		Rule:   "stateless model checking of the real (rewritten) corebgp: WriteUpdate called from inside OnEstablished, from inside the handler and from 1-3 free goroutines (bodies of 0, 1, 23, 4077 bytes) whose writes coincide in virtual time with the keepalive timer (hold 9 s) and with one of {nothing, remote FIN, received NOTIFICATION, handler-returned NOTIFICATION, Close, an UPDATE followed by RST (writes from inside the handler then fail and must report it)}; after a teardown corebgp reconnects and the old writers are used again; variants in which OnClose joins the writers' pending calls; two peers Established at once, each with a writer; all schedules within the delay bound (2 quick / 3 thorough; 3 writers: one less); strict frame parser over every byte corebgp wrote per connection, multiset/ordering comparison with the WriteUpdate return values, race detector on; plus a stalled-reader scenario on a network with a bounded window (blocked and timed-out writes: whatever is on the wire must still be whole messages and the session must end); distinct_nontrivial = distinct observable outcomes",
		Assume: []string{"delay-bounded schedules", "virtual network (A3): net.Conn.Write is atomic with respect to concurrent writers (true for *net.TCPConn)", "race detector scope A5"},
		Run: func(c *harness.Ctx) {
			base := c04Scenarios(c.Thorough())
			scns := withLegacy(base, legacyEvery(c.Thorough(), 3))
			for i, s := range base {
				// connections that are not *net.TCPConn: every free-writer scenario in thorough, the ones in
				// which corebgp itself writes at the same time in quick
				if strings.HasPrefix(s.Name, "free") && (c.Thorough() || i%2 == 0 || strings.Contains(s.Name, "hdr-fault") || strings.Contains(s.Name, "/none/")) {
					scns = append(scns, opaqueTwin(s))
				}
			}
			for i, s := range scns {
				if !c.Mine(i) {
					continue
				}
				if c.Expired() {
					return
				}
				if !exploreScn(c, "C04", s) {
					return
				}
			}
		},
		Replay: scnReplay("C04", func(name string) *Scn {
			for _, s := range c04Scenarios(true) {
				if s.Name == name {
					return s
				}
			}
			return nil
		}),
	})
}

// c04TwoPeersRun: two peers (P1 active, P2 passive) are Established at the same time and each has a
// goroutine writing UPDATEs at the instant the keepalive timers fire: nothing of one peer's traffic may
// show up on, or damage, the other peer's connection (state shared between sessions at package scope).
func c04TwoPeersRun(ch vrt.Chooser, trace bool) (*world.World, *vrt.Exec, map[string][][]byte) {
	var w *world.World
	okWrites := map[string][][]byte{}
	e := vrt.Run(vrt.Config{Horizon: int64(14 * time.Second), Race: true, Trace: trace, Chooser: ch}, func() {
		w = world.New(libIP)
		w.NewServer(libIP)
		mk := func(peer string) *world.Plugin {
			pl := &world.Plugin{W: w, Peer: peer, Marker: true}
			pl.OnEst = func(pp *world.Plugin, s int, wr corebgp.UpdateMessageWriter) {
				vrt.GoWorld("writer-"+peer, func() {
					vrt.Sleep(3 * time.Second)
					for n, l := range []int{4077, 23, 0, 1000} {
						b := bytes.Repeat([]byte{peer[1]}, l)
						if l >= 4 {
							copy(b, []byte{peer[0], peer[1], '-', byte('0' + n)})
						}
						if wr.WriteUpdate(b) == nil {
							okWrites[peer] = append(okWrites[peer], b)
						}
					}
				})
			}
			return pl
		}
		w.NW.OnDial(remAddr, func(att int, from *net.TCPAddr) vnet.DialOutcome {
			if att > 0 {
				return vnet.DialOutcome{Kind: vnet.DialRefuse}
			}
			return vnet.DialOutcome{Kind: vnet.DialAccept, Serve: func(c *vnet.Conn) {
				r := w.NewRemote(c, "P1")
				defer r.Finish()
				if !reach(r, stEstablished, 65002, 9) {
					return
				}
				r.Deadline(0)
				r.Drain()
			}}
		})
		if err := w.Server.AddPeer(peerConfig(remIP, 65001, 65002), mk("P1"), corebgp.WithHoldTime(9), corebgp.WithDialerControl(w.DialControl("P1"))); err != nil {
			panic("harness: " + err.Error())
		}
		if err := w.Server.AddPeer(peerConfig(remIP2, 65001, 65003), mk("P2"), corebgp.WithHoldTime(9), corebgp.WithPassive()); err != nil {
			panic("harness: " + err.Error())
		}
		w.Serve(libAddr)
		vrt.GoWorld("remote-p2", func() {
			c, err := w.NW.DialIn("10.0.0.3:40002", libAddr)
			if err != nil {
				return
			}
			r := w.NewRemote(c, "P2")
			defer r.Finish()
			if !reach(r, stEstablished, 65003, 9) {
				return
			}
			r.Deadline(0)
			r.Drain()
		})
		vrt.Sleep(7 * time.Second)
		w.Close()
		w.WaitServeDone()
	})
	return w, e, okWrites
}

func c04TwoPeersJudge(w *world.World, okWrites map[string][][]byte) (string, string) {
	seen := map[string]map[string]int{"P1": {}, "P2": {}}
	for _, c := range w.NW.Conns {
		if !c.Lib {
			continue
		}
		host, _, _ := net.SplitHostPort(c.RemoteAddr().String())
		peer := peerNameOf(host)
		ms, rest, err := wire.ParseStrict(c.Sent)
		if err != nil {
			return "malformed-output", fmt.Sprintf("%s (%s): bytes written by corebgp are not a sequence of well-formed messages: %v", c, peer, err)
		}
		if len(rest) > 0 && !cutByPeer(c, rest) {
			return "partial-message", fmt.Sprintf("%s (%s): the byte stream ends inside a message (%d stray bytes)", c, peer, len(rest))
		}
		for _, m := range ms {
			if m.Type != wire.TypeUpdate {
				continue
			}
			if _, isMarker := world.IsMarker(m.Body); isMarker {
				continue
			}
			if len(m.Body) >= 2 && string(m.Body[:2]) != peer && (m.Body[0] == 'P') {
				return "update-on-wrong-peer", fmt.Sprintf("%s belongs to %s but carries an UPDATE written for %s (%x..)", c, peer, m.Body[:2], trunc(m.Body))
			}
			if seen[peer] != nil {
				seen[peer][string(m.Body)]++
			}
		}
	}
	for peer, bodies := range okWrites {
		for _, b := range bodies {
			if n := seen[peer][string(b)]; n != 1 {
				return "successful-write-missing", fmt.Sprintf("a WriteUpdate of %s (%d bytes %x..) returned nil but the body is on its connection %d times", peer, len(b), trunc(b), n)
			}
		}
		if len(bodies) != 4 {
			return "write-failed", fmt.Sprintf("%s: %d of 4 writes on a healthy session succeeded", peer, len(bodies))
		}
	}
	return monitorCallbacks(w)
}
