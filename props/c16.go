package props

import (
	"encoding/json"
	"fmt"

	"corebgpverif/harness"
	"corebgpverif/refmodel"
)

// C16: UpdateDecoder partitions an UPDATE exactly as its length fields
// dictate. Every generated body is decoded with recording callbacks that
// return nil; the recorded invocations are compared with the partition the
// independent reference (refmodel.PartitionUpdate) computes.

type c16Runner struct {
	rec       *updRec
	p         refmodel.UpdatePartition
	got, want []updEv
	dcMP      int // cases accepted through the repeated-MP-overrun alternative
}

// repeatedMPOverrunMayAbort: an attribute whose header or value runs past the attribute block whose
// type octet repeats an MP attribute. The overrun sentence of the property is unconditional ("ends
// attribute iteration but the NLRI is still delivered") and an attribute that is not delimited inside
// the block is not an "occurrence" that could be "repeated", so the abort reading is NOT accepted
// (it was, as a DON'T-CARE, until a seeded change that swapped the two checks slipped through).
const repeatedMPOverrunMayAbort = false

func newC16Runner() *c16Runner { return &c16Runner{rec: newUpdRec()} }

// judge decodes body and returns the aspect of a disagreement ("" if none).
func (r *c16Runner) judge(body []byte) (aspect, msg string) {
	refmodel.PartitionUpdate(body, &r.p)
	_, pan := r.rec.run(body, nil)
	r.want = updExpected(&r.p, r.want)
	r.got = r.rec.normalised(r.got)
	if pan != nil {
		// bodies above 65535 bytes are a region of their own in the
		// property's quantifier (16-bit arithmetic); keep the signatures apart
		if len(body) > 0xffff {
			return "panic", fmt.Sprintf("Decode panicked on a %d byte body: %v", len(body), pan)
		}
		return "panic-below-64k", fmt.Sprintf("Decode panicked on a %d byte body: %v", len(body), pan)
	}
	aspect, msg = updDiff(&r.p, r.got, r.want, false)
	if aspect != "" && r.p.OverrunIsRepeatedMP && repeatedMPOverrunMayAbort {
		alt := r.p.AltRepeatedMP()
		if a, _ := updDiff(alt, r.got, updExpected(alt, nil), false); a == "" {
			r.dcMP++
			return "", ""
		}
	}
	return aspect, msg
}

func (r *c16Runner) describe() map[string]any {
	var got, want []string
	for _, e := range r.got {
		got = append(got, e.String())
	}
	for _, e := range r.want {
		want = append(want, e.String())
	}
	return map[string]any{"reference_fault": r.p.Fault.String(), "reference_calls": want, "recorded_calls": got,
		"suppressed_duplicates": r.p.Suppressed, "attribute_overrun": r.p.Overrun, "repeated_mp": r.p.RepeatedMP}
}

// c16Params are the grammar sizes of a tier.
func c16Params(th bool) (shortLen int, seqs [][]updAttrSpec, padSeqs [][]updAttrSpec) {
	if th {
		return 9, updAttrSeqs(4, 2, []int{1, 7}), updAttrSeqs(1, 1, nil)
	}
	return 7, updAttrSeqs(3, 1, []int{1}), updAttrSeqs(1, 1, nil)
}

func c16Check(c *harness.Ctx) {
	r := newC16Runner()
	shortLen, seqs, padSeqs := c16Params(c.Thorough())
	var nBodies4077, nBodiesBig, nGrammarBodies, nShortStrings, nShortStringsFrameConsistent int
	report := func(set string, body []byte, big *updBig, aspect, msg string) {
		if aspect == "" {
			return
		}
		rep := map[string]any{"input": updInputOf(body, big, nil), "set": set, "detail": r.describe()}
		c.Violation("partition", "C16:"+aspect, msg, rep)
	}
	defer func() {
		c.Res.Extra["bodies_4077"] = float64(nBodies4077)
		c.Res.Extra["bodies_big"] = float64(nBodiesBig)
		c.Res.Extra["grammar_bodies"] = float64(nGrammarBodies)
		c.Res.Extra["short_strings"] = float64(nShortStrings)
		c.Res.Extra["short_strings_frame_consistent"] = float64(nShortStringsFrameConsistent)
		c.Res.Extra["dont_care_repeated_mp_overrun"] = float64(r.dcMP)
	}()

	// set 2: grammar x length-field mutations, sharded on the attribute sequence
	var buf []byte
	full := updGrammarOpts{ws: []int{0, 1, 2, 3}, ns: []int{0, 1, 2}, tails: []int{0, 1, 2, 3, 4, 5, 6}}
	mut := updGrammarOpts{ws: []int{0, 2}, ns: []int{0, 1}, tails: []int{0, 6}, mutate: true}
	idx := 0
	for _, seq := range seqs {
		idx++
		if !c.Mine(idx) {
			continue
		}
		if c.Expired() {
			return
		}
		for _, o := range []updGrammarOpts{full, mut} {
			updGrammar(seq, o, &buf, func(body []byte) {
				aspect, msg := r.judge(body)
				nGrammarBodies++
				c.Eval(body, r.p.Fault == refmodel.UpdOK)
				if nGrammarBodies%200003 == 1 {
					c.Sample(map[string]any{"input": updInputOf(body, nil, nil), "detail": r.describe()})
				}
				report("grammar", body, nil, aspect, msg)
			})
		}
	}

	// set 3: bodies of the maximum UPDATE body size 4077
	for _, seq := range padSeqs {
		idx++
		if !c.Mine(idx) {
			continue
		}
		if c.Expired() {
			return
		}
		updPadded(seq, 4077, &buf, func(body []byte) {
			aspect, msg := r.judge(body)
			nBodies4077++
			c.Eval(body, r.p.Fault == refmodel.UpdOK)
			report("4077", body, nil, aspect, msg)
		})
	}

	// set 4: length-field boundary values x body sizes up to beyond 65535
	forEachUpdBig(func(g updBig) {
		idx++
		if !c.Mine(idx) || c.Expired() {
			return
		}
		body := g.body()
		aspect, msg := r.judge(body)
		nBodiesBig++
		c.Eval(body, r.p.Fault == refmodel.UpdOK)
		report("big", nil, &g, aspect, msg)
	})

	// set 5: one decoder, two messages at once. While the decoder is inside the k-th callback of an outer
	// body, the callback decodes an inner body with the SAME decoder (what two sessions sharing a plugin's
	// decoder do when their handlers overlap, and what a nested decode does); both partitions must be
	// what they are alone.
	if c.Mine(idx + 1) {
		var pool [][]byte
		n := 0
		for _, seq := range seqs {
			updGrammar(seq, full, &buf, func(body []byte) {
				n++
				if n%977 == 1 && len(pool) < 48 {
					pool = append(pool, append([]byte{}, body...))
				}
			})
		}
		inner := newUpdRec()
		inner.dec = r.rec.dec
		var innerWant, innerGot []updEv
		var ip refmodel.UpdatePartition
		for oi, outer := range pool {
			for ii, in := range pool {
				for k := 0; k < 4; k++ {
					if c.Expired() {
						return
					}
					var inAspect, inMsg string
					r.rec.reenter = func(i int) {
						if i != k {
							return
						}
						refmodel.PartitionUpdate(in, &ip)
						_, pan := inner.run(in, nil)
						innerWant = updExpected(&ip, innerWant)
						innerGot = inner.normalised(innerGot)
						if pan != nil {
							inAspect, inMsg = "panic-below-64k", fmt.Sprintf("nested Decode panicked: %v", pan)
						} else {
							inAspect, inMsg = updDiff(&ip, innerGot, innerWant, false)
						}
					}
					aspect, msg := r.judge(outer)
					r.rec.reenter = nil
					c.Eval([]byte(fmt.Sprintf("nested/%d/%d/%d", oi, ii, k)), true)
					if aspect == "" && inAspect != "" {
						aspect, msg = inAspect, "inner message: "+inMsg
					}
					if aspect != "" {
						rep := map[string]any{"input": updInputOf(outer, nil, nil), "nested_input": updInputOf(in, nil, nil), "nested_at_call": k, "set": "nested", "detail": r.describe()}
						c.Violation("partition", "C16:nested:"+aspect, fmt.Sprintf("with a second message decoded by the same decoder inside callback %d: %s", k, msg), rep)
					}
				}
			}
		}
	}

	// set 1: all short strings (the largest set, hence last); only the
	// frame-consistent ones are hashed
	updShort(c, shortLen, func(b []byte) {
		aspect, msg := r.judge(b)
		nShortStrings++
		if r.p.Fault == refmodel.UpdOK {
			c.Eval(b, true)
			nShortStringsFrameConsistent++
			if nShortStringsFrameConsistent%20011 == 1 {
				c.Sample(map[string]any{"input": updInputOf(b, nil, nil), "detail": r.describe()})
			}
		} else {
			c.Res.Evaluations++
		}
		report("short", b, nil, aspect, msg)
	})
}

func init() {
	harness.Register(&harness.Check{
		Property:  "C16",
		Level:     "exploration",
		NeedsConc: false,
		QuickS:    60, ThoroughS: 420,
		Rule: "UpdateDecoder.Decode (public API, recording callbacks returning nil) vs an independent RFC 4271 4.3 / RFC 7606 partitioner on: " +
			"(1) every byte string of length <= 7 (thorough <= 9) over {00,01,02,03,04,0e,0f,10,40,80,90,ff}; " +
			"(2) grammar bodies: every type sequence of <= 3 (thorough <= 4) attributes over types {1,2,3,14,15,99} with (flags,value length) from {40,80,c0}x{0,1,4,255} u {90,50}x{0,1,4,255,256} " +
			"(all shape assignments for sequences of <= 1 (thorough <= 2) attributes, rotating assignments beyond), x withdrawn {0,1,3,5 bytes} x NLRI {0,2,5 bytes} x attribute-block tail {exact, 1-3 stray bytes, value overrun, last byte cut}, " +
			"plus for withdrawn {0,3} x NLRI {0,2} x tail {exact, cut} every combination of both 16-bit length fields mutated by -1,+1,0,0xFFFF; " +
			"(3) bodies of exactly 4077 bytes (bulk in withdrawn / one extended-length attribute / NLRI, exact and overrunning lengths); " +
			"(4) (withdrawn length, attribute length) in {0,1,2,255,256,4073,4077,0x7FFF,0xFFFD,0xFFFE,0xFFFF}^2 x body sizes {4, exact, exact+-1, 4077, 65535, 65536, 65537, 65540, 70000} x two fills. " +
			"distinct = distinct body; non-trivial = the body is frame-consistent per the reference (at least the section boundaries exist, callbacks are expected)",
		Assume: []string{
			"normalisation: an invocation of the withdrawn or NLRI callback with an empty slice is equated with no invocation; attribute callbacks are compared strictly",
			"three-valued: when the attribute that overruns the attribute block carries the type code of an MP attribute that already occurred, both readings (overrun: NLRI delivered; repeated MP: abort) are accepted",
			"a panic of Decode is a violation; signature C16:panic for bodies above 65535 bytes, C16:panic-below-64k otherwise",
		},
		Run: c16Check,
		Replay: func(c *harness.Ctx, raw json.RawMessage) {
			var rep struct {
				Input  updInput  `json:"input"`
				Nested *updInput `json:"nested_input"`
				At     int       `json:"nested_at_call"`
			}
			if err := json.Unmarshal(raw, &rep); err != nil {
				panic(err)
			}
			r := newC16Runner()
			body := rep.Input.body()
			if rep.Nested != nil {
				in := rep.Nested.body()
				inner := newUpdRec()
				inner.dec = r.rec.dec
				var ip refmodel.UpdatePartition
				inAspect, inMsg := "", ""
				r.rec.reenter = func(i int) {
					if i != rep.At {
						return
					}
					refmodel.PartitionUpdate(in, &ip)
					if _, pan := inner.run(in, nil); pan != nil {
						inAspect, inMsg = "panic-below-64k", fmt.Sprintf("nested Decode panicked: %v", pan)
					} else {
						inAspect, inMsg = updDiff(&ip, inner.normalised(nil), updExpected(&ip, nil), false)
					}
				}
				aspect, msg := r.judge(body)
				if aspect == "" && inAspect != "" {
					aspect, msg = inAspect, "inner message: "+inMsg
				}
				if aspect != "" {
					c.Violation("partition", "C16:nested:"+aspect, msg, map[string]any{"input": rep.Input, "nested_input": rep.Nested, "nested_at_call": rep.At, "detail": r.describe()})
				}
				return
			}
			if aspect, msg := r.judge(body); aspect != "" {
				c.Violation("partition", "C16:"+aspect, msg, map[string]any{"input": rep.Input, "detail": r.describe()})
			}
		},
	})
}
