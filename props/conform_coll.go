package props

import (
	"encoding/json"
	"fmt"
	"net"
	"net/netip"
	"sync"
	"time"

	"github.com/jwhited/corebgp"

	"corebgpverif/wire"
	"corebgpverif/world"
)

// Conformance for a two-connection scenario: C07's forced collision. The remote's script removes every
// TCP-level ambiguity (it answers no OPEN before corebgp's OPEN is on both connections, sends its OPEN on
// the second connection only after corebgp's KEEPALIVE on the first, and withholds its own KEEPALIVE
// until one connection is dead), so the outcome - which connection survives, what the other receives -
// is the same on every schedule the explorer visits, and must be the same on the Go runtime over
// loopback TCP. The same script is interpreted here in real time against the unrewritten package.

// CollOutcome is what the remote observed on the two connections.
type CollOutcome struct {
	GotOpen     map[string]bool `json:"got_open"`
	GotKA       map[string]bool `json:"got_keepalive"`
	Established map[string]bool `json:"established"`
	Probe       map[string]bool `json:"probe_delivered"`
	EOF         map[string]bool `json:"closed"`
	Notif       map[string]int  `json:"notification_code"` // -1 = none
	Err         string          `json:"harness_error,omitempty"`
}

func newCollOutcome() CollOutcome {
	return CollOutcome{GotOpen: map[string]bool{"in": false, "out": false}, GotKA: map[string]bool{"in": false, "out": false},
		Established: map[string]bool{"in": false, "out": false}, Probe: map[string]bool{"in": false, "out": false},
		EOF: map[string]bool{"in": false, "out": false}, Notif: map[string]int{"in": -1, "out": -1}}
}

type collConformCase struct {
	Cfg   int    `json:"cfg"` // index into collCfgs
	First string `json:"first"`
}

func collConformCases() []collConformCase {
	var out []collConformCase
	for i := range collCfgs {
		for _, first := range []string{"in", "out"} {
			out = append(out, collConformCase{i, first})
		}
	}
	return out
}

// C07ModelCollision runs the forced-collision scenario under vrt on the default schedule.
func C07ModelCollision(cs collConformCase) CollOutcome {
	cfg := collCfgs[cs.Cfg]
	w, e, o := collRun(cfg, nil, false, false, forcedCollisionScript(cfg, cs.First), nil)
	defer e.Finish()
	_ = w
	out := newCollOutcome()
	if r, m := basicVerdict(e); r != "" {
		out.Err = r + ": " + m
		return out
	}
	for _, d := range []string{"in", "out"} {
		out.GotOpen[d], out.GotKA[d], out.Established[d], out.Probe[d], out.EOF[d] = o.gotOpen[d], o.gotKA[d], o.established[d], o.probe[d], o.eof[d]
		if n := o.notif[d]; n != nil {
			c, _, _ := n.Notif()
			out.Notif[d] = int(c)
		}
	}
	return out
}

// C07RealCollision interprets the same script in real time against the unrewritten package.
func C07RealCollision(cs collConformCase) (out CollOutcome) {
	out = newCollOutcome()
	cfg := collCfgs[cs.Cfg]
	realSeq.Lock()
	realSeq.n++
	seq := realSeq.n
	realSeq.Unlock()
	remIP := netip.AddrFrom4([4]byte{127, byte(1 + seq/250%250), byte(1 + seq%250), 4})
	srv, err := corebgp.NewServer(netip.MustParseAddr(ip4(cfg.localID)))
	if err != nil {
		out.Err = err.Error()
		return
	}
	pl := &realPlugin{}
	lis, err := net.Listen("tcp", "127.0.0.1:0")
	if err != nil {
		out.Err = err.Error()
		return
	}
	remLis, err := net.Listen("tcp", net.JoinHostPort(remIP.String(), "0"))
	if err != nil {
		lis.Close()
		out.Err = err.Error()
		return
	}
	defer remLis.Close()
	if err := srv.AddPeer(corebgp.PeerConfig{RemoteAddress: remIP, LocalAS: cfg.localAS, RemoteAS: cfg.remoteAS}, pl,
		corebgp.WithPort(remLis.Addr().(*net.TCPAddr).Port)); err != nil {
		lis.Close()
		out.Err = err.Error()
		return
	}
	served := make(chan error, 1)
	go func() { served <- srv.Serve([]net.Listener{lis}) }()
	defer func() {
		srv.Close()
		select {
		case <-served:
		case <-time.After(10 * time.Second):
			out.Err = "Serve did not return within 10 s of Close"
		}
	}()
	var mu sync.Mutex
	flags := map[string]chan struct{}{}
	flag := func(name string) chan struct{} {
		mu.Lock()
		defer mu.Unlock()
		if flags[name] == nil {
			flags[name] = make(chan struct{})
		}
		return flags[name]
	}
	set := func(name string) {
		c := flag(name)
		mu.Lock()
		defer mu.Unlock()
		select {
		case <-c:
		default:
			close(c)
		}
	}
	isSet := func(name string) bool {
		select {
		case <-flag(name):
			return true
		default:
			return false
		}
	}
	wait := func(name string) bool {
		select {
		case <-flag(name):
			return true
		case <-time.After(8 * time.Second):
			return false
		}
	}
	first := cs.First
	script := func(conn net.Conn, dir string) {
		defer conn.Close()
		other := otherDir(dir)
		r := &realRemote{c: conn}
		rec := func(f func()) { mu.Lock(); f(); mu.Unlock() }
		if _, ok := r.expect(wire.TypeOpen); !ok {
			return
		}
		rec(func() { out.GotOpen[dir] = true })
		set(dir + "-open")
		if !wait(other + "-open") {
			return
		}
		if dir != first && !wait(first+"-ka") {
			return
		}
		r.send(collOpen(cfg))
		if _, ok := r.expect(wire.TypeKeepalive); !ok {
			if n := len(r.rx); n > 0 && r.rx[n-1].Type == wire.TypeNotification {
				c, _, _ := r.rx[n-1].Notif()
				rec(func() { out.Notif[dir] = int(c) })
				r.drain(time.Second)
			}
			rec(func() { out.EOF[dir] = r.closed })
			set(dir + "-ka")
			set(dir + "-dead")
			return
		}
		rec(func() { out.GotKA[dir] = true })
		set(dir + "-ka")
		// collTail
		for round := 0; round < 3; round++ {
			r.timed = false
			m, ok := r.readMsg(time.Second)
			if ok {
				if m.Type == wire.TypeNotification {
					c, _, _ := m.Notif()
					rec(func() { out.Notif[dir] = int(c) })
					r.drain(time.Second)
					rec(func() { out.EOF[dir] = r.closed })
					set(dir + "-dead")
					return
				}
				continue
			}
			if r.closed {
				rec(func() { out.EOF[dir] = true })
				set(dir + "-dead")
				return
			}
			if isSet(other + "-dead") {
				break
			}
		}
		if !isSet(other + "-dead") {
			return // unresolved
		}
		// collComplete
		r.send(wire.Keepalive())
		for {
			r.timed = false
			m, ok := r.readMsg(2 * time.Second)
			if !ok {
				rec(func() { out.EOF[dir] = r.closed })
				return
			}
			if m.Type == wire.TypeNotification {
				c, _, _ := m.Notif()
				rec(func() { out.Notif[dir] = int(c) })
				continue
			}
			if m.Type == wire.TypeUpdate {
				if _, ok := world.IsMarker(m.Body); ok {
					rec(func() { out.Established[dir] = true })
					break
				}
			}
		}
		body := "PROBE-" + dir
		r.send(wire.Update([]byte(body)))
		for dl := time.Now().Add(5 * time.Second); time.Now().Before(dl) && !pl.hasDelivered(body); {
			time.Sleep(2 * time.Millisecond)
		}
		rec(func() { out.Probe[dir] = pl.hasDelivered(body) })
	}
	var wg sync.WaitGroup
	wg.Add(2)
	go func() {
		defer wg.Done()
		remLis.(*net.TCPListener).SetDeadline(time.Now().Add(5 * time.Second))
		conn, err := remLis.Accept()
		if err != nil {
			mu.Lock()
			out.Err = "outbound connection: " + err.Error()
			mu.Unlock()
			return
		}
		script(conn, "out")
	}()
	go func() {
		defer wg.Done()
		d := net.Dialer{LocalAddr: &net.TCPAddr{IP: net.IP(remIP.AsSlice())}, Timeout: 3 * time.Second}
		conn, err := d.Dial("tcp", lis.Addr().String())
		if err != nil {
			mu.Lock()
			out.Err = "inbound connection: " + err.Error()
			mu.Unlock()
			return
		}
		script(conn, "in")
	}()
	wg.Wait()
	return out
}

func collOutcomesAgree(model, real CollOutcome) (bool, string) {
	if model.Err != "" || real.Err != "" {
		return false, "harness error: " + model.Err + " / " + real.Err
	}
	model.Err, real.Err = "", ""
	mb, _ := json.Marshal(model)
	rb, _ := json.Marshal(real)
	if string(mb) != string(rb) {
		return false, fmt.Sprintf("outcomes differ: virtual %s, real %s", mb, rb)
	}
	return true, ""
}
