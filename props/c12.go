package props

import (
	"bytes"
	"encoding/hex"
	"encoding/json"
	"fmt"
	"net"
	"net/netip"
	"strings"
	"time"

	"github.com/jwhited/corebgp"

	"corebgpverif/harness"
	"corebgpverif/vnet"
	"corebgpverif/vrt"
	"corebgpverif/wire"
	"corebgpverif/world"
)

// C12: protocol errors damp the peer; Cease and transport faults do not.
// Histories of errors / non-damping events / elapsed time are enumerated and
// run in virtual time; the hold-down is measured through dial attempts and
// inbound probes and compared with a reference damping automaton.

type c12Elem struct {
	Kind   string `json:"kind"`
	Dir    string `json:"dir"`              // out | in
	Timing int    `json:"timing,omitempty"` // seconds since the previous protocol error (0 = as soon as possible)
}

func (e c12Elem) damping() bool {
	if strings.HasPrefix(e.Kind, "rcv6") {
		return false // a received Cease, whatever its subcode
	}
	return strings.HasPrefix(e.Kind, "sent-") || strings.HasPrefix(e.Kind, "rcv")
}

func (e c12Elem) String() string {
	s := e.Kind + "/" + e.Dir
	if e.Timing > 0 {
		s += fmt.Sprintf("/+%ds", e.Timing)
	}
	return s
}

type c12Case struct {
	Elems   []c12Elem `json:"history"`
	Passive bool      `json:"passive"`
	Legacy  bool      `json:"legacy_timers,omitempty"`
}

// refDamp is the reference damping automaton of the property text.
type refDamp struct {
	delay time.Duration
	last  int64 // time of the previous protocol error, -1 = none
}

func (r *refDamp) onError(t int64) time.Duration {
	if r.last >= 0 && t-r.last >= int64(300*time.Second) {
		r.delay = 0
	}
	r.last = t
	if r.delay > 0 {
		r.delay *= 2
		if r.delay > 300*time.Second {
			r.delay = 300 * time.Second
		}
	} else {
		r.delay = 60 * time.Second
	}
	return r.delay
}

type c12Err struct {
	elem     c12Elem
	t        int64
	delay    time.Duration
	happened bool
}

type c12Probe struct {
	t        int64
	wantOpen bool
	gotOpen  bool
	bytes    int
	eof      bool
}

type c12Obs struct {
	errs    []c12Err
	nondamp []int64 // times of non-damping events (active peers: a dial must follow soon)
	probes  []c12Probe
	finalT  int64
	resets  []int64 // times of DeletePeer+AddPeer (a fresh peer forgets the hold-down)
	setup   string  // harness-level failure description
}

func sleepUntil(t int64) {
	if d := t - vrt.Cur().Now(); d > 0 {
		vrt.Sleep(time.Duration(d))
	}
}

// c12Fault runs element el on connection r and returns the time of the
// protocol error / event (-1 if it could not be produced).
func c12Fault(w *world.World, r *world.Remote, el c12Elem) int64 {
	readNotif := func() int64 {
		r.Deadline(10 * time.Second)
		for {
			m, err := r.ReadMsg()
			if err != nil {
				return -1
			}
			if m.Type == wire.TypeNotification {
				t := vrt.Cur().Now()
				r.Drain()
				return t
			}
		}
	}
	switch {
	case el.Kind == "sent-badopen":
		if _, ok := r.Expect(wire.TypeOpen); !ok {
			return -1
		}
		r.Send(wire.Open(64999, 90, 0x0a000002))
		return readNotif()
	case el.Kind == "sent-plugin-rst":
		// the plugin refuses a valid OPEN with a NOTIFICATION, but the connection is reset (RST) while the
		// callback runs, so the NOTIFICATION can no longer be written: the protocol error happened all the same
		if _, ok := r.Expect(wire.TypeOpen); !ok {
			return -1
		}
		w.SetFlag(fmt.Sprintf("arm-plugin-rst-%d", r.C.ID))
		r.Send(wire.Open(65002, 90, 0x0a000002))
		t := vrt.Cur().Now()
		r.Deadline(2 * time.Second)
		r.Drain()
		return t
	case el.Kind == "sent-header":
		if !reach(r, stEstablished, 65002, 90) {
			return -1
		}
		r.Send(wire.RawHeader(wire.GoodMarker, 5, wire.TypeKeepalive))
		return readNotif()
	case el.Kind == "sent-fsm":
		if !reach(r, stOpenConfirm, 65002, 90) {
			return -1
		}
		r.Send(wire.Update([]byte{0, 0, 0, 0}))
		return readNotif()
	case el.Kind == "sent-update":
		if !reach(r, stEstablished, 65002, 90) {
			return -1
		}
		r.Send(wire.Update([]byte("BAD")))
		return readNotif()
	case el.Kind == "sent-hold":
		if !reach(r, stEstablished, 65002, 3) {
			return -1
		}
		return readNotif()
	case strings.HasPrefix(el.Kind, "rcvburst@"):
		// the NOTIFICATION rides behind another message in the same segment and the connection is closed right
		// behind it: "rcvburst@1" [OPEN][NOTIFICATION(3,1)][FIN] in OpenSent, "rcvburst@2" [UPDATE][NOTIFICATION(3,1)][FIN]
		// in Established - the FSM is busy with the first message when the NOTIFICATION and the end of stream arrive
		var st int
		fmt.Sscanf(el.Kind, "rcvburst@%d", &st)
		if st == 1 {
			if _, ok := r.Expect(wire.TypeOpen); !ok {
				return -1
			}
			r.Send(append(wire.Open(65002, 90, 0x0a000002), wire.Notification(3, 1, nil)...))
		} else {
			if !reach(r, stEstablished, 65002, 90) {
				return -1
			}
			r.Send(append(wire.Update([]byte{0, 0, 0, 0}), wire.Notification(3, 1, nil)...))
		}
		t := vrt.Cur().Now()
		r.C.Close()
		return t
	case strings.HasPrefix(el.Kind, "rcv"):
		// "rcv<code>@<state>" (subcode 1) or "rcv<code>.<subcode>@<state>"
		var code, st int
		sub := 1
		if n, _ := fmt.Sscanf(el.Kind, "rcv%d.%d@%d", &code, &sub, &st); n != 3 {
			sub = 1
			fmt.Sscanf(el.Kind, "rcv%d@%d", &code, &st)
		}
		ok := true
		switch st {
		case 0:
			_, ok = r.Expect(wire.TypeOpen)
		case 1:
			ok = reach(r, stOpenConfirm, 65002, 90)
		case 2:
			ok = reach(r, stEstablished, 65002, 90)
		}
		if !ok {
			return -1
		}
		var data []byte
		if i := strings.IndexByte(el.Kind, '#'); i >= 0 {
			// "...#<hex>": data octets of the NOTIFICATION (whatever they look like, they are data)
			data, _ = hex.DecodeString(el.Kind[i+1:])
		}
		r.Send(wire.Notification(byte(code), byte(sub), data))
		t := vrt.Cur().Now()
		r.Deadline(5 * time.Second)
		r.Drain()
		return t
	case el.Kind == "cease-rcv":
		if !reach(r, stEstablished, 65002, 90) {
			return -1
		}
		r.Send(wire.Notification(6, 2, nil))
		t := vrt.Cur().Now()
		r.Deadline(5 * time.Second)
		r.Drain()
		return t
	case el.Kind == "cease-sent":
		if !reach(r, stEstablished, 65002, 90) {
			return -1
		}
		r.Send(wire.Update([]byte("CEASE")))
		return readNotif()
	case el.Kind == "fin":
		if !reach(r, stEstablished, 65002, 90) {
			return -1
		}
		r.C.Close()
		return vrt.Cur().Now()
	case strings.HasPrefix(el.Kind, "tcp-"):
		// transport faults inside a message: "tcp-<fin|rst>-<midheader|midbody>@<state>"
		var what, where string
		var st int
		parts := strings.Split(strings.TrimPrefix(el.Kind, "tcp-"), "@")
		fmt.Sscanf(parts[1], "%d", &st)
		ww := strings.Split(parts[0], "-")
		what, where = ww[0], ww[1]
		ok := true
		switch st {
		case 0:
			_, ok = r.Expect(wire.TypeOpen)
		case 1:
			ok = reach(r, stOpenConfirm, 65002, 90)
		case 2:
			ok = reach(r, stEstablished, 65002, 90)
		}
		if !ok {
			return -1
		}
		m := wire.Update(bytes.Repeat([]byte{7}, 32))
		if st == 0 {
			m = wire.Open(65002, 90, 0x0a000002)
		}
		cut := 7
		if where == "midbody" {
			cut = wire.HeaderLen + 8
		}
		r.Send(m[:cut])
		if what == "fin" {
			r.C.CloseWrite()
			r.Deadline(3 * time.Second)
			r.Drain()
		} else {
			r.C.Reset()
		}
		return vrt.Cur().Now()
	}
	return -1
}

func c12Run(cs c12Case, ch vrt.Chooser, trace bool) (*world.World, *vrt.Exec, *c12Obs) {
	var w *world.World
	o := &c12Obs{}
	total := 60 * time.Second
	for _, el := range cs.Elems {
		total += 320*time.Second + time.Duration(el.Timing)*time.Second
	}
	e := vrt.Run(vrt.Config{Horizon: int64(total + 400*time.Second), Trace: trace, Chooser: ch, MaxSteps: 600000, LegacyTimers: cs.Legacy}, func() {
		w = world.New(libIP)
		w.NewServer(libIP)
		pl := &world.Plugin{W: w, Peer: "P1", Marker: true, NoYield: ch == nil}
		pl.Handle = func(p *world.Plugin, s, n int, b []byte) *corebgp.Notification {
			switch string(b) {
			case "BAD":
				return &corebgp.Notification{Code: 3, Subcode: 1}
			case "CEASE":
				return &corebgp.Notification{Code: 6, Subcode: 4}
			}
			return nil
		}
		rstDone := map[int]bool{}
		pl.OpenNotif = func(netip.Addr, []corebgp.Capability) *corebgp.Notification {
			for _, r := range w.Remotes {
				if id := r.C.ID; w.Flag(fmt.Sprintf("arm-plugin-rst-%d", id)) && !rstDone[id] {
					rstDone[id] = true
					r.C.Reset()
					return &corebgp.Notification{Code: 2, Subcode: 7}
				}
			}
			return nil
		}
		var armed func(r *world.Remote) // script for the next outbound connection; nil = refuse
		w.NW.OnDial(remAddr, func(att int, from *net.TCPAddr) vnet.DialOutcome {
			if armed == nil {
				return vnet.DialOutcome{Kind: vnet.DialRefuse}
			}
			f := armed
			armed = nil
			return vnet.DialOutcome{Kind: vnet.DialAccept, Serve: func(c *vnet.Conn) {
				r := w.NewRemote(c, "P1")
				f(r)
				r.Finish()
			}}
		})
		opts := []corebgp.PeerOption{corebgp.WithDialerControl(w.DialControl("P1"))}
		if cs.Passive {
			opts = append(opts, corebgp.WithPassive())
		}
		add := func() {
			w.Append(world.Event{Kind: "api:AddPeer", Phase: "call", Peer: remIP, Conn: -1})
			err := w.Server.AddPeer(peerConfig(remIP, 65001, 65002), pl, opts...)
			w.Append(world.Event{Kind: "api:AddPeer", Phase: "return", Peer: remIP, Conn: -1, Err: fmt.Sprint(err)})
			if err != nil {
				panic("harness: " + err.Error())
			}
		}
		add()
		w.Serve(libAddr)
		port := 41000
		dialIn := func() *world.Remote {
			// the remote connects once corebgp has digested what happened so far at this instant (the end of
			// the previous connection in particular): whether a connection that races with the teardown of
			// its predecessor is admitted is a matter of scheduling, not of damping
			vrt.WaitQuiescent()
			port++
			c, err := w.NW.DialIn(fmt.Sprintf("10.0.0.2:%d", port), libAddr)
			if err != nil {
				return nil
			}
			return w.NewRemote(c, "P1")
		}
		probe := func(t int64, wantOpen bool) {
			sleepUntil(t)
			r := dialIn()
			if r == nil {
				o.setup = "probe could not connect"
				return
			}
			r.Deadline(time.Second)
			m, err := r.ReadMsg()
			p := c12Probe{t: t, wantOpen: wantOpen, gotOpen: err == nil && m.Type == wire.TypeOpen, bytes: len(r.C.Peer().Sent), eof: r.EOF}
			o.probes = append(o.probes, p)
			r.C.Close()
			r.Finish()
		}
		ref := &refDamp{last: -1}
		release := int64(0) // end of the current hold-down
		n := 0
		for _, el := range cs.Elems {
			if el.Kind == "delete-add" {
				w.DeletePeer(remIP)
				add()
				o.resets = append(o.resets, vrt.Cur().Now())
				ref = &refDamp{last: -1}
				release = vrt.Cur().Now()
				o.nondamp = append(o.nondamp, vrt.Cur().Now())
				vrt.Sleep(time.Second)
				continue
			}
			start := release
			if el.damping() && ref.last >= 0 && el.Timing > 0 {
				if t := ref.last + int64(el.Timing)*int64(time.Second); t > start {
					start = t
				}
			}
			var t int64 = -1
			n++
			doneFlag := fmt.Sprintf("elem-done-%d", n)
			if el.Dir == "out" {
				// arm the script for the first dial at or after start
				if start > vrt.Cur().Now() && start > release {
					sleepUntil(start)
				}
				armed = func(r *world.Remote) {
					t = c12Fault(w, r, el)
					w.SetFlag(doneFlag)
				}
				// bounded wait: the hold-down may be longer than the reference says
				vrt.NewTimer(700 * time.Second)
				dl := vrt.Cur().Now() + int64(700*time.Second)
				vrt.WaitLog(doneFlag, func() bool { return w.Flag(doneFlag) || vrt.Cur().Now() >= dl })
				vrt.LogTouch()
				armed = nil
			} else {
				at := start
				if release > 0 && at <= release {
					at = release + 1 // just after the hold-down ended
				}
				sleepUntil(at)
				if r := dialIn(); r != nil {
					t = c12Fault(w, r, el)
					r.Finish()
				}
			}
			if t < 0 {
				o.errs = append(o.errs, c12Err{elem: el, t: vrt.Cur().Now(), happened: false})
				o.setup = fmt.Sprintf("element %s could not be produced (connection not admitted or handshake failed)", el)
				break
			}
			if !el.damping() {
				o.nondamp = append(o.nondamp, t)
				release = t
				if cs.Passive {
					probe(t+1, true)
				} else {
					vrt.Sleep(time.Second)
				}
				continue
			}
			d := ref.onError(t)
			o.errs = append(o.errs, c12Err{elem: el, t: t, delay: d, happened: true})
			release = t + int64(d)
			// inbound probes during the hold-down
			probe(t+1, false)
			probe(t+int64(d)/2, false)
			probe(release-1, false)
		}
		// afterwards the peer is retried and can establish again
		if o.setup == "" {
			armed = func(r *world.Remote) {
				if reach(r, stEstablished, 65002, 90) {
					w.SetFlag("final-up")
					o.finalT = vrt.Cur().Now()
				}
				r.Deadline(0)
				r.Drain()
			}
			if cs.Passive {
				sleepUntil(release + 1)
				if r := dialIn(); r != nil {
					armed(r)
				}
			} else {
				vrt.NewTimer(330 * time.Second)
				dl := vrt.Cur().Now() + int64(330*time.Second)
				vrt.WaitLog("final-up", func() bool { return w.Flag("final-up") || vrt.Cur().Now() >= dl })
				vrt.LogTouch()
			}
		}
		w.Close()
		w.WaitServeDone()
	})
	return w, e, o
}

func c12Judge(cs c12Case, w *world.World, e *vrt.Exec, o *c12Obs) (string, string) {
	type dial struct{ t int64 }
	var dials []int64
	for _, ev := range w.Log {
		if ev.Kind == "dial" {
			dials = append(dials, ev.T)
		}
	}
	hist := fmt.Sprint(cs.Elems)
	for _, er := range o.errs {
		if !er.happened {
			continue
		}
		end := er.t + int64(er.delay)
		cut := false
		for _, rt := range o.resets {
			if rt >= er.t && rt < end {
				end, cut = rt, true
			}
		}
		for _, d := range dials {
			if d > er.t && d < end {
				return "dial-during-holddown", fmt.Sprintf("history %s: protocol error (%s) at t=%s, expected hold-down %s, but a dial attempt at t=%s", hist, er.elem, time.Duration(er.t), er.delay, time.Duration(d))
			}
		}
		if !cs.Passive && !cut {
			found := false
			for _, d := range dials {
				if d == end {
					found = true
				}
			}
			if !found {
				next := int64(-1)
				for _, d := range dials {
					if d > er.t && (next < 0 || d < next) {
						next = d
					}
				}
				return "release-time", fmt.Sprintf("history %s: protocol error (%s) at t=%s: the peer should be retried after %s (at t=%s); next dial at t=%s", hist, er.elem, time.Duration(er.t), er.delay, time.Duration(end), time.Duration(next))
			}
		}
	}
	for _, p := range o.probes {
		if !p.wantOpen {
			if p.gotOpen || p.bytes > 0 {
				return "inbound-admitted-during-holddown", fmt.Sprintf("history %s: inbound connection at t=%s during the hold-down received %d bytes from corebgp", hist, time.Duration(p.t), p.bytes)
			}
			if !p.eof {
				return "inbound-not-closed-during-holddown", fmt.Sprintf("history %s: inbound connection at t=%s during the hold-down was not closed", hist, time.Duration(p.t))
			}
		} else if !p.gotOpen {
			return "inbound-refused-without-holddown", fmt.Sprintf("history %s: inbound connection at t=%s was refused although no protocol error occurred (non-damping event)", hist, time.Duration(p.t))
		}
	}
	if o.setup != "" {
		return "peer-unavailable", fmt.Sprintf("history %s: %s", hist, o.setup)
	}
	if !cs.Passive {
		for _, t := range o.nondamp {
			found := false
			for _, d := range dials {
				if d >= t && d <= t+int64(11*time.Second) {
					found = true
				}
			}
			if !found {
				return "holddown-after-non-damping-event", fmt.Sprintf("history %s: no dial attempt within 11 s of the non-damping event at t=%s (dials %v)", hist, time.Duration(t), durs(dials))
			}
		}
	}
	if !w.Flag("final-up") {
		return "not-reestablished", fmt.Sprintf("history %s: the peer did not establish again after the last hold-down", hist)
	}
	return monitorCallbacks(w)
}

func c12ErrKinds(full bool) []c12Elem {
	if !full {
		return []c12Elem{
			{Kind: "sent-badopen", Dir: "out"}, {Kind: "sent-badopen", Dir: "in"}, {Kind: "sent-header", Dir: "out"}, {Kind: "sent-fsm", Dir: "in"},
			{Kind: "sent-update", Dir: "out"}, {Kind: "sent-hold", Dir: "in"}, {Kind: "rcv1@0", Dir: "out"}, {Kind: "rcv2@1", Dir: "in"},
			{Kind: "rcv3@2", Dir: "out"}, {Kind: "rcv4@2", Dir: "in"}, {Kind: "rcv5@1", Dir: "out"}, {Kind: "rcv7@2", Dir: "in"},
			{Kind: "rcvburst@1", Dir: "out"}, {Kind: "rcvburst@1", Dir: "in"}, {Kind: "rcvburst@2", Dir: "out"}, {Kind: "rcvburst@2", Dir: "in"},
		}
	}
	var out []c12Elem
	for _, d := range []string{"out", "in"} {
		for _, k := range []string{"sent-badopen", "sent-header", "sent-fsm", "sent-update", "sent-hold", "sent-plugin-rst"} {
			out = append(out, c12Elem{Kind: k, Dir: d})
		}
		for _, c := range []int{1, 2, 3, 4, 5, 7} {
			for s := 0; s < 3; s++ {
				out = append(out, c12Elem{Kind: fmt.Sprintf("rcv%d@%d", c, s), Dir: d})
			}
		}
		out = append(out, c12Elem{Kind: "rcvburst@1", Dir: d}, c12Elem{Kind: "rcvburst@2", Dir: d})
	}
	return out
}

var c12NonDamp = []c12Elem{{Kind: "cease-rcv", Dir: "out"}, {Kind: "cease-sent", Dir: "in"}, {Kind: "fin", Dir: "out"}, {Kind: "delete-add"}, {Kind: "fin", Dir: "in"}, {Kind: "cease-rcv", Dir: "in"}}

// c12Transport are transport faults inside a message (never damping).
func c12Transport() []c12Elem {
	var out []c12Elem
	for _, what := range []string{"fin", "rst"} {
		for _, where := range []string{"midheader", "midbody"} {
			for st := 0; st < 3; st++ {
				for _, dir := range []string{"out", "in"} {
					out = append(out, c12Elem{Kind: fmt.Sprintf("tcp-%s-%s@%d", what, where, st), Dir: dir})
				}
			}
		}
	}
	return out
}

func c12Eval(c *harness.Ctx, cs c12Case) {
	w, e, o := c12Run(cs, nil, false)
	rule, msg := basicVerdict(e)
	if rule == "" && e.Reason() == vrt.EndStepCap {
		rule, msg = "step-cap", "execution hit the step cap"
	}
	if rule == "" {
		rule, msg = c12Judge(cs, w, e, o)
	}
	if rule != "" {
		c.Violation(rule, "C12:history:"+rule, msg, map[string]any{"case": cs, "log": logText(w)})
	}
	e.Finish()
}

func c12Histories(alpha []c12Elem, maxLen int) [][]c12Elem {
	res := [][]c12Elem{}
	frontier := [][]c12Elem{{}}
	for d := 0; d < maxLen; d++ {
		var next [][]c12Elem
		for _, f := range frontier {
			for _, a := range alpha {
				if a.Timing > 0 {
					// timing only matters after a protocol error
					has := false
					for _, x := range f {
						if x.damping() {
							has = true
						}
					}
					if !has {
						continue
					}
				}
				next = append(next, append(append([]c12Elem{}, f...), a))
			}
		}
		res = append(res, next...)
		frontier = next
	}
	return res
}

func withTimings(kinds []c12Elem) []c12Elem {
	var out []c12Elem
	for _, k := range kinds {
		for _, t := range []int{0, 299, 301} {
			k2 := k
			k2.Timing = t
			out = append(out, k2)
		}
	}
	return out
}

func c12Check(c *harness.Ctx) {
	th := c.Thorough()
	idx := 0
	run := func(cs c12Case) bool {
		if cs.Passive {
			for _, el := range cs.Elems {
				if el.Dir == "out" {
					return true // a passive peer has no outbound connections
				}
			}
		}
		idx++
		if !c.Mine(idx) {
			return true
		}
		if c.Expired() {
			return false
		}
		// timer-channel semantics alternate over the cases (thorough: both for every case)
		cs.Legacy = (idx/16)%2 == 1
		for n := 0; n < 2; n++ {
			b, _ := json.Marshal(cs)
			c.Eval(b, true)
			if idx%5003 == 1 {
				c.Sample(cs)
			}
			c12Eval(c, cs)
			if !c.Thorough() {
				break
			}
			cs.Legacy = !cs.Legacy
		}
		return true
	}
	// (1) every error kind alone and after one earlier error, with every timing, active and passive
	kinds := c12ErrKinds(true)
	for _, k := range kinds {
		for _, passive := range []bool{false, true} {
			if !run(c12Case{Elems: []c12Elem{k}, Passive: passive}) {
				return
			}
			for _, t := range []int{0, 299, 301} {
				k2 := k
				k2.Timing = t
				for _, first := range []c12Elem{{Kind: "sent-badopen", Dir: k.Dir}, {Kind: "rcv3@2", Dir: k.Dir}} {
					if !run(c12Case{Elems: []c12Elem{first, k2}, Passive: passive}) {
						return
					}
				}
			}
		}
	}
	// (1a) the subcode does not matter: protocol errors with other subcodes damp, a Cease with ANY subcode
	// does not (alone, and between two protocol errors it does not count)
	for _, dir := range []string{"out", "in"} {
		for st := 0; st < 3; st++ {
			for _, sub := range []int{0, 1, 2, 3, 4, 5, 6, 7, 8, 9, 10, 11, 255} {
				cease := c12Elem{Kind: fmt.Sprintf("rcv6.%d@%d", sub, st), Dir: dir}
				if !run(c12Case{Elems: []c12Elem{cease}, Passive: dir == "in"}) {
					return
				}
				if st == 2 && !run(c12Case{Elems: []c12Elem{{Kind: "sent-badopen", Dir: dir}, cease, {Kind: "rcv3@2", Dir: dir}}, Passive: dir == "in"}) {
					return
				}
			}
			// ... and neither do the data octets: a Cease whose data happens to read like another error (the
			// RFC 8538 Hard Reset layout: subcode 9, data = code, subcode, ...) is a Cease, and a protocol error
			// whose data reads like a Cease is a protocol error
			if st != 1 {
				for _, sub := range []int{9, 2, 0} {
					for _, data := range []string{"0400", "0202", "0101ffff", "06", "0301c0"} {
						if !run(c12Case{Elems: []c12Elem{{Kind: fmt.Sprintf("rcv6.%d@%d#%s", sub, st, data), Dir: dir}}, Passive: dir == "in"}) {
							return
						}
					}
				}
				for _, data := range []string{"0609", "0602"} {
					if !run(c12Case{Elems: []c12Elem{{Kind: fmt.Sprintf("rcv3.1@%d#%s", st, data), Dir: dir}}, Passive: dir == "in"}) {
						return
					}
				}
			}
			for _, cs := range [][2]int{{1, 0}, {1, 2}, {2, 0}, {2, 2}, {2, 7}, {3, 0}, {3, 11}, {4, 0}, {5, 0}, {5, 3}, {7, 0}, {2, 255}} {
				if !run(c12Case{Elems: []c12Elem{{Kind: fmt.Sprintf("rcv%d.%d@%d", cs[0], cs[1], st), Dir: dir}}, Passive: dir == "in"}) {
					return
				}
			}
		}
	}
	// (1b) every transport fault inside a message, alone and after a protocol error: never a hold-down
	for _, tf := range c12Transport() {
		for _, passive := range []bool{false, true} {
			if !run(c12Case{Elems: []c12Elem{tf}, Passive: passive}) {
				return
			}
			if !run(c12Case{Elems: []c12Elem{{Kind: "sent-badopen", Dir: tf.Dir}, tf}, Passive: passive}) {
				return
			}
		}
	}
	// (2) all histories up to a length over a reduced alphabet (two error kinds per direction x timings + non-damping events)
	alpha := append(withTimings([]c12Elem{{Kind: "sent-badopen", Dir: "out"}, {Kind: "rcv3@2", Dir: "in"}}), c12NonDamp[:4]...)
	maxLen := 4
	if th {
		alpha = append(withTimings([]c12Elem{{Kind: "sent-badopen", Dir: "out"}, {Kind: "rcv3@2", Dir: "in"}, {Kind: "sent-update", Dir: "in"}}), c12NonDamp...)
		maxLen = 5
	}
	for _, h := range c12Histories(alpha, maxLen) {
		if !run(c12Case{Elems: h}) {
			return
		}
	}
	// (3) long chains of errors: doubling, cap and amnesia
	for n := 5; n <= 8; n++ {
		for _, t := range []int{0, 299, 301} {
			var h []c12Elem
			for i := 0; i < n; i++ {
				h = append(h, c12Elem{Kind: "sent-badopen", Dir: []string{"out", "in"}[i%2], Timing: t})
			}
			for _, passive := range []bool{false, true} {
				hh := h
				if passive {
					hh = nil
					for _, el := range h {
						el.Dir = "in"
						hh = append(hh, el)
					}
				}
				if !run(c12Case{Elems: hh, Passive: passive}) {
					return
				}
			}
		}
	}
	// (4) schedules: the error arrives while the other FSM is active
	bound := 1
	if th {
		bound = 2
	}
	k := 0
	for _, slow := range []string{"OnOpenMessage", "GetCapabilities"} {
		k++
		if c.Mine(k) {
			if !exploreScn(c, "C12", c12BusyScn(slow, bound)) {
				return
			}
		}
	}
	for _, bad := range []string{"in", "out", "out-race"} {
		k++
		if c.Mine(k) {
			if !exploreScn(c, "C12", c12DualScn(bad, bound+1)) {
				return
			}
		}
	}
	for _, el := range c12ErrKinds(false) {
		for _, second := range []c12Elem{{}, {Kind: "cease-rcv", Dir: "out"}} {
			k++
			if !c.Mine(k) {
				continue
			}
			if c.Expired() {
				return
			}
			h := []c12Elem{el}
			if second.Kind != "" {
				h = append(h, second)
			}
			if !exploreScn(c, "C12", c12Scn(c12Case{Elems: h}, bound)) {
				return
			}
		}
	}
}

// c12Dual: a protocol error on the inbound connection while the outbound
// connection completes its handshake at the same time (and vice versa).
func c12DualRun(bad string, ch vrt.Chooser, trace bool) (*world.World, *vrt.Exec, *c12Obs) {
	var w *world.World
	o := &c12Obs{}
	e := vrt.Run(vrt.Config{Horizon: int64(100 * time.Second), Trace: trace, Chooser: ch}, func() {
		w = world.New(libIP)
		w.NewServer(libIP)
		pl := &world.Plugin{W: w, Peer: "P1", Marker: true}
		// bad = in | out: both connections start together. bad = out-race: the inbound connection is opened
		// at the very moment the remote sends its bad OPEN on the outbound one, so that its admission
		// races with the handling of the protocol error
		race := bad == "out-race"
		if race {
			bad = "out"
		}
		script := func(r *world.Remote, isBad bool) {
			if isBad {
				if _, ok := r.Expect(wire.TypeOpen); !ok {
					return
				}
				w.SetFlag("bad-open-goes-out")
				r.Send(wire.Open(64999, 90, 0x0a000002))
				r.Deadline(2 * time.Second)
				r.Drain()
				return
			}
			r.Send(wire.Open(65002, 90, 0x0a000002))
			r.Send(wire.Keepalive())
			r.Deadline(90 * time.Second)
			r.Drain()
		}
		w.NW.OnDial(remAddr, func(att int, from *net.TCPAddr) vnet.DialOutcome {
			if att > 0 {
				return vnet.DialOutcome{Kind: vnet.DialRefuse}
			}
			return vnet.DialOutcome{Kind: vnet.DialAccept, Serve: func(c *vnet.Conn) {
				r := w.NewRemote(c, "P1")
				script(r, bad == "out")
				r.Finish()
			}}
		})
		if err := w.Server.AddPeer(peerConfig(remIP, 65001, 65002), pl, corebgp.WithDialerControl(w.DialControl("P1"))); err != nil {
			panic("harness: " + err.Error())
		}
		w.Serve(libAddr)
		vrt.GoWorld("remote-in", func() {
			if race {
				w.WaitFlag("bad-open-goes-out")
			}
			c, err := w.NW.DialIn("10.0.0.2:40001", libAddr)
			if err != nil {
				return
			}
			r := w.NewRemote(c, "P1")
			script(r, bad == "in")
			r.Finish()
		})
		vrt.Sleep(90 * time.Second)
		w.Close()
		w.WaitServeDone()
	})
	return w, e, o
}

func c12DualJudge(w *world.World) (string, string) {
	// was a non-Cease NOTIFICATION sent by corebgp?
	errT := int64(-1)
	errSeq := -1
	for _, c := range w.NW.Conns {
		if !c.Lib {
			continue
		}
		for _, ch := range c.Chunks {
			ms, _, _ := wire.ParseStrict(ch.B)
			for _, m := range ms {
				if m.Type == wire.TypeNotification {
					if code, _, _ := m.Notif(); code != 6 && (errT < 0 || ch.T < errT) {
						errT = ch.T
						errSeq = ch.Seq
					}
				}
			}
		}
	}
	if errT < 0 {
		return "", "" // the faulty connection was refused/closed before its OPEN was judged: no protocol error occurred
	}
	// both connections must be dropped and the peer held down for 60 s
	for _, c := range w.NW.Conns {
		if c.Lib && c.Opened <= errT && (c.ClosedAt < 0 || c.ClosedAt > errT+int64(time.Second)) && (!c.Inbound || c.Accepted) {
			// D15: the other connection had already been approved as Established when the faulty
			// connection's FSM, being disabled by the manager at that very moment, still sent its
			// protocol-error NOTIFICATION; the error then loses the closeCh-vs-errorCh select in fsm.run
			_ = errSeq
			for _, m := range libFrames(c.Sent) {
				if _, isMarker := world.IsMarker(m.Body); m.Type == wire.TypeUpdate && isMarker {
					return "protocol-error-while-other-established", fmt.Sprintf("corebgp sent a protocol-error NOTIFICATION at t=%s on a connection that was being disabled because %s had just become Established; the error was never reported to the peer manager: no hold-down, %s stays up", time.Duration(errT), c, c)
				}
			}
			return "connection-survives-protocol-error", fmt.Sprintf("corebgp sent a protocol-error NOTIFICATION at t=%s but %s stayed open (closed at %s)", time.Duration(errT), c, time.Duration(c.ClosedAt))
		}
	}
	for _, ev := range w.Log {
		if ev.Kind == "dial" && ev.T > errT && ev.T < errT+int64(60*time.Second) {
			return "dial-during-holddown", fmt.Sprintf("protocol error at t=%s, dial attempt at t=%s", time.Duration(errT), time.Duration(ev.T))
		}
	}
	return monitorCallbacks(w)
}

// c12BusyRun: the peer manager is kept busy while a protocol error is being handled. Connection A
// (inbound) sits in a plugin callback that takes 400 ms (OnOpenMessage, or GetCapabilities) when, 100 ms
// in, the remote sends a non-Cease NOTIFICATION on the outbound connection (which is in OpenSent); the
// manager has to stop A's FSM and waits for the callback. 200 ms in, connection B arrives. Once the
// error is handled the peer is held down: neither A nor B may be open one second after the error, B
// must not have been served, and nothing is dialled for 60 s.
func c12BusyRun(slow string, ch vrt.Chooser, trace bool) (*world.World, *vrt.Exec, int64) {
	var w *world.World
	errT := int64(-1)
	e := vrt.Run(vrt.Config{Horizon: int64(100 * time.Second), Trace: trace, Chooser: ch}, func() {
		w = world.New(libIP)
		w.NewServer(libIP)
		pl := &world.Plugin{W: w, Peer: "P1", Marker: true, NoYield: ch == nil}
		w.NW.OnDial(remAddr, func(att int, from *net.TCPAddr) vnet.DialOutcome {
			if att > 0 {
				return vnet.DialOutcome{Kind: vnet.DialRefuse}
			}
			return vnet.DialOutcome{Kind: vnet.DialAccept, Serve: func(c *vnet.Conn) {
				r := w.NewRemote(c, "P1")
				defer r.Finish()
				if _, ok := r.Expect(wire.TypeOpen); !ok {
					return
				}
				w.SetFlag("out-opensent")
				vrt.Sleep(100 * time.Millisecond)
				errT = vrt.Cur().Now()
				r.Send(wire.Notification(2, 2, nil))
				r.Deadline(5 * time.Second)
				r.Drain()
			}}
		})
		if err := w.Server.AddPeer(peerConfig(remIP, 65001, 65002), pl, corebgp.WithDialerControl(w.DialControl("P1"))); err != nil {
			panic("harness: " + err.Error())
		}
		w.Serve(libAddr)
		w.WaitFlag("out-opensent")
		// from here on the first GetCapabilities / OnOpenMessage belongs to connection A
		world.SlowCallback.Kind, world.SlowCallback.N, world.SlowCallback.D = slow, 1, 400*time.Millisecond
		defer func() { world.SlowCallback.Kind = "" }()
		inbound := func(name, addr string, after time.Duration) {
			vrt.GoWorld(name, func() {
				vrt.Sleep(after)
				c, err := w.NW.DialIn(addr, libAddr)
				if err != nil {
					return
				}
				r := w.NewRemote(c, "P1")
				defer r.Finish()
				r.Send(wire.Open(65002, 90, 0x0a000002))
				r.Send(wire.Keepalive())
				r.Deadline(30 * time.Second)
				r.Drain()
			})
		}
		inbound("remote-A", "10.0.0.2:40001", 0)
		inbound("remote-B", "10.0.0.2:40002", 200*time.Millisecond)
		vrt.Sleep(70 * time.Second)
		w.Close()
		w.WaitServeDone()
	})
	return w, e, errT
}

func c12BusyJudge(w *world.World, errT int64) (string, string) {
	if errT < 0 {
		return "setup", "the outbound connection did not reach OpenSent"
	}
	for _, c := range w.NW.Conns {
		if c.Lib && !c.Inbound && c.Pending() > 0 {
			return "", "" // corebgp dropped the outbound connection without reading the NOTIFICATION: no protocol error
		}
	}
	for _, c := range w.NW.Conns {
		if !c.Lib || c.Inbound && !c.Accepted {
			continue
		}
		if c.ClosedAt < 0 || c.ClosedAt > errT+int64(time.Second) {
			if c.Opened > errT+int64(time.Second) {
				continue
			}
			return "connection-open-during-holddown", fmt.Sprintf("a non-Cease NOTIFICATION was received at t=%s; %s (opened at %s) is still open a second later (closed at %s, %d octets written on it)",
				time.Duration(errT), c, time.Duration(c.Opened), time.Duration(c.ClosedAt), len(c.Sent))
		}
		if c.Inbound && c.Opened > errT && len(c.Sent) > 0 {
			return "inbound-admitted-during-holddown", fmt.Sprintf("%s arrived at t=%s, after the protocol error of t=%s, and corebgp wrote %d octets on it", c, time.Duration(c.Opened), time.Duration(errT), len(c.Sent))
		}
	}
	for _, ev := range w.Log {
		if ev.Kind == "dial" && ev.T > errT && ev.T < errT+int64(60*time.Second) {
			return "dial-during-holddown", fmt.Sprintf("protocol error at t=%s, dial attempt at t=%s", time.Duration(errT), time.Duration(ev.T))
		}
	}
	return monitorCallbacks(w)
}

func c12BusyScn(slow string, bound int) *Scn {
	return &Scn{Name: "busy/" + slow, Bound: bound, Run: func(ch vrt.Chooser, trace bool) *ScnResult {
		w, e, errT := c12BusyRun(slow, ch, trace)
		return finishRun("C12", "busy", w, e, trace, false, func() (string, string) { return c12BusyJudge(w, errT) }, nil)
	}}
}

func c12DualScn(bad string, bound int) *Scn {
	return &Scn{Name: "dual/" + bad, Bound: bound, Run: func(ch vrt.Chooser, trace bool) *ScnResult {
		bad := bad
		w, e, _ := c12DualRun(bad, ch, trace)
		return finishRun("C12", "dual", w, e, trace, false, func() (string, string) { return c12DualJudge(w) }, nil)
	}}
}

func c12Scn(cs c12Case, bound int) *Scn {
	b, _ := json.Marshal(cs)
	return &Scn{Name: "schedule/" + string(b), Bound: bound, Run: func(ch vrt.Chooser, trace bool) *ScnResult {
		if ch == nil {
			ch = &vrt.ReplayChooser{}
		}
		w, e, o := c12Run(cs, ch, trace)
		return finishRun("C12", "schedule", w, e, trace, false, func() (string, string) { return c12Judge(cs, w, e, o) }, nil)
	}}
}

func init() {
	harness.Register(&harness.Check{
		Property: "C12", Level: "fault_enumeration", NeedsConc: true, QuickS: 250, ThoroughS: 1500,
		Rule:   "histories of protocol errors (all 46 kinds: NOTIFICATION sent for bad OPEN / header error / FSM error / handler UPDATE error / hold expiry, NOTIFICATION codes 1-5,7 received at remote-view states 0,1,2; both directions), non-damping events (Cease received/sent, FIN, DeletePeer+AddPeer) and elapsed time (next error as soon as possible, 299 s, 301 s after the previous one): every kind alone and after an earlier error with every timing (active and passive), all histories up to length 4 (quick) / 5 (thorough) over a reduced alphabet, chains of 5-8 errors; each run in virtual time on the real code with the hold-down measured by dial attempts (WithDialerControl) and three inbound probes (+1 ns, middle, -1 ns) and compared with a reference damping automaton (60 s, doubling, cap 300 s, amnesia after 300 s); plus all schedules within the delay bound for single-error histories, for the dual scenarios (a bad OPEN on one connection while the other completes its handshake or arrives at that very moment) and for the busy-manager scenarios (a NOTIFICATION arrives while the manager waits for a 400 ms plugin callback of the other connection and a third connection knocks); all cases non-trivial and distinct",
		Assume: []string{"virtual clock; zero-time computation (A4)", "probes avoid exact ties with the error and the release instant"},
		Run:    c12Check,
		Replay: func(c *harness.Ctx, raw json.RawMessage) {
			var r struct {
				Case     *c12Case `json:"case"`
				Scenario string   `json:"scenario"`
			}
			if err := json.Unmarshal(raw, &r); err != nil {
				panic(err)
			}
			if r.Case != nil {
				c12Eval(c, *r.Case)
				return
			}
			scnReplay("C12", func(name string) *Scn {
				if strings.HasPrefix(name, "dual/") {
					return c12DualScn(name[5:], 3)
				}
				if strings.HasPrefix(name, "busy/") {
					return c12BusyScn(name[5:], 3)
				}
				var cs c12Case
				if json.Unmarshal([]byte(name[len("schedule/"):]), &cs) != nil {
					return nil
				}
				return c12Scn(cs, 3)
			})(c, raw)
		},
	})
}
