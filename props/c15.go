//go:build verifshim

package props

import (
	"bytes"
	"encoding/hex"
	"encoding/json"
	"fmt"
	"runtime/debug"
	"strings"

	"github.com/jwhited/corebgp"

	"corebgpverif/harness"
	"corebgpverif/refmodel"
	"corebgpverif/wire"
)

// C15: the OPEN / NOTIFICATION / capability codecs round-trip and are strict.
// Pure function calls into packet.go: the unexported codecs through the
// export shim, the capability helpers through the public API.

// c15Hex is a byte string written as hex in replay files.
type c15Hex []byte

func (h c15Hex) MarshalJSON() ([]byte, error) { return json.Marshal(hex.EncodeToString(h)) }

func (h *c15Hex) UnmarshalJSON(b []byte) error {
	var s string
	if err := json.Unmarshal(b, &s); err != nil {
		return err
	}
	v, err := hex.DecodeString(s)
	*h = v
	return err
}

type c15Cap struct {
	Code  byte   `json:"code"`
	Value c15Hex `json:"value_hex"`
}

// c15Case is one concrete input; Kind selects the fields that matter. It is
// also the replay object.
type c15Case struct {
	Kind string `json:"kind"`
	// notification-bytes, open-bytes, addpath-bytes, addpath-tuple-bytes: the input
	Bytes c15Hex `json:"bytes_hex"`
	// notification-value
	Code    byte   `json:"code"`
	Sub     byte   `json:"subcode"`
	Data    c15Hex `json:"data_hex"`
	DataNil bool   `json:"data_nil"`
	// open-value
	Version byte       `json:"version"`
	ASN     uint16     `json:"asn"`
	Hold    uint16     `json:"hold"`
	ID      uint32     `json:"id"`
	Params  [][]c15Cap `json:"params"`
	// addpath-tuple-value, mpext
	AFI  uint16 `json:"afi"`
	SAFI byte   `json:"safi"`
	Tx   bool   `json:"tx"`
	Rx   bool   `json:"rx"`
}

// MarshalJSON writes only the fields of the case's kind.
func (cs c15Case) MarshalJSON() ([]byte, error) {
	m := map[string]any{"kind": cs.Kind}
	switch cs.Kind {
	case c15NotifValue:
		m["code"], m["subcode"], m["data_hex"], m["data_nil"] = cs.Code, cs.Sub, cs.Data, cs.DataNil
	case c15OpenValue:
		m["version"], m["asn"], m["hold"], m["id"], m["params"] = cs.Version, cs.ASN, cs.Hold, cs.ID, cs.Params
	case c15TupleValue:
		m["afi"], m["safi"], m["tx"], m["rx"] = cs.AFI, cs.SAFI, cs.Tx, cs.Rx
	case c15MPExt:
		m["afi"], m["safi"] = cs.AFI, cs.SAFI
	default:
		m["bytes_hex"] = cs.Bytes
	}
	return json.Marshal(m)
}

const (
	c15NotifValue   = "notification-value"
	c15NotifBytes   = "notification-bytes"
	c15OpenValue    = "open-value"
	c15OpenBytes    = "open-bytes"
	c15AddPathBytes = "addpath-bytes"
	c15TupleBytes   = "addpath-tuple-bytes"
	c15TupleValue   = "addpath-tuple-value"
	c15MPExt        = "mpext"
)

// c15Codec is the codec part of a violation signature.
func c15Codec(kind string) string {
	switch kind {
	case c15NotifValue, c15NotifBytes:
		return "notification"
	case c15OpenValue, c15OpenBytes:
		return "open"
	case c15MPExt:
		return "mpext"
	}
	return "addpath"
}

// c15Verdict is the judgement of one case. Aspect "" means the property held.
type c15Verdict struct {
	Aspect     string // coarse name of the violated aspect, part of the signature
	Msg        string
	Class      string // coverage class of the case (counted in the evidence)
	Nontrivial bool
}

func c15Bad(class, aspect, f string, a ...any) c15Verdict {
	return c15Verdict{Aspect: aspect, Msg: fmt.Sprintf(f, a...), Class: class, Nontrivial: true}
}

// c15Exact clamps the capacity of b to its length so that a decoder reading
// past the end of its input panics instead of seeing stale bytes.
func c15Exact(b []byte) []byte { return b[:len(b):len(b)] }

func c15Short(b []byte) string {
	if len(b) <= 48 {
		return hex.EncodeToString(b)
	}
	return fmt.Sprintf("%x..(%d bytes)", b[:48], len(b))
}

// c15Has reports whether the white-box wrapper of that name is bound to the tree under test (cmd/vcheck
// renders a wrapper that does not compile against the tree as a stub; what cannot be reached is skipped
// and counted under the class "not-reachable:<wrapper>").
func c15Has(name string) bool {
	for _, n := range corebgp.VerifStubbed {
		if n == name {
			return false
		}
	}
	return true
}

func c15Unreachable(name string) c15Verdict { return c15Verdict{Class: "not-reachable:" + name} }

// c15Judge runs the codecs on one case. A panic inside corebgp is a
// violation; a panic of the check itself is an engine failure.
func c15Judge(cs *c15Case) (v c15Verdict) {
	defer func() {
		if r := recover(); r != nil {
			st := string(debug.Stack())
			if !strings.Contains(st, "github.com/jwhited/corebgp.") {
				panic(fmt.Sprintf("ENGINE-ERROR C15 harness panic: %v\n%s", r, st))
			}
			v = c15Bad("panic", "panic", "corebgp panicked on a %s case: %v\n%s", cs.Kind, r, trimStack(st))
		}
	}()
	switch cs.Kind {
	case c15NotifValue:
		return c15JudgeNotifValue(cs.Code, cs.Sub, cs.Data, cs.DataNil)
	case c15NotifBytes:
		return c15JudgeNotifBytes(cs.Bytes)
	case c15OpenValue:
		return c15JudgeOpenValue(c15ToOpenValue(cs))
	case c15OpenBytes:
		return c15JudgeOpenBytes(cs.Bytes)
	case c15AddPathBytes:
		return c15JudgeAddPathBytes(cs.Bytes)
	case c15TupleBytes:
		return c15JudgeTupleBytes(cs.Bytes)
	case c15TupleValue:
		return c15JudgeTupleValue(cs.AFI, cs.SAFI, cs.Tx, cs.Rx)
	case c15MPExt:
		return c15JudgeMPExt(cs.AFI, cs.SAFI)
	}
	panic("C15: unknown case kind " + cs.Kind)
}

// ---------------------------------------------------------------- NOTIFICATION

// c15JudgeNotifValue: decode(encode(x)) = x (nil data = empty data) and the
// encoding is the RFC 4271 4.5 encoding.
func c15JudgeNotifValue(code, sub byte, data []byte, dataNil bool) c15Verdict {
	if dataNil {
		data = nil
	} else if data == nil {
		data = []byte{}
	}
	if !c15Has("encodeNotification") {
		return c15Unreachable("encodeNotification")
	}
	in := append([]byte(nil), data...) // the encoder must not modify its input either
	enc, err := corebgp.VerifEncodeNotification(&corebgp.Notification{Code: code, Subcode: sub, Data: data})
	if err != nil {
		return c15Bad("value", "encode-error", "encode of NOTIFICATION (%d,%d,%d data bytes) failed: %v", code, sub, len(data), err)
	}
	if len(enc) < wire.HeaderLen {
		return c15Bad("value", "encode-no-header", "encode of NOTIFICATION (%d,%d,%d data bytes) returned %d bytes", code, sub, len(data), len(enc))
	}
	if !c15Has("decodeNotification") {
		if ref := wire.Notification(code, sub, in); !bytes.Equal(enc, ref) {
			return c15Bad("value", "encoding-not-rfc", "NOTIFICATION (%d,%d,data %s) encoded as %s, RFC 4271 encoding is %s", code, sub, c15Short(in), c15Short(enc), c15Short(ref))
		}
		return c15Unreachable("decodeNotification")
	}
	dec, err := corebgp.VerifDecodeNotification(c15Exact(enc[wire.HeaderLen:]))
	if err != nil || dec == nil {
		return c15Bad("value", "roundtrip-decode-error", "decode(encode(x)) failed for NOTIFICATION (%d,%d,%d data bytes): %v", code, sub, len(data), err)
	}
	if dec.Code != code || dec.Subcode != sub {
		return c15Bad("value", "roundtrip-code-lost", "decode(encode(x)) = (%d,%d) for NOTIFICATION (%d,%d)", dec.Code, dec.Subcode, code, sub)
	}
	if !bytes.Equal(dec.Data, in) {
		return c15Bad("value", "roundtrip-data-lost", "decode(encode(x)) has data %s, x = (%d,%d) has data %s", c15Short(dec.Data), code, sub, c15Short(in))
	}
	if ref := wire.Notification(code, sub, in); !bytes.Equal(enc, ref) {
		return c15Bad("value", "encoding-not-rfc", "NOTIFICATION (%d,%d,data %s) encoded as %s, RFC 4271 encoding is %s", code, sub, c15Short(in), c15Short(enc), c15Short(ref))
	}
	return c15Verdict{Class: "value", Nontrivial: true}
}

// c15JudgeNotifBytes: fewer than two bytes are rejected; an error comes with
// no message; accepted strings re-encode to themselves.
func c15JudgeNotifBytes(b []byte) c15Verdict {
	b = c15Exact(b)
	if !c15Has("decodeNotification") {
		return c15Unreachable("decodeNotification")
	}
	dec, err := corebgp.VerifDecodeNotification(b)
	isNil, merr := corebgp.VerifMessageFromBytesNil(b, wire.TypeNotification)
	if !c15Has("messageFromBytes") {
		isNil, merr = err != nil, err
	}
	if (err == nil) != (merr == nil) {
		return c15Bad("bytes", "decode-inconsistent", "Notification.decode and messageFromBytes disagree on %s: %v / %v", c15Short(b), err, merr)
	}
	if isNil != (merr != nil) {
		return c15Bad("bytes", "partial-result", "messageFromBytes(%s) returned message nil=%v together with error %v", c15Short(b), isNil, merr)
	}
	if len(b) < 2 {
		if err == nil {
			return c15Bad("short", "accepts-missing-fixed-fields", "NOTIFICATION body %s (no code/subcode) was accepted", c15Short(b))
		}
		return c15Verdict{Class: "short-rejected", Nontrivial: true}
	}
	if err != nil {
		// b is the RFC encoding of (b[0], b[1], b[2:]): the value round trip decides
		v := c15JudgeNotifValue(b[0], b[1], b[2:], false)
		if v.Aspect == "" && !c15Has("encodeNotification") {
			return c15Bad("bytes", "rejects-wellformed", "NOTIFICATION body %s (code, subcode, data) is rejected: %v", c15Short(b), err)
		}
		if v.Aspect == "" {
			return c15Bad("bytes", "rejects-own-encoding", "NOTIFICATION body %s is rejected (%v) although it is what encode produces", c15Short(b), err)
		}
		v.Class = "bytes-rejected"
		return v
	}
	if !c15Has("encodeNotification") {
		if dec.Code != b[0] || dec.Subcode != b[1] || !bytes.Equal(dec.Data, b[2:]) {
			return c15Bad("bytes", "decode-not-rfc", "NOTIFICATION body %s decoded as (%d,%d,%s)", c15Short(b), dec.Code, dec.Subcode, c15Short(dec.Data))
		}
		return c15Verdict{Class: "bytes-accepted:reencode-not-reachable", Nontrivial: true}
	}
	enc, err := corebgp.VerifEncodeNotification(dec)
	if err != nil {
		return c15Bad("bytes", "reencode-error", "decoder accepted %s but re-encoding failed: %v", c15Short(b), err)
	}
	if want := wire.Frame(wire.TypeNotification, b); !bytes.Equal(enc, want) {
		return c15Bad("bytes", "reencode-differs", "decoder accepted NOTIFICATION body %s but encode(decode(b)) = %s", c15Short(b), c15Short(enc))
	}
	return c15Verdict{Class: "bytes-accepted", Nontrivial: true}
}

// ------------------------------------------------------------------------ OPEN

func c15ToOpenValue(cs *c15Case) *refmodel.OpenValue {
	o := &refmodel.OpenValue{Version: cs.Version, AS: cs.ASN, Hold: cs.Hold, ID: cs.ID}
	for _, p := range cs.Params {
		caps := make([]wire.Cap, len(p))
		for i, c := range p {
			caps[i] = wire.Cap{Code: c.Code, Value: c.Value}
		}
		o.Params = append(o.Params, caps)
	}
	return o
}

func c15FromOpenValue(o *refmodel.OpenValue) *c15Case {
	cs := &c15Case{Kind: c15OpenValue, Version: o.Version, ASN: o.AS, Hold: o.Hold, ID: o.ID}
	for _, p := range o.Params {
		caps := make([]c15Cap, len(p))
		for i, c := range p {
			caps[i] = c15Cap{Code: c.Code, Value: c.Value}
		}
		cs.Params = append(cs.Params, caps)
	}
	return cs
}

func c15ToVerif(o *refmodel.OpenValue) *corebgp.VerifOpen {
	v := &corebgp.VerifOpen{Version: o.Version, ASN: o.AS, HoldTime: o.Hold, BGPID: o.ID}
	for _, p := range o.Params {
		caps := make([]corebgp.Capability, len(p))
		for i, c := range p {
			caps[i] = corebgp.Capability{Code: c.Code, Value: c.Value}
		}
		v.Params = append(v.Params, caps)
	}
	return v
}

// c15OpenDiff compares a decoded OPEN with the value x field by field
// (capability values byte-exact, nil = empty); "" if equal.
func c15OpenDiff(d *corebgp.VerifOpen, x *refmodel.OpenValue) string {
	if d.Version != x.Version || d.ASN != x.AS || d.HoldTime != x.Hold || d.BGPID != x.ID {
		return fmt.Sprintf("fixed fields (version %d, as %d, hold %d, id %#x) instead of (%d, %d, %d, %#x)", d.Version, d.ASN, d.HoldTime, d.BGPID, x.Version, x.AS, x.Hold, x.ID)
	}
	if len(d.Params) != len(x.Params) {
		return fmt.Sprintf("%d capabilities parameters instead of %d", len(d.Params), len(x.Params))
	}
	for i := range x.Params {
		if len(d.Params[i]) != len(x.Params[i]) {
			return fmt.Sprintf("parameter %d has %d capabilities instead of %d", i, len(d.Params[i]), len(x.Params[i]))
		}
		for j, c := range x.Params[i] {
			if g := d.Params[i][j]; g.Code != c.Code || !bytes.Equal(g.Value, c.Value) {
				return fmt.Sprintf("parameter %d capability %d is (%d,%s) instead of (%d,%s)", i, j, g.Code, c15Short(g.Value), c.Code, c15Short(c.Value))
			}
		}
	}
	return ""
}

func c15OpenText(x *refmodel.OpenValue) string {
	s := fmt.Sprintf("OPEN(version %d, as %d, hold %d, id %#x, params", x.Version, x.AS, x.Hold, x.ID)
	for i, p := range x.Params {
		if i == 4 {
			s += fmt.Sprintf(" ..(%d parameters)", len(x.Params))
			break
		}
		s += " ["
		for j, c := range p {
			if j == 4 {
				s += fmt.Sprintf(" ..(%d capabilities)", len(p))
				break
			}
			s += fmt.Sprintf(" %d:%dB", c.Code, len(c.Value))
		}
		s += " ]"
	}
	return s + ")"
}

// c15JudgeOpenValue: for a representable x (at least one parameter, every
// parameter at least one capability) decode(encode(x)) = x and the encoding is
// the RFC 4271 4.2 / RFC 5492 4 encoding. For an unrepresentable x an error
// is fine; output that does not strictly parse back to x is not.
func c15JudgeOpenValue(x *refmodel.OpenValue) c15Verdict {
	if !c15Has("encodeOpen") {
		return c15Unreachable("encodeOpen")
	}
	enc, err := corebgp.VerifEncodeOpen(c15ToVerif(x))
	// not an OPEN value in the sense of the check (see Assume): only recorded
	notJudged := ""
	if len(x.Params) == 0 {
		notJudged = "no-parameters"
	}
	for _, p := range x.Params {
		if len(p) == 0 {
			notJudged = "empty-capabilities-parameter"
		}
	}
	if notJudged != "" {
		outcome := "encode-error"
		if err == nil && len(enc) >= wire.HeaderLen {
			outcome = "encoded-and-decoded"
			if !c15Has("decodeOpen") {
				outcome = "encoded"
			} else if _, derr := corebgp.VerifDecodeOpen(c15Exact(enc[wire.HeaderLen:])); derr != nil {
				outcome = "encoded-but-decode-error"
			}
		}
		return c15Verdict{Class: "not-judged:" + notJudged + ":" + outcome}
	}
	if !x.Representable() {
		if err != nil {
			return c15Verdict{Class: "unrepresentable-encode-error", Nontrivial: true}
		}
		why := "no header"
		if len(enc) >= wire.HeaderLen {
			body := c15Exact(enc[wire.HeaderLen:])
			why = "OPEN body " + c15Short(body)
			if f := refmodel.OpenFault(body); f != "" {
				why += " is malformed (" + f + ")"
			} else if !c15Has("decodeOpen") {
				why += " is well-formed"
			} else if dec, derr := corebgp.VerifDecodeOpen(body); derr != nil {
				why += " is rejected by the decoder"
			} else {
				why += " decodes to " + c15OpenDiff(dec, x)
			}
		}
		// no byte string strictly parses to an unrepresentable x, so this is always a violation
		return c15Bad("unrepresentable", "encode-wraps-length", "%s does not fit the one-octet length fields but encode returned no error: %s", c15OpenText(x), why)
	}
	if err != nil {
		return c15Bad("representable", "encode-error", "encode of representable %s failed: %v", c15OpenText(x), err)
	}
	if len(enc) < wire.HeaderLen {
		return c15Bad("representable", "encode-no-header", "encode of %s returned %d bytes", c15OpenText(x), len(enc))
	}
	if !c15Has("decodeOpen") {
		if ref := wire.Frame(wire.TypeOpen, refmodel.OpenBodyOf(x)); !bytes.Equal(enc, ref) {
			return c15Bad("representable", "encoding-not-rfc", "%s encoded as %s, RFC encoding is %s", c15OpenText(x), c15Short(enc), c15Short(ref))
		}
		return c15Unreachable("decodeOpen")
	}
	dec, err := corebgp.VerifDecodeOpen(c15Exact(enc[wire.HeaderLen:]))
	if err != nil || dec == nil {
		return c15Bad("representable", "roundtrip-decode-error", "decode(encode(x)) failed for %s: %v (encoding %s)", c15OpenText(x), err, c15Short(enc))
	}
	if d := c15OpenDiff(dec, x); d != "" {
		return c15Bad("representable", "roundtrip-field-lost", "decode(encode(x)) for %s has %s", c15OpenText(x), d)
	}
	if ref := wire.Frame(wire.TypeOpen, refmodel.OpenBodyOf(x)); !bytes.Equal(enc, ref) {
		return c15Bad("representable", "encoding-not-rfc", "%s encoded as %s, RFC encoding is %s", c15OpenText(x), c15Short(enc), c15Short(ref))
	}
	return c15Verdict{Class: "representable", Nontrivial: true}
}

// c15JudgeOpenBytes: the decoder accepts only well-formed bodies (fixed
// fields present, all nested lengths consistent), an error comes with no
// message, and an accepted body re-encodes to itself.
func c15JudgeOpenBytes(b []byte) c15Verdict {
	b = c15Exact(b)
	fault := refmodel.OpenFault(b)
	ref, rerr := wire.ParseOpenStrict(b)
	if (fault == "") != (rerr == nil) {
		panic(fmt.Sprintf("C15: the two reference parsers disagree on %x: %q / %v", b, fault, rerr))
	}
	if !c15Has("decodeOpen") {
		return c15Unreachable("decodeOpen")
	}
	in := append([]byte(nil), b...) // the decoded capabilities alias b
	dec, err := corebgp.VerifDecodeOpen(b)
	isNil, merr := corebgp.VerifMessageFromBytesNil(b, wire.TypeOpen)
	if !c15Has("messageFromBytes") {
		isNil, merr = err != nil, err
	}
	if (err == nil) != (merr == nil) {
		return c15Bad("bytes", "decode-inconsistent", "openMessage.decode and messageFromBytes disagree on %s: %v / %v", c15Short(b), err, merr)
	}
	if isNil != (merr != nil) {
		return c15Bad("bytes", "partial-result", "messageFromBytes(OPEN %s) returned message nil=%v together with error %v", c15Short(b), isNil, merr)
	}
	// non-trivial: the fixed fields are missing (must be refused), or the
	// decoder gets to look at a nested length octet
	nontrivial := fault == "" || fault == refmodel.FaultFixed || (fault != refmodel.FaultOuterLength && len(b) >= 12)
	if fault != "" {
		if err == nil {
			aspect := "accepts-bad-" + fault
			if fault == refmodel.FaultFixed {
				aspect = "accepts-missing-fixed-fields"
			}
			return c15Bad("malformed", aspect, "malformed OPEN body %s (%s) was accepted", c15Short(in), fault)
		}
		return c15Verdict{Class: "malformed-rejected:" + fault, Nontrivial: nontrivial}
	}
	// well-formed body
	x := &refmodel.OpenValue{Version: ref.Version, AS: ref.AS, Hold: ref.Hold, ID: ref.ID}
	dontCare := ""
	for _, p := range ref.Params {
		switch {
		case p.Type != 2:
			dontCare = "other-parameter-type"
		case len(p.Caps) == 0 && dontCare == "":
			dontCare = "empty-capabilities-parameter"
		}
		x.Params = append(x.Params, p.Caps)
	}
	if len(ref.Params) == 0 {
		dontCare = "no-parameters"
	}
	if err != nil {
		if dontCare != "" {
			// the property does not require these to be accepted
			return c15Verdict{Class: "wellformed-rejected:" + dontCare, Nontrivial: true}
		}
		// b is the RFC encoding of the representable value x: the value round trip decides
		v := c15JudgeOpenValue(x)
		if v.Aspect == "" && !c15Has("encodeOpen") {
			return c15Bad("wellformed", "rejects-wellformed", "well-formed OPEN body %s (%s) is rejected: %v", c15Short(in), c15OpenText(x), err)
		}
		if v.Aspect == "" {
			return c15Bad("wellformed", "rejects-own-encoding", "OPEN body %s is rejected (%v) although it is what encode produces for %s", c15Short(in), err, c15OpenText(x))
		}
		v.Class = "wellformed-rejected"
		return v
	}
	// accepted: what the decoder cannot hold it must not accept, and the
	// result must re-encode to the input
	if !c15Has("encodeOpen") {
		if d := c15OpenDiff(dec, x); d != "" && dontCare == "" {
			return c15Bad("wellformed", "decode-not-rfc", "OPEN body %s decoded with %s", c15Short(in), d)
		}
		return c15Verdict{Class: "wellformed-accepted:reencode-not-reachable", Nontrivial: true}
	}
	enc, eerr := corebgp.VerifEncodeOpen(dec)
	if eerr != nil {
		return c15Bad("wellformed", "reencode-error", "decoder accepted OPEN body %s but re-encoding failed: %v", c15Short(in), eerr)
	}
	if want := wire.Frame(wire.TypeOpen, in); !bytes.Equal(enc, want) {
		return c15Bad("wellformed", "reencode-differs", "decoder accepted OPEN body %s but encode(decode(b)) = %s", c15Short(in), c15Short(enc))
	}
	if dontCare != "" {
		return c15Verdict{Class: "wellformed-accepted:" + dontCare, Nontrivial: true}
	}
	return c15Verdict{Class: "wellformed-accepted", Nontrivial: true}
}

// ------------------------------------------------------------ capability helpers

// c15JudgeAddPathBytes: DecodeAddPathTuples succeeds iff b is a non-empty
// sequence of 4-byte tuples with send/receive in 1..3 (RFC 7911 section 4);
// then the tuples carry exactly b and NewAddPathCapability restores b.
func c15JudgeAddPathBytes(b []byte) c15Verdict {
	b = c15Exact(b)
	valid := len(b) > 0 && len(b)%4 == 0
	for i := 3; valid && i < len(b); i += 4 {
		valid = b[i] >= 1 && b[i] <= 3
	}
	tuples, err := corebgp.DecodeAddPathTuples(b)
	if !valid {
		if err == nil {
			return c15Bad("invalid", "accepts-invalid", "DecodeAddPathTuples(%s) succeeded: %+v", c15Short(b), tuples)
		}
		if tuples != nil {
			return c15Bad("invalid", "partial-result", "DecodeAddPathTuples(%s) returned %+v together with error %v", c15Short(b), tuples, err)
		}
		return c15Verdict{Class: "invalid-rejected", Nontrivial: len(b) >= 4}
	}
	if err != nil {
		return c15Bad("valid", "rejects-valid", "DecodeAddPathTuples(%s) failed: %v", c15Short(b), err)
	}
	if len(tuples) != len(b)/4 {
		return c15Bad("valid", "decode-wrong", "DecodeAddPathTuples(%s) returned %d tuples", c15Short(b), len(tuples))
	}
	for i, t := range tuples {
		o := b[4*i:]
		want := corebgp.AddPathTuple{AFI: uint16(o[0])<<8 | uint16(o[1]), SAFI: o[2], Tx: o[3]&2 != 0, Rx: o[3]&1 != 0}
		if t != want {
			return c15Bad("valid", "decode-wrong", "DecodeAddPathTuples(%s) tuple %d is %+v, RFC 7911 says %+v", c15Short(b), i, t, want)
		}
	}
	if c := corebgp.NewAddPathCapability(tuples); c.Code != 69 || !bytes.Equal(c.Value, b) {
		return c15Bad("valid", "roundtrip-differs", "NewAddPathCapability(DecodeAddPathTuples(%s)) = code %d value %s", c15Short(b), c.Code, c15Short(c.Value))
	}
	return c15Verdict{Class: "valid-accepted", Nontrivial: true}
}

// c15JudgeTupleBytes: (*AddPathTuple).Decode on a fresh tuple. Fewer than 4
// bytes or send/receive outside 1..3 fail; otherwise Encode restores b[:4].
func c15JudgeTupleBytes(b []byte) c15Verdict {
	b = c15Exact(b)
	var t corebgp.AddPathTuple
	err := t.Decode(b)
	if len(b) < 4 || b[3] < 1 || b[3] > 3 {
		if err == nil {
			return c15Bad("invalid", "accepts-invalid", "AddPathTuple.Decode(%s) succeeded: %+v", c15Short(b), t)
		}
		return c15Verdict{Class: "tuple-invalid-rejected", Nontrivial: len(b) >= 4}
	}
	if err != nil {
		return c15Bad("valid", "rejects-valid", "AddPathTuple.Decode(%s) failed: %v", c15Short(b), err)
	}
	want := corebgp.AddPathTuple{AFI: uint16(b[0])<<8 | uint16(b[1]), SAFI: b[2], Tx: b[3]&2 != 0, Rx: b[3]&1 != 0}
	if t != want {
		return c15Bad("valid", "decode-wrong", "AddPathTuple.Decode(%s) = %+v, RFC 7911 says %+v", c15Short(b), t, want)
	}
	if e := t.Encode(); !bytes.Equal(e, b[:4]) {
		return c15Bad("valid", "roundtrip-differs", "AddPathTuple.Decode(%s) then Encode = %s", c15Short(b), c15Short(e))
	}
	return c15Verdict{Class: "tuple-valid-accepted", Nontrivial: true}
}

// c15JudgeTupleValue: Encode writes AFI(2) SAFI(1) send/receive(1) and Decode
// inverts it. A tuple with neither direction has no encoding: not judged.
func c15JudgeTupleValue(afi uint16, safi byte, tx, rx bool) c15Verdict {
	t := corebgp.AddPathTuple{AFI: afi, SAFI: safi, Tx: tx, Rx: rx}
	e := t.Encode()
	if !tx && !rx {
		return c15Verdict{Class: "tuple-no-direction"}
	}
	if want := refmodel.AddPathTupleBytes(afi, safi, tx, rx); !bytes.Equal(e, want) {
		return c15Bad("value", "encoding-not-rfc", "%+v encoded as %x, RFC 7911 encoding is %x", t, e, want)
	}
	var d corebgp.AddPathTuple
	if err := d.Decode(c15Exact(e)); err != nil || d != t {
		return c15Bad("value", "roundtrip-differs", "Decode(Encode(%+v)) = %+v, %v", t, d, err)
	}
	return c15Verdict{Class: "tuple-value", Nontrivial: true}
}

// c15JudgeMPExt: RFC 4760 section 8: code 1, AFI(2) reserved(1)=0 SAFI(1).
func c15JudgeMPExt(afi uint16, safi byte) c15Verdict {
	c := corebgp.NewMPExtensionsCapability(afi, safi)
	if want := refmodel.MPExtValue(afi, safi); c.Code != 1 || !bytes.Equal(c.Value, want) {
		return c15Bad("value", "encoding-not-rfc", "NewMPExtensionsCapability(%d,%d) = code %d value %x, RFC 4760 says code 1 value %x", afi, safi, c.Code, c.Value, want)
	}
	return c15Verdict{Class: "value", Nontrivial: true}
}

// ------------------------------------------------------------------ enumeration

// c15Run is the state of one shard's enumeration.
type c15Run struct {
	c       *harness.Ctx
	idx     int               // global index of the current case
	mine    int               // cases of this shard so far
	stop    bool              // budget used up
	classes map[[2]string]int // (kind, coverage class) -> cases
	sampled map[string]bool   // kinds with a written-out sample
	key     []byte
}

// skip advances to the next case and reports whether this shard leaves it out.
func (r *c15Run) skip() bool {
	r.idx++
	if r.stop || !r.c.Mine(r.idx) {
		return true
	}
	r.mine++
	if r.mine%2048 == 0 && r.c.Expired() {
		r.stop = true
	}
	return r.stop
}

// c15Key identifies a case for the distinctness count.
func c15Key(buf []byte, cs *c15Case) []byte {
	buf = append(buf[:0], cs.Kind...)
	buf = append(buf, 0)
	switch cs.Kind {
	case c15NotifValue:
		buf = append(buf, cs.Code, cs.Sub, 0)
		if cs.DataNil {
			buf[len(buf)-1] = 1
		}
		buf = append(buf, cs.Data...)
	case c15OpenValue:
		buf = append(buf, cs.Version, byte(cs.ASN>>8), byte(cs.ASN), byte(cs.Hold>>8), byte(cs.Hold), byte(cs.ID>>24), byte(cs.ID>>16), byte(cs.ID>>8), byte(cs.ID))
		for _, p := range cs.Params {
			buf = append(buf, 'P', byte(len(p)>>8), byte(len(p)))
			for _, c := range p {
				buf = append(buf, c.Code, byte(len(c.Value)>>16), byte(len(c.Value)>>8), byte(len(c.Value)))
				buf = append(buf, c.Value...)
			}
		}
	case c15TupleValue, c15MPExt:
		buf = append(buf, byte(cs.AFI>>8), byte(cs.AFI), cs.SAFI, 0)
		if cs.Tx {
			buf[len(buf)-1] |= 2
		}
		if cs.Rx {
			buf[len(buf)-1] |= 1
		}
	default:
		buf = append(buf, cs.Bytes...)
	}
	return buf
}

// eval judges one case of this shard and records the outcome.
func (r *c15Run) eval(cs *c15Case) {
	v := c15Judge(cs)
	r.key = c15Key(r.key, cs)
	r.c.Eval(r.key, v.Nontrivial)
	r.record(cs, v)
}

// evalBulk is eval for the largest sweeps, whose cases are distinct by
// construction: only the cases the decoder or the reference accepts enter
// the distinctness count, the rest are counted as evaluations.
func (r *c15Run) evalBulk(cs *c15Case) {
	v := c15Judge(cs)
	if v.Aspect == "" && (strings.HasPrefix(v.Class, "malformed-rejected") || !v.Nontrivial) {
		r.c.Res.Evaluations++
	} else {
		r.key = c15Key(r.key, cs)
		r.c.Eval(r.key, v.Nontrivial)
	}
	r.record(cs, v)
}

func (r *c15Run) record(cs *c15Case, v c15Verdict) {
	r.classes[[2]string{cs.Kind, v.Class}]++
	if !r.sampled[cs.Kind] && v.Nontrivial && !strings.Contains(v.Class, "rejected") {
		r.sampled[cs.Kind] = true
		b, _ := json.Marshal(map[string]any{"case": cs, "class": v.Class})
		r.c.Sample(json.RawMessage(b))
	}
	if v.Aspect != "" {
		r.c.Violation(v.Aspect, "C15:"+c15Codec(cs.Kind)+":"+v.Aspect, v.Msg, cs)
	}
}

func (r *c15Run) bytesCase(kind string, b []byte) {
	if r.skip() {
		return
	}
	r.eval(&c15Case{Kind: kind, Bytes: b})
}

// c15Sigma is the alphabet of the bulk byte-string enumerations: small
// lengths, the codes 1/2/65 and the extremes.
var c15Sigma = []byte{0, 1, 2, 3, 4, 6, 65, 255}

// c15Strings calls f with every string over alpha of length lo..hi. The slice
// is reused between calls.
func c15Strings(alpha []byte, lo, hi int, f func(s []byte)) {
	for n := lo; n <= hi; n++ {
		s := make([]byte, n)
		ix := make([]int, n)
		for i := range s {
			s[i] = alpha[0]
		}
		for {
			f(s)
			p := n - 1
			for p >= 0 {
				ix[p]++
				if ix[p] < len(alpha) {
					s[p] = alpha[ix[p]]
					break
				}
				ix[p] = 0
				s[p] = alpha[0]
				p--
			}
			if p < 0 {
				break
			}
		}
	}
}

func c15All256() []byte {
	a := make([]byte, 256)
	for i := range a {
		a[i] = byte(i)
	}
	return a
}

// c15Fill returns n data bytes of pattern p: 0 zeros, 1 ones, 2 a ramp that
// starts at seed.
func c15Fill(n, p int, seed byte) []byte {
	d := make([]byte, n)
	for i := range d {
		switch p {
		case 1:
			d[i] = 0xff
		case 2:
			d[i] = seed + byte(i)*37 + 1
		}
	}
	return d
}

func (r *c15Run) notifications() {
	th := r.c.Thorough()
	// every (code, subcode) with short data
	for code := 0; code < 256; code++ {
		maxLen := 2
		if th || (code >= 1 && code <= 7) {
			maxLen = 8
		}
		for sub := 0; sub < 256; sub++ {
			for n := 0; n <= maxLen; n++ {
				for p := 0; p < 3; p++ {
					if n == 0 && p == 2 {
						continue // length 0: nil (p=0) and empty non-nil (p=1) data
					}
					if r.skip() {
						continue
					}
					cs := &c15Case{Kind: c15NotifValue, Code: byte(code), Sub: byte(sub), Data: c15Fill(n, p, byte(code^sub))}
					cs.DataNil = n == 0 && p == 0
					r.eval(cs)
				}
			}
		}
	}
	// every data length that fits a message
	codes := []int{1, 2, 3, 4, 5, 6, 7}
	subs := []int{0, 1}
	if th {
		codes = nil
		for c := 0; c < 256; c++ {
			codes = append(codes, c)
		}
		subs = []int{0, 1, 255}
	}
	for _, code := range codes {
		for _, sub := range subs {
			for n := 9; n <= wire.MaxLen-wire.HeaderLen-2; n++ {
				for _, p := range []int{1, 2} {
					if r.skip() {
						continue
					}
					r.eval(&c15Case{Kind: c15NotifValue, Code: byte(code), Sub: byte(sub), Data: c15Fill(n, p, byte(n))})
				}
			}
		}
	}
	// bodies as byte strings
	c15Strings(c15All256(), 0, 2, func(s []byte) { r.bytesCase(c15NotifBytes, s) })
	hi := 6
	if th {
		hi = 7
	}
	c15Strings(c15Sigma, 3, hi, func(s []byte) { r.bytesCase(c15NotifBytes, s) })
	for _, n := range []int{7, 8, 9, 255, 256, 257, 4076, 4077} {
		for p := 0; p < 3; p++ {
			r.bytesCase(c15NotifBytes, c15Fill(n, p, 0))
		}
	}
}

// c15Fixed is the product of the boundary values of the fixed OPEN fields.
func c15Fixed() []refmodel.OpenValue {
	var out []refmodel.OpenValue
	for _, v := range []byte{4, 0, 255} {
		for _, as := range []uint16{65001, 0, 1, 23456, 65535} {
			for _, hold := range []uint16{90, 0, 3, 65535} {
				for _, id := range []uint32{0x0a000001, 0, 1, 0xffffffff} {
					out = append(out, refmodel.OpenValue{Version: v, AS: as, Hold: hold, ID: id})
				}
			}
		}
	}
	return out
}

var c15CapCodes = []byte{65, 1, 69, 0, 255}

// c15Val is the value of the capability at position (pi, ci) with n bytes:
// distinct per position so that swapped or shifted capabilities are seen.
// The values are shared and never modified.
func c15Val(pi, ci, n int) []byte {
	k := [3]int{pi, ci, n}
	if v, ok := c15Vals[k]; ok {
		return v
	}
	v := make([]byte, n)
	for i := range v {
		v[i] = byte(16*pi + 4*ci + 7*i + 1)
	}
	c15Vals[k] = v
	return v
}

var c15Vals = map[[3]int][]byte{}

// c15Shapes calls f with every parameter layout of 1..maxParams parameters of
// 1..maxCaps capabilities whose value lengths are taken from lens; the
// capability codes rotate through c15CapCodes. The layout is reused.
func c15Shapes(maxParams, maxCaps int, lens []int, f func(params [][]wire.Cap)) {
	var params [][]wire.Cap
	var recParam func()
	var recCap func(pi int)
	recCap = func(pi int) {
		ci := len(params[pi])
		if ci > 0 {
			recParam()
		}
		if ci == maxCaps {
			return
		}
		for _, n := range lens {
			params[pi] = append(params[pi], wire.Cap{Code: c15CapCodes[(3*pi+ci)%len(c15CapCodes)], Value: c15Val(pi, ci, n)})
			recCap(pi)
			params[pi] = params[pi][:ci]
		}
	}
	recParam = func() {
		f(params)
		if len(params) == maxParams {
			return
		}
		params = append(params, nil)
		recCap(len(params) - 1)
		params = params[:len(params)-1]
	}
	params = append(params, nil)
	recCap(0)
}

// c15CapLists calls f with every list of 1..max capabilities over the full
// alphabet codes x lens.
func c15CapLists(max int, lens []int, f func(caps []wire.Cap)) {
	var alpha []wire.Cap
	for _, code := range c15CapCodes {
		for _, n := range lens {
			alpha = append(alpha, wire.Cap{Code: code, Value: c15Val(int(code), 1, n)})
		}
	}
	var caps []wire.Cap
	var rec func()
	rec = func() {
		if len(caps) > 0 {
			f(caps)
		}
		if len(caps) == max {
			return
		}
		for _, a := range alpha {
			caps = append(caps, a)
			rec()
			caps = caps[:len(caps)-1]
		}
	}
	rec()
}

func c15Repeat(n int, c wire.Cap) []wire.Cap {
	l := make([]wire.Cap, n)
	for i := range l {
		l[i] = c
	}
	return l
}

// c15BoundaryLayouts are layouts at the edge of what the one-octet length
// fields can hold (both sides of it).
func c15BoundaryLayouts() [][][]wire.Cap {
	var out [][][]wire.Cap
	one := func(n int) []wire.Cap { return []wire.Cap{{Code: 65, Value: c15Val(0, 0, n)}} }
	for _, n := range []int{247, 248, 249, 250, 251, 252, 253, 254, 255, 256, 257, 260, 511, 512, 516, 4000, 65536, 65540} {
		out = append(out, [][]wire.Cap{one(n)})
	}
	// one parameter, two capabilities: parameter value 252..256, area 254..258
	for _, a := range []int{0, 1, 100, 124, 125} {
		for total := 252; total <= 256; total++ {
			out = append(out, [][]wire.Cap{{{Code: 1, Value: c15Val(0, 0, a)}, {Code: 69, Value: c15Val(0, 1, total-4-a)}}})
		}
	}
	// two parameters, one capability each: area 254..257
	for _, a := range []int{0, 1, 100, 123} {
		for total := 254; total <= 257; total++ {
			out = append(out, [][]wire.Cap{one(a), {{Code: 2, Value: c15Val(1, 0, total-8-a)}}})
		}
	}
	// many empty capabilities in one parameter / many parameters
	for _, n := range []int{125, 126, 127, 128, 129, 255, 256} {
		out = append(out, [][]wire.Cap{c15Repeat(n, wire.Cap{Code: 70})})
	}
	for _, n := range []int{62, 63, 64, 65, 127, 128} {
		var l [][]wire.Cap
		for i := 0; i < n; i++ {
			l = append(l, []wire.Cap{{Code: byte(i)}})
		}
		out = append(out, l)
	}
	// a representable parameter next to one that is not
	out = append(out, [][]wire.Cap{one(4), one(256)}, [][]wire.Cap{one(256), one(4)}, [][]wire.Cap{one(4), c15Repeat(128, wire.Cap{Code: 70})},
		[][]wire.Cap{one(120), one(120), one(120)}, [][]wire.Cap{{{Code: 65, Value: c15Val(0, 0, 4)}, {Code: 1, Value: c15Val(0, 1, 256)}}})
	return out
}

func (r *c15Run) openValueCase(fx refmodel.OpenValue, params [][]wire.Cap) {
	if r.skip() {
		return
	}
	fx.Params = params
	r.eval(c15FromOpenValue(&fx))
}

func (r *c15Run) openValues() {
	th := r.c.Thorough()
	fixed := c15Fixed()
	// every fixed-field combination x representative layouts
	var reps [][][]wire.Cap
	c15Shapes(2, 2, []int{0, 4}, func(p [][]wire.Cap) { reps = append(reps, c15CloneParams(p)) })
	reps = append(reps, c15BoundaryLayouts()...)
	for _, fx := range fixed {
		for _, p := range reps {
			r.openValueCase(fx, p)
		}
	}
	// values the check does not judge (no parameter / a parameter without capabilities)
	for _, fx := range fixed {
		for _, p := range [][][]wire.Cap{nil, {{}}, {{{Code: 65, Value: c15Val(0, 0, 4)}}, {}}} {
			r.openValueCase(fx, p)
		}
	}
	// every shape x a few fixed-field combinations
	fewFixed := []refmodel.OpenValue{fixed[0], {Version: 255, AS: 65535, Hold: 65535, ID: 0xffffffff}, {}}
	lens := []int{0, 1, 4, 120} // 120: two fit a parameter, three do not; two parameters of one fit, plus a third of 4 bytes not
	for fi, fx := range fewFixed {
		if !th && fi > 0 {
			break
		}
		c15Shapes(2, 3, lens, func(p [][]wire.Cap) { r.openValueCase(fx, p) })
		if th {
			c15Shapes(3, 3, lens, func(p [][]wire.Cap) {
				if len(p) == 3 {
					r.openValueCase(fx, p)
				}
			})
		} else {
			c15Shapes(3, 2, lens, func(p [][]wire.Cap) {
				if len(p) == 3 {
					r.openValueCase(fx, p)
				}
			})
		}
	}
	// every capability list over the full code x length alphabet
	alens := []int{0, 1, 4, 255}
	c15CapLists(3, alens, func(a []wire.Cap) { r.openValueCase(fixed[0], [][]wire.Cap{a}) })
	two := 1
	if th {
		two = 2
	}
	c15CapLists(two, alens, func(a []wire.Cap) {
		a = append([]wire.Cap(nil), a...)
		c15CapLists(two, alens, func(b []wire.Cap) { r.openValueCase(fixed[0], [][]wire.Cap{a, b}) })
	})
}

func c15CloneParams(p [][]wire.Cap) [][]wire.Cap {
	out := make([][]wire.Cap, len(p))
	for i := range p {
		out[i] = append([]wire.Cap(nil), p[i]...)
	}
	return out
}

// c15Head is a valid 10-byte fixed part with the given Opt Parm Len octet.
func c15Head(fx refmodel.OpenValue, optLen byte) []byte {
	fx.Params = nil
	b := refmodel.OpenBodyOf(&fx)
	b[9] = optLen
	return b
}

// openArea evaluates the body "fixed part + area" with the true Opt Parm Len
// octet and, if mutateOuter, with the octet set to true-1, true+1, 0 and 255.
func (r *c15Run) openArea(fx refmodel.OpenValue, area []byte, mutateOuter, bulk bool) {
	t := len(area)
	if t > 255 {
		panic("C15: openArea needs an area the length octet can hold")
	}
	octets := [5]int{t, t - 1, t + 1, 0, 255}
	n := 1
	if mutateOuter {
		n = 5
	}
	for i := 0; i < n; i++ {
		l := octets[i]
		dup := l < 0 || l > 255
		for j := 0; j < i; j++ {
			dup = dup || octets[j] == l
		}
		if dup || r.skip() {
			continue
		}
		cs := &c15Case{Kind: c15OpenBytes, Bytes: append(c15Head(fx, byte(l)), area...)}
		if bulk {
			r.evalBulk(cs)
		} else {
			r.eval(cs)
		}
	}
}

func (r *c15Run) openBytes() {
	th := r.c.Thorough()
	fixed := c15Fixed()
	valid := fixed[0]
	// bodies without all fixed fields
	c15Strings(c15All256(), 0, 2, func(s []byte) { r.bytesCase(c15OpenBytes, s) })
	full := wire.OpenBody(4, 65001, 90, 0x0a000001, wire.CapParam(wire.Cap4(65001)))
	for n := 3; n <= 9; n++ {
		r.bytesCase(c15OpenBytes, full[:n])
		for p := 0; p < 3; p++ {
			r.bytesCase(c15OpenBytes, c15Fill(n, p, 0))
		}
		// the tail of a valid OPEN: looks like parameters but the fixed fields are missing
		r.bytesCase(c15OpenBytes, full[len(full)-n:])
	}
	// every short string over the alphabet after a valid fixed part
	c15Strings(c15Sigma, 0, 7, func(s []byte) { r.openArea(valid, s, true, false) })
	if th {
		// length 8 reaches two complete parameters; true length octet only
		c15Strings(c15Sigma, 8, 8, func(s []byte) { r.openArea(valid, s, false, true) })
	}
	// the C02 layout set (incl. its truncations and length-octet mutations) x fixed parts
	layouts := c02Layouts(c02Cfgs[0], th)
	someFixed := []refmodel.OpenValue{valid, {Version: 0, AS: 0, Hold: 0, ID: 0}, {Version: 255, AS: 65535, Hold: 65535, ID: 0xffffffff}, {Version: 4, AS: 23456, Hold: 3, ID: 1}}
	for _, fx := range someFixed {
		for _, o := range layouts {
			if r.skip() {
				continue
			}
			r.eval(&c15Case{Kind: c15OpenBytes, Bytes: append(c15Head(fx, o.l), o.opt...)})
		}
	}
	// every fixed-field combination x a few areas
	few := [][]byte{wire.CapParam(wire.Cap4(65001)), append(wire.CapParam(wire.Cap4(1)), wire.CapParam(wire.Cap{Code: 1, Value: []byte{0, 1, 0, 1}})...), {2, 6, 65, 4, 0, 0, 0}, {}}
	for _, fx := range fixed {
		for _, a := range few {
			r.openArea(fx, a, true, false)
		}
	}
	// every well-formed representable layout: each nested length octet
	// mutated, each truncation, one stray byte appended
	mutate := func(p [][]wire.Cap) {
		x := valid
		x.Params = p
		if !x.Representable() {
			return
		}
		area, lenPos := refmodel.OpenArea(&x)
		r.openArea(valid, area, true, false)
		for _, pos := range lenPos {
			old := area[pos]
			for _, nv := range []int{int(old) - 1, int(old) + 1, 0, 255} {
				if nv < 0 || nv > 255 || nv == int(old) {
					continue
				}
				area[pos] = byte(nv)
				r.openArea(valid, area, false, false)
			}
			area[pos] = old
		}
		for cut := 0; cut < len(area); cut++ {
			r.openArea(valid, area[:cut], false, false)
			if r.skip() {
				continue
			}
			r.eval(&c15Case{Kind: c15OpenBytes, Bytes: append(c15Head(valid, byte(len(area))), area[:cut]...)})
		}
		if len(area) < 255 {
			for _, extra := range []byte{0, 2} {
				r.openArea(valid, append(append([]byte(nil), area...), extra), true, false)
			}
		}
	}
	mlens := []int{0, 1, 4}
	if th {
		c15Shapes(3, 3, mlens, mutate)
		c15Shapes(2, 2, []int{0, 2, 100}, mutate)
	} else {
		c15Shapes(2, 3, mlens, mutate)
		c15Shapes(3, 1, mlens, func(p [][]wire.Cap) {
			if len(p) == 3 {
				mutate(p)
			}
		})
	}
	for _, p := range c15BoundaryLayouts() {
		mutate(p)
	}
	// every single-byte substitution (all 256 values at every position, fixed
	// part included) of small well-formed bodies
	subMax := 1
	if th {
		subMax = 2
	}
	c15Shapes(2, subMax, mlens, func(p [][]wire.Cap) {
		x := valid
		x.Params = p
		body := refmodel.OpenBodyOf(&x)
		for pos := range body {
			old := body[pos]
			for v := 0; v < 256; v++ {
				body[pos] = byte(v)
				r.bytesCase(c15OpenBytes, body)
			}
			body[pos] = old
		}
	})
	// long bodies: a full 255-byte area followed by more bytes, up to the maximum body
	x := valid
	x.Params = [][]wire.Cap{{{Code: 65, Value: c15Val(0, 0, 251)}}}
	fullArea, _ := refmodel.OpenArea(&x)
	for _, n := range []int{256, 257, 258, 259, 511, 512, 4066, 4067} {
		for _, tail := range [][]byte{{0}, {2, 0}, {2, 2, 65, 0}} {
			area := append([]byte(nil), fullArea...)
			for len(area) < n {
				area = append(area, tail...)
			}
			area = area[:n]
			for _, l := range []int{255, n & 255, 0} {
				r.bytesCase(c15OpenBytes, append(c15Head(valid, byte(l)), area...))
			}
		}
	}
}

func (r *c15Run) helpers() {
	afis := []uint16{0, 1, 2, 65535}
	safis := []byte{0, 1, 128, 255}
	var tuples1, tuples [][]byte // all send/receive octets; the reduced set
	for _, afi := range afis {
		for _, safi := range safis {
			for sr := 0; sr < 256; sr++ {
				t := []byte{byte(afi >> 8), byte(afi), safi, byte(sr)}
				tuples1 = append(tuples1, t)
				if sr <= 4 || sr == 255 {
					tuples = append(tuples, t)
				}
			}
		}
	}
	cat := func(ts ...[]byte) []byte {
		var b []byte
		for _, t := range ts {
			b = append(b, t...)
		}
		return b
	}
	for _, a := range tuples1 {
		r.bytesCase(c15AddPathBytes, a)
		// the single-tuple decoder, also with fewer and more than 4 bytes
		for n := 0; n <= 4; n++ {
			r.bytesCase(c15TupleBytes, a[:n])
		}
		r.bytesCase(c15TupleBytes, cat(a, []byte{0, 1, 1, 0}))
	}
	for _, a := range tuples {
		for _, b := range tuples {
			r.bytesCase(c15AddPathBytes, cat(a, b))
			for _, c := range tuples {
				r.bytesCase(c15AddPathBytes, cat(a, b, c))
			}
		}
	}
	// every length 0..13 incl. trailing partial tuples, from valid and invalid tuples
	for _, src := range [][]byte{cat([]byte{0, 1, 1, 1}, []byte{0, 2, 1, 2}, []byte{0, 1, 128, 3}, []byte{0, 2, 128, 3}), c15Fill(16, 0, 0), c15Fill(16, 1, 0), bytes.Repeat([]byte{1, 2, 3}, 6), bytes.Repeat([]byte{3}, 16)} {
		for n := 0; n <= 13; n++ {
			r.bytesCase(c15AddPathBytes, src[:n])
		}
	}
	// long lists
	for _, n := range []int{63, 64, 1000} {
		r.bytesCase(c15AddPathBytes, bytes.Repeat([]byte{0, 1, 1, 3}, n))
		r.bytesCase(c15AddPathBytes, append(bytes.Repeat([]byte{0, 1, 1, 3}, n), 0, 1, 1, 4))
		r.bytesCase(c15AddPathBytes, append(bytes.Repeat([]byte{0, 1, 1, 3}, n), 0, 1, 1))
	}
	// tuple values and the multiprotocol capability: boundary AFIs are counted
	// as distinct cases, the remaining AFIs only as evaluations
	for afi := 0; afi < 65536; afi++ {
		counted := afi <= 2 || afi == 255 || afi == 256 || afi == 65535
		for safi := 0; safi < 256; safi++ {
			if r.skip() {
				continue
			}
			cases := []*c15Case{{Kind: c15MPExt, AFI: uint16(afi), SAFI: byte(safi)}}
			for d := 1; d < 4; d++ { // a tuple with neither direction has no encoding: left out
				cases = append(cases, &c15Case{Kind: c15TupleValue, AFI: uint16(afi), SAFI: byte(safi), Tx: d&2 != 0, Rx: d&1 != 0})
			}
			for _, cs := range cases {
				if counted {
					r.eval(cs)
					continue
				}
				v := c15Judge(cs)
				r.c.Res.Evaluations++
				r.record(cs, v)
			}
		}
	}
}

// c15Retention: the result of one encode must not change when further messages are
// encoded (sequences of encodes before any result is consumed): for windows of 2..6
// consecutive values of a mixed list, all are encoded first and compared with the
// reference encodings afterwards.
func c15Retention(c *harness.Ctx) {
	if c.Shard != 0 || !c15Has("encodeNotification") || !c15Has("encodeOpen") {
		return
	}
	type val struct {
		n *corebgp.Notification
		o *corebgp.VerifOpen
	}
	var vals []val
	for i := 0; i < 40; i++ {
		switch i % 4 {
		case 0:
			vals = append(vals, val{n: &corebgp.Notification{Code: byte(1 + i%7), Subcode: byte(i), Data: bytes.Repeat([]byte{byte(i)}, i)}})
		case 1:
			vals = append(vals, val{o: &corebgp.VerifOpen{Version: 4, ASN: uint16(64512 + i), HoldTime: uint16(i * 3), BGPID: uint32(0x0a000000 + i),
				Params: [][]corebgp.Capability{{{Code: 65, Value: []byte{0, 0, byte(i), 1}}, {Code: 1, Value: []byte{0, 1, 0, byte(i)}}}}}})
		case 2:
			vals = append(vals, val{n: &corebgp.Notification{Code: 6, Subcode: byte(i)}})
		default:
			vals = append(vals, val{o: &corebgp.VerifOpen{Version: 4, ASN: 23456, HoldTime: 90, BGPID: uint32(i),
				Params: [][]corebgp.Capability{{{Code: 65, Value: []byte{0xfa, 0x56, 0xea, byte(i)}}, {Code: 200, Value: bytes.Repeat([]byte{byte(i)}, 3*i)}}}}})
		}
	}
	enc := func(v val) ([]byte, []byte) {
		if v.n != nil {
			b, _ := corebgp.VerifEncodeNotification(v.n)
			return b, wire.Notification(v.n.Code, v.n.Subcode, v.n.Data)
		}
		b, _ := corebgp.VerifEncodeOpen(v.o)
		var caps []wire.Cap
		for _, cp := range v.o.Params[0] {
			caps = append(caps, wire.Cap{Code: cp.Code, Value: cp.Value})
		}
		return b, wire.Frame(wire.TypeOpen, wire.OpenBody(v.o.Version, v.o.ASN, v.o.HoldTime, v.o.BGPID, wire.CapParam(caps...)))
	}
	for win := 2; win <= 6; win++ {
		for start := 0; start+win <= len(vals); start++ {
			var got, want [][]byte
			for _, v := range vals[start : start+win] {
				g, w := enc(v)
				got, want = append(got, g), append(want, w)
			}
			c.Eval([]byte(fmt.Sprintf("retention/%d/%d", win, start)), true)
			for i := range got {
				if !bytes.Equal(got[i], want[i]) {
					c.Violation("encode-result-changed", "C15:codec:encode-result-not-stable", fmt.Sprintf("the bytes returned by encode #%d of a sequence of %d encodes changed after later encodes (now %x.., reference %x..): decode(encode(x)) no longer yields x", i+1, win, trunc(got[i]), trunc(want[i])),
						map[string]any{"retention_window": win, "start": start})
					return
				}
			}
		}
	}
}

func c15Check(c *harness.Ctx) {
	r := &c15Run{c: c, classes: map[[2]string]int{}, sampled: map[string]bool{}}
	r.notifications()
	r.openValues()
	r.openBytes()
	r.helpers()
	c15Retention(c)
	c.Res.Extra["min_wrappers_not_bindable"] = float64(len(corebgp.VerifStubbed))
	if len(corebgp.VerifStubbed) > 0 {
		c.Res.Exhaustive = false // part of the stated input space could not be judged on this tree
	}
	for k, n := range r.classes {
		c.Res.Extra[k[0]+":"+k[1]] = float64(n)
	}
}

func init() {
	harness.Register(&harness.Check{
		Property:  "C15",
		Level:     "exploration",
		NeedsConc: false,
		QuickS:    120, ThoroughS: 900,
		Rule: "bounded-exhaustive enumeration of codec inputs, each judged against reference codecs written from RFC 4271 4.2/4.5, RFC 5492 4, RFC 7911 4, RFC 4760 8: " +
			"NOTIFICATION values (all code x subcode x data lengths 0..8 [quick: 0..2, and 0..8 for codes 1-7], codes 1-7 x subcodes {0,1} [thorough: all codes x subcodes {0,1,255}] x every data length 9..4075, 2-3 fill patterns, nil and empty data) and bodies (all strings <=2 bytes, strings <=6|7 over the alphabet {0,1,2,3,4,6,65,255}, selected lengths up to 4077); " +
			"OPEN values (boundary product of the fixed fields x representative and 255-byte-limit layouts; layouts of <=3 parameters x <=3 capabilities [quick: <=2 x <=3 and 3 x <=2] x value lengths {0,1,4,120}; capability lists over codes {65,1,69,0,255} x lengths {0,1,4,255}; representable or not) and bodies (strings <=7 over the alphabet after a valid fixed part x Opt Parm Len octet {true,-1,+1,0,255} [thorough: also length 8, true octet], the C02 layout set x 4 fixed parts, every single length-octet mutation {-1,+1,0,255} / truncation / stray byte of the representable layouts, every single-byte substitution of small bodies, bodies shorter than 10, bodies up to 4077 bytes); " +
			"add-path tuple lists of <=3 tuples over AFI {0,1,2,65535} x SAFI {0,1,128,255} x send/receive 0..255 (reduced to {0..4,255} for 2-3 tuples), lengths 0..13; tuple values and NewMPExtensionsCapability for all 65536 AFI x 256 SAFI. " +
			"distinct = distinct (kind, input); non-trivial = every value case, every byte string that is well-formed, lacks the fixed fields, or is malformed at a nested length octet the decoder gets to see (not: outer length octet wrong, tuple strings shorter than 4). Counted as evaluations only (distinct by construction): the non-boundary AFIs of the helper sweep and the rejected strings of the length-8 sweep",
		Assume: []string{
			"the unexported codecs are reached through the overlay file export/zz_verif_export.go.txt, whose wrappers contain no logic",
			"an OPEN value is a list of capabilities parameters (the only parameter kind corebgp can hold) with at least one parameter and at least one capability per parameter; well-formed bodies with another parameter type, an empty capabilities parameter or no parameters at all may be rejected (not judged)",
			"'error rather than a partial result' is judged at messageFromBytes, the only caller of the decoders",
		},
		Run: c15Check,
		Replay: func(c *harness.Ctx, raw json.RawMessage) {
			var cs c15Case
			if err := json.Unmarshal(raw, &cs); err != nil {
				panic(err)
			}
			if v := c15Judge(&cs); v.Aspect != "" {
				c.Violation(v.Aspect, "C15:"+c15Codec(cs.Kind)+":"+v.Aspect, v.Msg, &cs)
			}
		},
	})
}
