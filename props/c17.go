package props

import (
	"encoding/json"
	"errors"
	"fmt"

	"github.com/jwhited/corebgp"

	"corebgpverif/harness"
	"corebgpverif/refmodel"
)

// C17: UpdateDecoder reports errors with the RFC 7606 approach they require,
// and UpdateNotificationFromErr picks the notification by severity.

// ---------------------------------------------------------------------------
// adapter: concrete error tree -> abstract tree of the reference model

func updNotif(n *corebgp.Notification) *refmodel.Notif {
	if n == nil {
		return nil
	}
	return &refmodel.Notif{Code: n.Code, Sub: n.Subcode, Data: n.Data}
}

// updAbstract maps an error tree (errors.Join / %w wrapping) to the abstract
// tree. The embedded fallback notification of a treat-as-withdraw or
// attribute-discard error is an attribute of that node, not a child.
func updAbstract(err error) *refmodel.ErrNode {
	if err == nil {
		return nil
	}
	n := &refmodel.ErrNode{Kind: refmodel.ErrForeign}
	switch x := err.(type) {
	case *corebgp.Notification:
		n.Kind, n.Notif = refmodel.ErrReset, updNotif(x)
	case *corebgp.TreatAsWithdrawUpdateErr:
		n.Kind, n.Notif = refmodel.ErrWithdraw, updNotif(x.Notification)
	case *corebgp.AttrDiscardUpdateErr:
		n.Kind, n.Notif = refmodel.ErrDiscard, updNotif(x.Notification)
	case corebgp.UpdateError:
		n.Kind, n.Notif = refmodel.ErrCustom, updNotif(x.AsSessionReset())
	}
	switch n.Kind {
	case refmodel.ErrReset, refmodel.ErrWithdraw, refmodel.ErrDiscard:
		// the library's three error classes are leaves of the tree the property talks about: the fallback
		// notification inside a treat-as-withdraw / attribute-discard error is an attribute of the node
		// whether or not the type also offers it through an Unwrap method
		return n
	}
	switch x := err.(type) {
	case interface{ Unwrap() error }:
		if c := x.Unwrap(); c != nil {
			n.Children = append(n.Children, updAbstract(c))
		}
	case interface{ Unwrap() []error }:
		for _, c := range x.Unwrap() {
			if c != nil {
				n.Children = append(n.Children, updAbstract(c))
			}
		}
	}
	return n
}

func sameNotifPtr(a, b *refmodel.Notif) bool {
	if a == nil || b == nil {
		return a == b
	}
	return a.Same(*b)
}

func sameTree(a, b *refmodel.ErrNode) bool {
	if a.Kind != b.Kind || !sameNotifPtr(a.Notif, b.Notif) || len(a.Children) != len(b.Children) {
		return false
	}
	for i := range a.Children {
		if !sameTree(a.Children[i], b.Children[i]) {
			return false
		}
	}
	return true
}

// notifFromErr calls UpdateNotificationFromErr, catching a panic.
func notifFromErr(err error) (n *corebgp.Notification, panicked any) {
	defer func() { panicked = recover() }()
	return corebgp.UpdateNotificationFromErr(err), nil
}

func notifText(n *corebgp.Notification) string {
	if n == nil {
		return "nil"
	}
	return fmt.Sprintf("(%d,%d,%x)", n.Code, n.Subcode, n.Data)
}

func refNotifText(n refmodel.Notif) string { return fmt.Sprintf("(%d,%d,%x)", n.Code, n.Sub, n.Data) }

// ---------------------------------------------------------------------------
// part 1+2: Decode on UPDATE bodies x callback behaviours

type c17Runner struct {
	rec       *updRec
	p         refmodel.UpdatePartition
	got, want []updEv
	err       error
	notif     *corebgp.Notification
	dcMP      int // accepted through the repeated-MP-overrun alternative
	dcNextHop int // NLRI without NEXT_HOP: nil-ness / class not judged
	nilOK     int // cases in which Decode had to and did return nil
}

func newC17Runner() *c17Runner { return &c17Runner{rec: newUpdRec()} }

// c17Facts is what the recorded run says, independent of the partition.
type c17Facts struct {
	tree   *refmodel.ErrNode
	stop   int              // index of the first invocation that returned a notification-class error, -1 if none
	cbMax  refmodel.ErrKind // strongest class among the errors the callbacks returned
	anyErr bool
}

// judge decodes body with the behaviours beh and judges the outcome; it
// returns the aspect of a disagreement ("" if none).
func (r *c17Runner) judge(body, beh []byte) (aspect, msg string) {
	refmodel.PartitionUpdate(body, &r.p)
	var pan any
	r.err, pan = r.rec.run(body, beh)
	r.notif = nil
	r.want = updExpected(&r.p, r.want)
	r.got = r.rec.normalised(r.got)
	if pan != nil {
		if len(body) > 0xffff {
			return "panic", fmt.Sprintf("Decode panicked on a %d byte body: %v", len(body), pan)
		}
		return "panic-below-64k", fmt.Sprintf("Decode panicked on a %d byte body: %v", len(body), pan)
	}
	err := r.err
	f := c17Facts{tree: updAbstract(err), stop: -1}

	// UpdateNotificationFromErr on whatever Decode returned
	r.notif, pan = notifFromErr(err)
	switch {
	case pan != nil:
		return "notification-from-err:panic", fmt.Sprintf("UpdateNotificationFromErr panicked: %v", pan)
	case err == nil && r.notif != nil:
		return "notification-from-err:non-nil-for-nil", "UpdateNotificationFromErr(nil) = " + notifText(r.notif)
	case err != nil && r.notif == nil:
		return "notification-from-err:nil-for-error", fmt.Sprintf("UpdateNotificationFromErr(%q) = nil", err)
	case err != nil:
		if want := refmodel.SeverityWalk(f.tree); !want.Same(*updNotif(r.notif)) {
			return "notification-from-err:" + refmodel.Strongest(f.tree).String(),
				fmt.Sprintf("UpdateNotificationFromErr of Decode's error %q = %s, severity walk gives %s", err, notifText(r.notif), refNotifText(want))
		}
	}

	// every error a callback returned is in the tree; nothing runs after the
	// first notification-class one
	for i, cl := range r.rec.calls {
		if cl.ret == nil {
			continue
		}
		f.anyErr = true
		if err == nil {
			return "nil-despite-callback-error", fmt.Sprintf("invocation %d returned %q but Decode returned nil", i, cl.ret)
		}
		if !errors.Is(err, cl.ret) {
			return "callback-error-lost", fmt.Sprintf("invocation %d returned %q, which is not in Decode's error %q", i, cl.ret, err)
		}
		k := refmodel.Strongest(updAbstract(cl.ret))
		f.cbMax = max(f.cbMax, k)
		if k == refmodel.ErrReset && f.stop < 0 {
			f.stop = i
		}
	}
	if f.stop >= 0 && f.stop != len(r.rec.calls)-1 {
		return "callback-after-notification", fmt.Sprintf("invocation %d returned a notification-class error but %d more callbacks ran", f.stop, len(r.rec.calls)-1-f.stop)
	}

	aspect, msg = r.judgeReading(&r.p, r.want, f)
	if aspect != "" && r.p.OverrunIsRepeatedMP && repeatedMPOverrunMayAbort {
		alt := r.p.AltRepeatedMP()
		if a, _ := r.judgeReading(alt, updExpected(alt, nil), f); a == "" {
			r.dcMP++
			return "", ""
		}
	}
	return aspect, msg
}

// judgeReading judges the run against one reading p of the body.
func (r *c17Runner) judgeReading(p *refmodel.UpdatePartition, want []updEv, f c17Facts) (aspect, msg string) {
	err, n := r.err, r.notif
	strongest := refmodel.Strongest(f.tree)

	// message-level length faults: session reset before any callback
	if p.Fault != refmodel.UpdOK {
		switch {
		case len(r.rec.calls) > 0:
			return "callback-despite-length-overrun", fmt.Sprintf("%d callbacks ran although the body has a message-level fault (%v)", len(r.rec.calls), p.Fault)
		case err == nil:
			return "nil-for-length-overrun", fmt.Sprintf("Decode returned nil for a body with a message-level fault (%v)", p.Fault)
		case strongest != refmodel.ErrReset:
			return "length-overrun-class", fmt.Sprintf("message-level fault (%v) reported as %v, not as a *Notification: %q", p.Fault, strongest, err)
		case n.Code != 3 || (p.Fault != refmodel.UpdShort && n.Subcode != 1):
			return "length-overrun-notification", fmt.Sprintf("message-level fault (%v) reported as %s, expected UPDATE Message Error / Malformed Attribute List (3,1)", p.Fault, notifText(n))
		}
		return "", ""
	}

	// which callbacks ran: everything the partition dictates, cut short only
	// by a notification-class callback error
	if a, m := updDiff(p, r.got, want, f.stop >= 0); a != "" {
		return "callbacks:" + a, m
	}

	if f.stop >= 0 {
		// session reset requested by a callback
		ret := r.rec.calls[f.stop].ret
		if strongest != refmodel.ErrReset {
			return "callback-notification-class", fmt.Sprintf("callback returned %q but the strongest element of %q is %v", ret, err, strongest)
		}
		if want := refmodel.SeverityWalk(updAbstract(ret)); !want.Same(*updNotif(n)) {
			return "callback-notification-not-reported", fmt.Sprintf("callback returned %q (%s) but Decode's error maps to %s", ret, refNotifText(want), notifText(n))
		}
		return "", ""
	}

	if p.RepeatedMP {
		switch {
		case err == nil:
			return "nil-for-repeated-mp", "Decode returned nil for a repeated MP_REACH_NLRI / MP_UNREACH_NLRI"
		case strongest != refmodel.ErrReset:
			return "repeated-mp-class", fmt.Sprintf("repeated MP attribute reported as %v, not as a *Notification: %q", strongest, err)
		case n.Code != 3 || n.Subcode != 1:
			return "repeated-mp-notification", fmt.Sprintf("repeated MP attribute reported as %s, expected Malformed Attribute List (3,1)", notifText(n))
		}
		return "", ""
	}

	// no session reset: attribute overrun and missing mandatory attributes
	// are treat-as-withdraw; callback errors keep their class
	missing := p.MissingMandatory()
	withAttrs := "" // the two signatures about an unreported missing attribute tell an empty attribute block from a non-empty one
	if p.AttrLen > 0 {
		withAttrs = "-with-attrs"
	}
	mustErr := f.anyErr || p.Overrun || len(missing) > 0
	nhSilent := p.NextHopSilent() // the property is silent on NEXT_HOP: an additional treat-as-withdraw is accepted
	if !mustErr {
		switch {
		case nhSilent:
			r.dcNextHop++ // nil-ness not judged
		case err != nil:
			return "error-for-valid-update", fmt.Sprintf("Decode returned %q for a consistent UPDATE whose callbacks returned nil", err)
		default:
			r.nilOK++
		}
		return "", ""
	}
	if err == nil { // a callback error with a nil result was reported by the caller
		if p.Overrun {
			return "nil-for-attribute-overrun", "Decode returned nil although an attribute overruns the attribute block"
		}
		return "nil-for-missing-mandatory" + withAttrs, fmt.Sprintf("Decode returned nil although routes are announced (NLRI %d bytes, MP_REACH_NLRI %v) without mandatory attribute(s) %v", len(p.NLRI), p.Has(14), missing)
	}
	wantClass := f.cbMax
	if p.Overrun || len(missing) > 0 {
		wantClass = max(wantClass, refmodel.ErrWithdraw)
	}
	classAspect := func() string {
		switch {
		case f.anyErr:
			return "strongest-class"
		case p.Overrun:
			return "attribute-overrun-class"
		}
		return "missing-mandatory-class"
	}
	classMsg := func() string {
		return fmt.Sprintf("strongest element of %q is %v, prescribed: %v (overrun=%v missing=%v strongest callback error=%v)", err, strongest, wantClass, p.Overrun, missing, f.cbMax)
	}
	if strongest > wantClass {
		if nhSilent && strongest == refmodel.ErrWithdraw {
			r.dcNextHop++
			return "", ""
		}
		return classAspect(), classMsg()
	}
	// The missing-attribute error is a treat-as-withdraw carrying (3,3,[type])
	// as fallback. Not judged after an overrun (the rest of the block is
	// unknown) nor when a callback asked for something stronger.
	if len(missing) > 0 && !p.Overrun && wantClass == refmodel.ErrWithdraw {
		inTree, mapped := false, false
		for _, t := range missing {
			fb := refmodel.Notif{Code: 3, Sub: 3, Data: []byte{t}}
			inTree = inTree || refmodel.FindWithdrawFallback(f.tree, fb)
			mapped = mapped || fb.Same(*updNotif(n))
		}
		if !inTree {
			return "missing-mandatory-not-reported" + withAttrs, fmt.Sprintf("routes announced without mandatory attribute(s) %v: %q has no treat-as-withdraw error with fallback Missing Well-known Attribute (3,3,[type])", missing, err)
		}
		if !f.anyErr && !mapped {
			return "missing-mandatory-notification", fmt.Sprintf("mandatory attribute(s) %v missing and nothing else wrong, but the error maps to %s instead of (3,3,[type])", missing, notifText(n))
		}
	}
	if strongest < wantClass {
		return classAspect(), classMsg()
	}
	return "", ""
}

func (r *c17Runner) describe() map[string]any {
	var got, want, rets []string
	for _, e := range r.got {
		got = append(got, e.String())
	}
	for _, e := range r.want {
		want = append(want, e.String())
	}
	for i, cl := range r.rec.calls {
		if cl.ret != nil {
			rets = append(rets, fmt.Sprintf("invocation %d -> %s: %q", i, behNames[r.rec.beh[i]], cl.ret))
		}
	}
	d := map[string]any{"reference_fault": r.p.Fault.String(), "reference_calls": want, "recorded_calls": got, "callback_errors": rets,
		"attribute_overrun": r.p.Overrun, "repeated_mp": r.p.RepeatedMP, "announces": r.p.Announces(), "missing_mandatory": fmt.Sprint(r.p.MissingMandatory()),
		"decode_error": fmt.Sprint(r.err), "strongest_class": refmodel.Strongest(updAbstract(r.err)).String(), "notification_from_err": notifText(r.notif)}
	return d
}

// c17Vectors lists the behaviour vectors tried for an input whose all-nil
// run made n invocations: every assignment of the 8 behaviours to the first
// three invocations, and every vector with at most two non-nil entries at any
// position. Vectors with a non-nil entry behind a notification-class entry
// are left out (that entry can never be reached).
func c17Vectors(n int) [][]byte {
	n = min(n, 8)
	var out [][]byte
	seen := map[string]bool{}
	add := func(v []byte) {
		reset := false
		for _, b := range v {
			if reset && b != behNil {
				return
			}
			reset = reset || b == behNotif || b == behWrapNotif || b == behJoinDiscardNotif
		}
		if !seen[string(v)] {
			seen[string(v)] = true
			out = append(out, append([]byte{}, v...))
		}
	}
	v := make([]byte, n)
	k := min(n, 3)
	total := 1
	for i := 0; i < k; i++ {
		total *= behCount
	}
	for a := 0; a < total; a++ {
		d := a
		for i := 0; i < k; i++ {
			v[i] = byte(d % behCount)
			d /= behCount
		}
		add(v)
	}
	for i := range v {
		v[i] = behNil
	}
	for i := 0; i < n; i++ {
		for bi := 1; bi < behCount; bi++ {
			v[i] = byte(bi)
			add(v)
			for j := i + 1; j < n; j++ {
				for bj := 1; bj < behCount; bj++ {
					v[j] = byte(bj)
					add(v)
				}
				v[j] = behNil
			}
		}
		v[i] = behNil
	}
	return out
}

// c17Seqs: every type sequence of <= maxL attributes, one shape assignment
// each (rotating with the index of the sequence).
func c17Seqs(maxL int) [][]updAttrSpec {
	var out [][]updAttrSpec
	for k, ts := range updTypeSeqs(maxL) {
		out = append(out, updSeqOf(ts, func(i int) int { return k + 5*i }))
	}
	return out
}

// ---------------------------------------------------------------------------
// part 3: UpdateNotificationFromErr on enumerated error trees

type c17Custom struct{ id byte }

func (e *c17Custom) Error() string { return fmt.Sprintf("custom update error %d", e.id) }
func (e *c17Custom) AsSessionReset() *corebgp.Notification {
	return &corebgp.Notification{Code: 3, Subcode: 11, Data: []byte{e.id}}
}

// Error trees are written in prefix notation. Leaves: a, b notifications;
// T / t treat-as-withdraw with / without fallback; D / d attribute-discard
// with / without fallback; U custom UpdateError; F foreign error. Inner
// nodes: w = fmt.Errorf("%w") of one child, 2 / 3 = errors.Join of two / three
// children, m = fmt.Errorf("%w %w") of two children. Every leaf carries its
// pre-order index, so "earliest among equals" is observable.
const (
	c17Leaves = "abTtDdUF"
	c17Inner  = "w2m3"
)

var c17Arity = map[byte]int{'w': 1, '2': 2, 'm': 2, '3': 3}

// c17Build builds the error value and, independently, the abstract tree.
func c17Build(shape string) (error, *refmodel.ErrNode) {
	pos, leaf := 0, byte(0)
	var build func() (error, *refmodel.ErrNode)
	build = func() (error, *refmodel.ErrNode) {
		ch := shape[pos]
		pos++
		if ar, ok := c17Arity[ch]; ok {
			errs := make([]error, ar)
			node := &refmodel.ErrNode{Kind: refmodel.ErrForeign}
			for i := range errs {
				var c *refmodel.ErrNode
				errs[i], c = build()
				node.Children = append(node.Children, c)
			}
			switch ch {
			case 'w':
				return fmt.Errorf("wrapped: %w", errs[0]), node
			case 'm':
				return fmt.Errorf("both: %w, %w", errs[0], errs[1]), node
			}
			return errors.Join(errs...), node
		}
		leaf++
		id := []byte{leaf}
		switch ch {
		case 'a':
			return &corebgp.Notification{Code: 3, Subcode: 1, Data: id}, &refmodel.ErrNode{Kind: refmodel.ErrReset, Notif: &refmodel.Notif{Code: 3, Sub: 1, Data: id}}
		case 'b':
			return &corebgp.Notification{Code: 6, Subcode: 2, Data: id}, &refmodel.ErrNode{Kind: refmodel.ErrReset, Notif: &refmodel.Notif{Code: 6, Sub: 2, Data: id}}
		case 'T':
			return &corebgp.TreatAsWithdrawUpdateErr{Code: leaf, Notification: &corebgp.Notification{Code: 3, Subcode: 4, Data: id}},
				&refmodel.ErrNode{Kind: refmodel.ErrWithdraw, Notif: &refmodel.Notif{Code: 3, Sub: 4, Data: id}}
		case 't':
			return &corebgp.TreatAsWithdrawUpdateErr{Code: leaf}, &refmodel.ErrNode{Kind: refmodel.ErrWithdraw}
		case 'D':
			return &corebgp.AttrDiscardUpdateErr{Code: leaf, Notification: &corebgp.Notification{Code: 3, Subcode: 5, Data: id}},
				&refmodel.ErrNode{Kind: refmodel.ErrDiscard, Notif: &refmodel.Notif{Code: 3, Sub: 5, Data: id}}
		case 'd':
			return &corebgp.AttrDiscardUpdateErr{Code: leaf}, &refmodel.ErrNode{Kind: refmodel.ErrDiscard}
		case 'U':
			return &c17Custom{id: leaf}, &refmodel.ErrNode{Kind: refmodel.ErrCustom, Notif: &refmodel.Notif{Code: 3, Sub: 11, Data: id}}
		case 'F':
			return errors.New("foreign"), &refmodel.ErrNode{Kind: refmodel.ErrForeign}
		}
		panic("bad tree shape " + shape)
	}
	e, n := build()
	if pos != len(shape) {
		panic("bad tree shape " + shape)
	}
	return e, n
}

// c17Trees returns, per node count 1..maxNodes, every tree shape.
func c17Trees(maxNodes int) [][]string {
	bySize := make([][]string, maxNodes+1)
	for _, l := range c17Leaves {
		bySize[1] = append(bySize[1], string(l))
	}
	// forests[k][s]: concatenations of k trees with s nodes in total
	for n := 2; n <= maxNodes; n++ {
		var forest func(k, s int) []string
		forest = func(k, s int) []string {
			if k == 1 {
				if s < n {
					return bySize[s]
				}
				return nil
			}
			var out []string
			for first := 1; first <= s-(k-1); first++ {
				rest := forest(k-1, s-first)
				for _, a := range bySize[first] {
					for _, b := range rest {
						out = append(out, a+b)
					}
				}
			}
			return out
		}
		for _, in := range c17Inner {
			for _, f := range forest(c17Arity[byte(in)], n-1) {
				bySize[n] = append(bySize[n], string(in)+f)
			}
		}
	}
	return bySize
}

// c17JudgeTree checks UpdateNotificationFromErr on one tree.
func c17JudgeTree(shape string) (aspect, msg string) {
	err, abs := c17Build(shape)
	if !sameTree(updAbstract(err), abs) {
		// never on the tree the adapter was written for: the library's error types changed their shape
		return "notification-from-err:tree-shape", fmt.Sprintf("the error tree %s built from the library's own error types unwraps to a different tree than the one constructed (an error class changed what it wraps or which class it reports)", shape)
	}
	got, pan := notifFromErr(err)
	want := refmodel.SeverityWalk(abs)
	switch {
	case pan != nil:
		return "notification-from-err:panic", fmt.Sprintf("UpdateNotificationFromErr panicked on tree %s: %v", shape, pan)
	case got == nil:
		return "notification-from-err:nil-for-error", fmt.Sprintf("UpdateNotificationFromErr returned nil for tree %s", shape)
	case !want.Same(*updNotif(got)):
		return "notification-from-err:" + refmodel.Strongest(abs).String(),
			fmt.Sprintf("tree %s (strongest class %v): UpdateNotificationFromErr = %s, severity walk gives %s", shape, refmodel.Strongest(abs), notifText(got), refNotifText(want))
	}
	return "", ""
}

// ---------------------------------------------------------------------------

func c17Check(c *harness.Ctx) {
	th := c.Thorough()
	r := newC17Runner()
	var nBehaviourBodies, nBehaviourCases, nBodies4077, nBodiesBig, nErrorTrees, nGrammarBodiesNilCallbacks, nShortStrings int
	defer func() {
		c.Res.Extra["behaviour_bodies"] = float64(nBehaviourBodies)
		c.Res.Extra["behaviour_cases"] = float64(nBehaviourCases)
		c.Res.Extra["bodies_4077"] = float64(nBodies4077)
		c.Res.Extra["bodies_big"] = float64(nBodiesBig)
		c.Res.Extra["error_trees"] = float64(nErrorTrees)
		c.Res.Extra["grammar_bodies_nil_callbacks"] = float64(nGrammarBodiesNilCallbacks)
		c.Res.Extra["short_strings"] = float64(nShortStrings)
		c.Res.Extra["dont_care_repeated_mp_overrun"] = float64(r.dcMP)
		c.Res.Extra["dont_care_nlri_without_next_hop"] = float64(r.dcNextHop)
		c.Res.Extra["decode_nil_required_and_returned"] = float64(r.nilOK)
	}()
	report := func(set string, body []byte, big *updBig, beh []byte, aspect, msg string) {
		if aspect == "" {
			return
		}
		c.Violation("classification", "C17:"+aspect, msg, map[string]any{"input": updInputOf(body, big, beh), "set": set, "detail": r.describe()})
	}

	// part 1a: nil callbacks on the structured C16 inputs (quick-tier grammar, 4077, big)
	var buf []byte
	idx := 0
	full := updGrammarOpts{ws: []int{0, 1, 2, 3}, ns: []int{0, 1, 2}, tails: []int{0, 1, 2, 3, 4, 5, 6}}
	mut := updGrammarOpts{ws: []int{0, 2}, ns: []int{0, 1}, tails: []int{0, 6}, mutate: true}
	for _, seq := range updAttrSeqs(3, 1, []int{1}) {
		idx++
		if !c.Mine(idx) {
			continue
		}
		if c.Expired() {
			return
		}
		for _, o := range []updGrammarOpts{full, mut} {
			updGrammar(seq, o, &buf, func(body []byte) {
				aspect, msg := r.judge(body, nil)
				nGrammarBodiesNilCallbacks++
				c.Eval(body, r.p.Fault == refmodel.UpdOK)
				report("grammar", body, nil, nil, aspect, msg)
			})
		}
	}
	for _, seq := range updAttrSeqs(1, 1, nil) {
		idx++
		if !c.Mine(idx) {
			continue
		}
		updPadded(seq, 4077, &buf, func(body []byte) {
			aspect, msg := r.judge(body, nil)
			nBodies4077++
			c.Eval(body, r.p.Fault == refmodel.UpdOK)
			report("4077", body, nil, nil, aspect, msg)
		})
	}
	forEachUpdBig(func(g updBig) {
		idx++
		if !c.Mine(idx) || c.Expired() {
			return
		}
		body := g.body()
		aspect, msg := r.judge(body, nil)
		nBodiesBig++
		c.Eval(body, r.p.Fault == refmodel.UpdOK)
		report("big", nil, &g, nil, aspect, msg)
	})

	// part 2: grammar bodies x callback behaviours
	maxL := 3
	if th {
		maxL = 4
	}
	behOpts := updGrammarOpts{ws: []int{0, 2}, ns: []int{0, 1}, tails: []int{0, 1, 6}}
	vectors := map[int][][]byte{}
	var key []byte
	for _, seq := range c17Seqs(maxL) {
		idx++
		if !c.Mine(idx) {
			continue
		}
		if c.Expired() {
			return
		}
		updGrammar(seq, behOpts, &buf, func(body []byte) {
			nBehaviourBodies++
			r.judge(body, nil) // judged below as the all-nil vector; here only to count the invocations
			n := len(r.rec.calls)
			if vectors[n] == nil {
				vectors[n] = c17Vectors(n)
			}
			for _, beh := range vectors[n] {
				aspect, msg := r.judge(body, beh)
				nBehaviourCases++
				key = append(append(append(key[:0], body...), 0xbe), beh...)
				c.Eval(key, true)
				if nBehaviourCases%100003 == 1 {
					c.Sample(map[string]any{"input": updInputOf(body, nil, beh), "detail": r.describe()})
				}
				report("behaviours", body, nil, beh, aspect, msg)
			}
		})
	}

	// part 3: UpdateNotificationFromErr on all small error trees
	if n, pan := notifFromErr(nil); n != nil || pan != nil {
		c.Violation("classification", "C17:notification-from-err:non-nil-for-nil", fmt.Sprintf("UpdateNotificationFromErr(nil) = %s (panic %v)", notifText(n), pan), map[string]any{"input": updInput{Tree: "nil"}})
	}
	maxNodes := 6
	if th {
		maxNodes = 7
	}
	for _, shapes := range c17Trees(maxNodes) {
		for _, shape := range shapes {
			idx++
			if !c.Mine(idx) {
				continue
			}
			if idx&0xfff == 0 && c.Expired() {
				return
			}
			aspect, msg := c17JudgeTree(shape)
			nErrorTrees++
			c.Eval([]byte("tree:"+shape), true)
			if nErrorTrees%5003 == 1 {
				c.Sample(map[string]any{"input": updInput{Tree: shape}})
			}
			if aspect != "" {
				c.Violation("classification", "C17:"+aspect, msg, map[string]any{"input": updInput{Tree: shape}, "set": "trees"})
			}
		}
	}

	// part 1b: nil callbacks on all short strings (the largest set, hence last)
	shortLen := 7
	if th {
		shortLen = 9
	}
	updShort(c, shortLen, func(b []byte) {
		aspect, msg := r.judge(b, nil)
		nShortStrings++
		if r.p.Fault == refmodel.UpdOK {
			c.Eval(b, true)
		} else {
			c.Res.Evaluations++
		}
		report("short", b, nil, nil, aspect, msg)
	})
}

func init() {
	harness.Register(&harness.Check{
		Property:  "C17",
		Level:     "exploration",
		NeedsConc: false,
		QuickS:    60, ThoroughS: 420,
		Rule: "(1) Decode with nil callbacks on every byte string of length <= 7 (thorough <= 9) over {00,01,02,03,04,0e,0f,10,40,80,90,ff}, on the quick-tier C16 grammar/mutation set, on the 4077-byte bodies and on the length-boundary bodies up to 70000 bytes; " +
			"(2) grammar bodies (every type sequence of <= 3 (thorough <= 4) attributes over {1,2,3,14,15,99}, one rotating (flags,length) shape each, x withdrawn {0,3 bytes} x NLRI {0,2 bytes} x tail {exact, stray byte, last byte cut}) x callback behaviour vectors: " +
			"all 8^3 assignments of {nil, attr-discard, treat-as-withdraw, notification, foreign, %w(treat-as-withdraw), %w(notification), Join(attr-discard, notification)} to the first three invocations and all vectors with <= 2 non-nil entries at any invocation (unreachable entries behind a notification-class entry omitted); " +
			"(3) UpdateNotificationFromErr on nil and on every error tree with <= 6 (thorough <= 7) nodes over leaves {notification a, notification b, treat-as-withdraw with/without fallback, attr-discard with/without fallback, custom UpdateError, foreign} and inner nodes {%w wrap, errors.Join of 2, errors.Join of 3, fmt.Errorf with two %w}. " +
			"Oracle: independent reference partition + RFC 7606 class rules + reference severity walk. distinct = distinct (body, behaviour vector) resp. tree; non-trivial = frame-consistent body (callbacks run), every behaviour case, every tree",
		Assume: []string{
			"a callback error is notification-class iff its error tree contains a *Notification reachable by Unwrap (the fallback embedded in a treat-as-withdraw / attribute-discard error is not part of the tree)",
			"three-valued: non-empty NLRI without NEXT_HOP and otherwise clean: nil-ness and class are not judged (RFC 4271 makes NEXT_HOP mandatory, the property names only ORIGIN and AS_PATH); a treat-as-withdraw there is accepted",
			"three-valued: the missing-attribute fallback (3,3,[type]) is demanded only when no attribute overrun precedes and nothing stronger than treat-as-withdraw is present; with both ORIGIN and AS_PATH missing either type code is accepted",
			"three-valued: overrunning attribute whose header repeats an MP type: overrun reading and abort reading both accepted",
			"notification codes checked: message-level length fault and repeated MP attribute = (3,1) Malformed Attribute List (RFC 4271 6.3, RFC 7606 3g), body shorter than 4 bytes = code 3 with any subcode; the fallback of the overrun error is not judged",
			"a panic of Decode is a violation; signature C17:panic for bodies above 65535 bytes, C17:panic-below-64k otherwise",
		},
		Run: c17Check,
		Replay: func(c *harness.Ctx, raw json.RawMessage) {
			var rep struct {
				Input updInput `json:"input"`
			}
			if err := json.Unmarshal(raw, &rep); err != nil {
				panic(err)
			}
			if rep.Input.Tree != "" {
				if rep.Input.Tree == "nil" {
					if n, pan := notifFromErr(nil); n != nil || pan != nil {
						c.Violation("classification", "C17:notification-from-err:non-nil-for-nil", "UpdateNotificationFromErr(nil) != nil", map[string]any{"input": rep.Input})
					}
					return
				}
				if aspect, msg := c17JudgeTree(rep.Input.Tree); aspect != "" {
					c.Violation("classification", "C17:"+aspect, msg, map[string]any{"input": rep.Input, "set": "trees"})
				}
				return
			}
			r := newC17Runner()
			if aspect, msg := r.judge(rep.Input.body(), rep.Input.behaviours()); aspect != "" {
				c.Violation("classification", "C17:"+aspect, msg, map[string]any{"input": rep.Input, "detail": r.describe()})
			}
		},
	})
}
