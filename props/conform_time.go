package props

import (
	"encoding/json"
	"fmt"
	"math"
	"net"
	"net/netip"
	"sync"
	"time"

	"github.com/jwhited/corebgp"

	"corebgpverif/wire"
)

// Conformance of VIRTUAL TIME with real time: a small grid of C06 cases (hold pairs x remote traffic x
// local writes x direction) is run once under vrt - where the timeline of what corebgp sends is exact -
// and once on the Go runtime over loopback TCP with real timers, and the two timelines are compared
// with a tolerance. This is what ties "the hold timer fires after H virtual seconds" to wall-clock
// seconds.

// TimeEvent is one message corebgp sent (or the close), seconds after the connection started.
type TimeEvent struct {
	Kind string  `json:"kind"` // KEEPALIVE | UPDATE | NOTIFICATION(c,s) | CLOSE
	T    float64 `json:"t"`
}

// Timeline is the comparable outcome of one timing case.
type Timeline struct {
	Events []TimeEvent `json:"events"`
	Window float64     `json:"window_s"`
	Err    string      `json:"harness_error,omitempty"`
}

// c06ConformWindow: how long the real run watches (seconds); the model timeline is cut there too.
func c06ConformWindow(cs c06Case) float64 {
	H := c06H(cs).Seconds()
	if H == 0 {
		return 6.5
	}
	return 3*H + 2.5
}

func c06ConformCases() []c06Case {
	var out []c06Case
	i := 0
	for _, pair := range [][2]int{{3, 90}, {90, 3}, {3, 3}, {4, 9}, {0, 3}, {3, 0}} {
		for _, tr := range []string{"silent", "ka-third", "upd-half", "silent-openconfirm"} {
			for _, wr := range []string{"none", "quarter"} {
				i++
				out = append(out, c06Case{Local: pair[0], Remote: pair[1], Traffic: tr, Writes: wr, Inbound: i%2 == 0, Prev: -1})
			}
		}
	}
	return out
}

func msgKind(m wire.Msg) string {
	switch m.Type {
	case wire.TypeKeepalive:
		return "KEEPALIVE"
	case wire.TypeUpdate:
		return "UPDATE"
	case wire.TypeNotification:
		c, s, _ := m.Notif()
		return fmt.Sprintf("NOTIFICATION(%d,%d)", c, s)
	}
	return fmt.Sprintf("type%d", m.Type)
}

// C06ModelTimeline runs the case in virtual time.
func C06ModelTimeline(cs c06Case) Timeline {
	w, e, o := c06Run(cs, nil, false)
	defer e.Finish()
	tl := Timeline{Window: c06ConformWindow(cs)}
	if r, m := basicVerdict(e); r != "" {
		tl.Err = r + ": " + m
		return tl
	}
	if o.rem == nil {
		tl.Err = "no connection"
		return tl
	}
	for _, ev := range w.Log {
		if ev.Conn != o.rem.C.ID {
			continue
		}
		t := float64(ev.T-o.t0) / 1e9
		if t > tl.Window {
			break
		}
		switch {
		case ev.Kind == "rx" && ev.Msg != nil && ev.Msg.Type != wire.TypeOpen:
			tl.Events = append(tl.Events, TimeEvent{msgKind(*ev.Msg), t})
		case ev.Kind == "rx-eof" || ev.Kind == "rx-error":
			tl.Events = append(tl.Events, TimeEvent{"CLOSE", t})
		}
	}
	return tl
}

type timePlugin struct {
	H      time.Duration
	writes string
	stop   chan struct{}
}

func (p *timePlugin) GetCapabilities(corebgp.PeerConfig) []corebgp.Capability { return nil }
func (p *timePlugin) OnOpenMessage(corebgp.PeerConfig, netip.Addr, []corebgp.Capability) *corebgp.Notification {
	return nil
}
func (p *timePlugin) OnEstablished(_ corebgp.PeerConfig, wr corebgp.UpdateMessageWriter) corebgp.UpdateMessageHandler {
	if p.writes == "quarter" && p.H > 0 {
		go func() {
			for i := 0; i < 14; i++ {
				select {
				case <-p.stop:
					return
				case <-time.After(p.H / 4):
				}
				if wr.WriteUpdate([]byte{byte(i)}) != nil {
					return
				}
			}
		}()
	}
	return func(corebgp.PeerConfig, []byte) *corebgp.Notification { return nil }
}
func (p *timePlugin) OnClose(corebgp.PeerConfig) {}

// C06RealTimeline runs the case on the real runtime, in real time.
func C06RealTimeline(cs c06Case) (tl Timeline) {
	tl.Window = c06ConformWindow(cs)
	H := c06H(cs)
	realSeq.Lock()
	realSeq.n++
	seq := realSeq.n
	realSeq.Unlock()
	remIP := netip.AddrFrom4([4]byte{127, byte(1 + seq/250%250), byte(1 + seq%250), 3})
	srv, err := corebgp.NewServer(netip.MustParseAddr("10.0.0.1"))
	if err != nil {
		tl.Err = err.Error()
		return
	}
	pl := &timePlugin{H: H, writes: cs.Writes, stop: make(chan struct{})}
	defer close(pl.stop)
	lis, err := net.Listen("tcp", "127.0.0.1:0")
	if err != nil {
		tl.Err = err.Error()
		return
	}
	opts := []corebgp.PeerOption{corebgp.WithHoldTime(uint16(cs.Local))}
	var remLis net.Listener
	if cs.Inbound {
		opts = append(opts, corebgp.WithPassive())
	} else {
		remLis, err = net.Listen("tcp", net.JoinHostPort(remIP.String(), "0"))
		if err != nil {
			lis.Close()
			tl.Err = err.Error()
			return
		}
		defer remLis.Close()
		opts = append(opts, corebgp.WithPort(remLis.Addr().(*net.TCPAddr).Port))
	}
	if err := srv.AddPeer(corebgp.PeerConfig{RemoteAddress: remIP, LocalAS: 65001, RemoteAS: 65002}, pl, opts...); err != nil {
		lis.Close()
		tl.Err = err.Error()
		return
	}
	served := make(chan error, 1)
	go func() { served <- srv.Serve([]net.Listener{lis}) }()
	defer func() {
		srv.Close()
		select {
		case <-served:
		case <-time.After(10 * time.Second):
			tl.Err = "Serve did not return within 10 s of Close"
		}
	}()
	var conn net.Conn
	if cs.Inbound {
		d := net.Dialer{LocalAddr: &net.TCPAddr{IP: net.IP(remIP.AsSlice())}, Timeout: 3 * time.Second}
		conn, err = d.Dial("tcp", lis.Addr().String())
	} else {
		remLis.(*net.TCPListener).SetDeadline(time.Now().Add(5 * time.Second))
		conn, err = remLis.Accept()
	}
	if err != nil {
		tl.Err = err.Error()
		return
	}
	defer conn.Close()
	t0 := time.Now()
	end := t0.Add(time.Duration(tl.Window * float64(time.Second)))
	r := &realRemote{c: conn}
	if _, ok := r.expect(wire.TypeOpen); !ok {
		tl.Err = "no OPEN"
		return
	}
	var wmu sync.Mutex
	send := func(b []byte) {
		wmu.Lock()
		conn.Write(b) // nolint: errcheck
		wmu.Unlock()
	}
	send(wire.Open(65002, uint16(cs.Remote), 0x0a000002))
	if _, ok := r.expect(wire.TypeKeepalive); !ok {
		tl.Err = "no KEEPALIVE after the OPEN"
		return
	}
	tl.Events = append(tl.Events, TimeEvent{"KEEPALIVE", time.Since(t0).Seconds()})
	// reader with time stamps
	var mu sync.Mutex
	done := make(chan struct{})
	go func() {
		defer close(done)
		for {
			m, ok := r.readMsg(time.Until(end))
			now := time.Since(t0).Seconds()
			mu.Lock()
			if ok {
				tl.Events = append(tl.Events, TimeEvent{msgKind(m), now})
			} else if r.closed {
				tl.Events = append(tl.Events, TimeEvent{"CLOSE", now})
			}
			mu.Unlock()
			if !ok {
				return
			}
		}
	}()
	sleepUntil := func(d time.Duration) bool {
		at := t0.Add(d)
		if at.After(end) {
			return false
		}
		select {
		case <-done:
			return false
		case <-time.After(time.Until(at)):
			return true
		}
	}
	if cs.Traffic != "silent-openconfirm" {
		send(wire.Keepalive())
		est := time.Since(t0)
		switch cs.Traffic {
		case "ka-third":
			for i := 1; H > 0 && sleepUntil(est+time.Duration(i)*H/3); i++ {
				send(wire.Keepalive())
			}
		case "upd-half":
			for i := 1; H > 0 && i <= 5 && sleepUntil(est+time.Duration(i)*H/2); i++ {
				send(wire.Update([]byte{byte(i - 1)}))
			}
		}
	}
	select {
	case <-done:
	case <-time.After(time.Until(end)):
	}
	conn.SetReadDeadline(time.Now()) // releases the reader
	<-done
	return tl
}

// timelinesAgree compares a model timeline (exact) with a real one (jittered). KEEPALIVEs that tie with
// the end of the session in the model (the keepalive timer and the hold timer are due at the same
// instant there) are optional; events closer than 0.3 s to the end of the window are not compared.
func timelinesAgree(model, real Timeline) (bool, string) {
	if model.Err != "" || real.Err != "" {
		return false, "harness error: " + model.Err + " / " + real.Err
	}
	cut := model.Window - 0.3
	endOf := func(tl Timeline) float64 {
		for _, e := range tl.Events {
			if e.Kind == "CLOSE" || len(e.Kind) > 12 && e.Kind[:12] == "NOTIFICATION" {
				return e.T
			}
		}
		return math.Inf(1)
	}
	filter := func(tl Timeline) []TimeEvent {
		end := endOf(tl)
		var out []TimeEvent
		for _, e := range tl.Events {
			if e.T > cut {
				continue
			}
			if e.Kind == "KEEPALIVE" && e.T > end-0.3 {
				continue
			}
			out = append(out, e)
		}
		return out
	}
	m, r := filter(model), filter(real)
	if len(m) != len(r) {
		return false, fmt.Sprintf("%d events in virtual time, %d in real time", len(m), len(r))
	}
	for i := range m {
		tol := 0.25 + 0.03*m[i].T
		if m[i].Kind != r[i].Kind || math.Abs(m[i].T-r[i].T) > tol {
			return false, fmt.Sprintf("event %d: %s at %.3f s in virtual time, %s at %.3f s in real time", i, m[i].Kind, m[i].T, r[i].Kind, r[i].T)
		}
	}
	return true, ""
}

// ---------- generic entry points used by cmd/worker ----------

// ConformRecord is one case on its way through the two interpreters.
type ConformRecord struct {
	Index int             `json:"index"`
	Case  json.RawMessage `json:"case"`
	Model json.RawMessage `json:"model"`
	Real  json.RawMessage `json:"real,omitempty"`
	Agree bool            `json:"agree"`
	Why   string          `json:"why,omitempty"`
}

// ConformModel enumerates the family's cases (every stride-th), runs shard's share under vrt.
func ConformModel(family, tier string, stride, shard, of int) []ConformRecord {
	var recs []ConformRecord
	switch family {
	case "C06-time":
		for k, cs := range c06ConformCases() {
			if k%of != shard {
				continue
			}
			cb, _ := json.Marshal(cs)
			mb, _ := json.Marshal(C06ModelTimeline(cs))
			recs = append(recs, ConformRecord{Index: k, Case: cb, Model: mb})
		}
	case "C07-collision":
		for k, cs := range collConformCases() {
			if k%of != shard {
				continue
			}
			cb, _ := json.Marshal(cs)
			mb, _ := json.Marshal(C07ModelCollision(cs))
			recs = append(recs, ConformRecord{Index: k, Case: cb, Model: mb})
		}
	default:
		for k, cc := range ConformCases(family, tier, stride) {
			if k%of != shard {
				continue
			}
			cb, _ := json.Marshal(cc.Case)
			mb, _ := json.Marshal(ModelTranscript(cc.Case))
			recs = append(recs, ConformRecord{Index: cc.Index, Case: cb, Model: mb})
		}
	}
	return recs
}

// ConformReal runs one record on the real runtime and fills Real, Agree, Why.
func ConformReal(family string, rec *ConformRecord) {
	switch family {
	case "C06-time":
		var cs c06Case
		var model Timeline
		json.Unmarshal(rec.Case, &cs)
		json.Unmarshal(rec.Model, &model)
		real := C06RealTimeline(cs)
		rec.Real, _ = json.Marshal(real)
		rec.Agree, rec.Why = timelinesAgree(model, real)
	case "C07-collision":
		var cs collConformCase
		var model CollOutcome
		json.Unmarshal(rec.Case, &cs)
		json.Unmarshal(rec.Model, &model)
		real := C07RealCollision(cs)
		rec.Real, _ = json.Marshal(real)
		rec.Agree, rec.Why = collOutcomesAgree(model, real)
	default:
		var cs stimCase
		var model StimTranscript
		json.Unmarshal(rec.Case, &cs)
		json.Unmarshal(rec.Model, &model)
		real := RealTranscript(cs)
		rec.Real, _ = json.Marshal(real)
		if model.Err != "" || real.Err != "" {
			rec.Agree, rec.Why = false, "harness error: "+model.Err+" / "+real.Err
			return
		}
		mb, _ := json.Marshal(model)
		rb, _ := json.Marshal(real)
		rec.Agree = string(mb) == string(rb)
		if !rec.Agree {
			rec.Why = "transcripts differ"
		}
	}
}
