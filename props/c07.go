package props

import (
	"fmt"
	"net"
	"strings"
	"time"

	"github.com/jwhited/corebgp"

	"corebgpverif/harness"
	"corebgpverif/vnet"
	"corebgpverif/vrt"
	"corebgpverif/wire"
	"corebgpverif/world"
)

// C07: connection collision resolution (RFC 4271 6.8), decided by schedule
// exploration of scripted two-connection scenarios.

type collCfg struct {
	name              string
	localID, remoteID uint32
	localAS, remoteAS uint32
	localDominant     bool
}

var collCfgs = []collCfg{
	{"idL<R", 0x0a000001, 0x0a000009, 65001, 65002, false},
	{"idL>R", 0x0a000009, 0x0a000002, 65001, 65002, true},
	{"id=,asL>R", 0x0a000005, 0x0a000005, 65009, 65002, true},
	{"id=,asL<R", 0x0a000005, 0x0a000005, 65001, 65002, false},
	// values more than 2^31 apart (a subtracting comparator gets these wrong)
	{"idL>>R", 0xc0000201, 0x0a000001, 65001, 65002, true},
	{"idL<<R", 0x0a000001, 0xc0000201, 65001, 65002, false},
	{"id=,asL>>R", 0x0a000005, 0x0a000005, 4200000001, 65001, true},
	{"id=,asL<<R", 0x0a000005, 0x0a000005, 65001, 4200000001, false},
	// pairs whose order flips when the octets are reversed (a comparison on byte-swapped identifiers)
	{"idL<R,swap", 0x0a000002, 0x0a000101, 65001, 65002, false},
	{"idL>R,swap", 0xac100001, 0x0afffffe, 65001, 65002, true},
}

// collObs is what the two remote connection scripts observed.
type collObs struct {
	gotOpen, gotKA map[string]bool
	notif          map[string]*wire.Msg
	eof            map[string]bool
	established    map[string]bool // marker seen
	probe          map[string]bool // probe delivered
	unresolved     map[string]bool
	conn           map[string]*vnet.Conn
	pfx            string // prefix of the flag names (second round of a scenario)
}

func newCollObs() *collObs {
	return &collObs{gotOpen: map[string]bool{}, gotKA: map[string]bool{}, notif: map[string]*wire.Msg{}, eof: map[string]bool{},
		established: map[string]bool{}, probe: map[string]bool{}, unresolved: map[string]bool{}, conn: map[string]*vnet.Conn{}}
}

func otherDir(d string) string {
	if d == "in" {
		return "out"
	}
	return "in"
}

// collWorld sets up server + one active peer + both connections; script is
// run for each connection with its direction name.
func collRun(cfg collCfg, ch vrt.Chooser, trace, race bool, script func(w *world.World, r *world.Remote, dir string, o *collObs), extra func(w *world.World, o *collObs)) (*world.World, *vrt.Exec, *collObs) {
	var w *world.World
	o := newCollObs()
	e := vrt.Run(vrt.Config{Horizon: int64(40 * time.Second), Race: race, Trace: trace, Chooser: ch}, func() {
		w = world.New(libIP)
		w.NewServer(ip4(cfg.localID))
		pl := &world.Plugin{W: w, Peer: "P1", Marker: true}
		w.NW.OnDial(remAddr, func(att int, from *net.TCPAddr) vnet.DialOutcome {
			if att > 0 {
				return vnet.DialOutcome{Kind: vnet.DialRefuse}
			}
			return vnet.DialOutcome{Kind: vnet.DialAccept, Serve: func(c *vnet.Conn) {
				r := w.NewRemote(c, "P1")
				o.conn["out"] = c
				script(w, r, "out", o)
				r.Finish()
			}}
		})
		if err := w.AddPeer(peerConfig(remIP, cfg.localAS, cfg.remoteAS), pl, corebgp.WithDialerControl(w.DialControl("P1"))); err != nil {
			panic("harness: " + err.Error())
		}
		w.Serve(libAddr)
		vrt.GoWorld("remote-in", func() {
			c, err := w.NW.DialIn("10.0.0.2:40001", libAddr)
			if err != nil {
				panic("harness: " + err.Error())
			}
			r := w.NewRemote(c, "P1")
			o.conn["in"] = c
			script(w, r, "in", o)
			r.Finish()
		})
		if extra != nil {
			extra(w, o)
		}
		// both connections exist in the forced shapes; in the eager shapes corebgp may
		// legitimately never dial (the inbound session can win before): wait one
		// virtual second, then for every script that was started
		vrt.NewTimer(time.Second)
		vrt.WaitLog("remotes-done", func() bool {
			return vrt.Cur().Now() >= int64(time.Second) && w.AllRemotesDone(1)
		})
		vrt.LogTouch()
		w.Close()
		w.WaitServeDone()
	})
	return w, e, o
}

// afterKA is the common tail of a connection script once corebgp's KEEPALIVE
// was seen: wait (virtual 1 s) for a NOTIFICATION/EOF; if nothing arrives and
// the other connection is dead, complete the session and probe it.
func collTail(w *world.World, r *world.Remote, dir string, o *collObs) {
	for round := 0; round < 3; round++ {
		r.Deadline(time.Second)
		m, err := r.ReadMsg()
		if err == nil {
			if m.Type == wire.TypeNotification {
				o.notif[dir] = &m
				r.Deadline(time.Second)
				r.Drain()
				o.eof[dir] = r.EOF || r.ReadErr != nil
				w.SetFlag(o.pfx + dir + "-dead")
				return
			}
			continue // stray KEEPALIVE etc.
		}
		if r.EOF || r.ReadErr != nil {
			o.eof[dir] = true
			w.SetFlag(o.pfx + dir + "-dead")
			return
		}
		// timeout: untouched so far
		if w.Flag(o.pfx + otherDir(dir) + "-dead") {
			break
		}
	}
	if !w.Flag(o.pfx + otherDir(dir) + "-dead") {
		o.unresolved[dir] = true
		return
	}
	collComplete(w, r, dir, o)
}

// collComplete sends the remote's KEEPALIVE, expects the marker and probes.
func collComplete(w *world.World, r *world.Remote, dir string, o *collObs) {
	r.Deadline(0)
	r.Send(wire.Keepalive())
	r.Deadline(2 * time.Second)
	for {
		m, err := r.ReadMsg()
		if err != nil {
			o.eof[dir] = r.EOF || r.ReadErr != nil
			return
		}
		if m.Type == wire.TypeNotification {
			o.notif[dir] = &m
			continue
		}
		if m.Type == wire.TypeUpdate {
			if _, ok := world.IsMarker(m.Body); ok {
				o.established[dir] = true
				break
			}
		}
	}
	body := "PROBE-" + dir
	r.Send(wire.Update([]byte(body)))
	vrtWaitDelivered(w, body)
	for _, ev := range w.Log {
		if ev.Kind == "Handler" && ev.Phase == "exit" && string(ev.Data) == body {
			o.probe[dir] = true
		}
	}
}

func collOpen(cfg collCfg) []byte { return wire.Open(cfg.remoteAS, 90, cfg.remoteID) }

// forcedCollision: the remote sends its OPEN on both connections (on `first`
// first, on the other only after corebgp's KEEPALIVE was seen on `first`) and
// withholds its own KEEPALIVE until the collision is resolved.
func forcedCollisionScript(cfg collCfg, first string, kill ...string) func(w *world.World, r *world.Remote, dir string, o *collObs) {
	how := ""
	if len(kill) > 0 {
		how = kill[0]
	}
	return func(w *world.World, r *world.Remote, dir string, o *collObs) {
		if _, ok := r.Expect(wire.TypeOpen); !ok {
			return
		}
		o.gotOpen[dir] = true
		w.SetFlag(o.pfx + dir + "-open")
		// both connections must exist and carry corebgp's OPEN before the remote answers any
		w.WaitFlag(o.pfx + otherDir(dir) + "-open")
		if dir != first {
			w.WaitFlag(o.pfx + first + "-ka")
			// kill variants: at the moment its second OPEN goes out the remote itself ends the first connection
			if fc := o.conn[first]; fc != nil {
				switch how {
				case "cease":
					fc.Write(wire.Notification(6, 7, nil))
				case "cease0":
					// what another corebgp sends on the connection it drops
					fc.Write(wire.Notification(6, 0, nil))
				case "fin":
					fc.CloseWrite()
				}
			}
		}
		r.Send(collOpen(cfg))
		if _, ok := r.Expect(wire.TypeKeepalive); !ok {
			if len(r.Rx) > 0 && r.Rx[len(r.Rx)-1].Type == wire.TypeNotification {
				m := r.Rx[len(r.Rx)-1]
				o.notif[dir] = &m
				r.Deadline(time.Second)
				r.Drain()
			}
			o.eof[dir] = r.EOF || r.ReadErr != nil
			w.SetFlag(o.pfx + dir + "-ka") // unblock the other script
			w.SetFlag(o.pfx + dir + "-dead")
			return
		}
		o.gotKA[dir] = true
		w.SetFlag(o.pfx + dir + "-ka")
		collTail(w, r, dir, o)
	}
}

func judgeForcedCollision(cfg collCfg, w *world.World, o *collObs) (string, string) {
	winner := "in"
	if cfg.localDominant {
		winner = "out"
	}
	loser := otherDir(winner)
	if !o.gotOpen["in"] || !o.gotOpen["out"] {
		return "setup", "corebgp did not send its OPEN on both connections"
	}
	if !o.gotKA["in"] || !o.gotKA["out"] {
		return "open-exchange-incomplete", fmt.Sprintf("a valid OPEN was not answered with KEEPALIVE on both connections (in=%v out=%v)", o.gotKA["in"], o.gotKA["out"])
	}
	if o.unresolved["in"] && o.unresolved["out"] {
		return "collision-unresolved", "both connections stayed in OpenConfirm: no connection was closed"
	}
	if o.notif[winner] != nil || o.eof[winner] && !o.established[winner] {
		return "wrong-survivor", fmt.Sprintf("the connection initiated by the dominant speaker (%s) was closed (notification %v); %s was kept (established=%v)", winner, o.notif[winner], loser, o.established[loser])
	}
	if !o.established[winner] {
		return "survivor-not-established", fmt.Sprintf("the surviving connection (%s) did not become Established on the remote's KEEPALIVE", winner)
	}
	if !o.probe[winner] {
		return "survivor-dead", "the surviving session did not deliver a probe UPDATE"
	}
	if o.established[loser] {
		return "both-established", "both connections became Established"
	}
	if o.notif[loser] == nil {
		return "loser-no-cease", fmt.Sprintf("the losing connection (%s) was closed without a Cease NOTIFICATION", loser)
	}
	if c, _, _ := o.notif[loser].Notif(); c != 6 {
		return "loser-wrong-notification", fmt.Sprintf("the losing connection received %s instead of Cease", o.notif[loser])
	}
	if !o.eof[loser] {
		return "loser-not-closed", "the losing connection was not closed"
	}
	return monitorCallbacks(w)
}

// judgeForcedKill: the remote ended the first connection itself while the collision was being
// resolved. Whatever wins, corebgp must not wedge: the second connection (which the remote did not
// touch) is either Established in the end or was closed by corebgp with a Cease; never both up.
func judgeForcedKill(cfg collCfg, first string, w *world.World, o *collObs) (string, string) {
	second := otherDir(first)
	ruleWinner := "in"
	if cfg.localDominant {
		ruleWinner = "out"
	}
	if second == ruleWinner {
		// the remote dropped the connection that loses by the rule anyway: whatever corebgp makes of the
		// Cease/FIN on the loser, the winner is "left untouched and becomes Established"
		if o.notif[second] != nil {
			return "survivor-killed", fmt.Sprintf("the remote itself ended the losing connection (%s); the connection initiated by the dominant speaker (%s) received %s", first, second, o.notif[second])
		}
		if !o.established[second] {
			return "survivor-not-established", fmt.Sprintf("the remote itself ended the losing connection (%s); the connection initiated by the dominant speaker (%s) did not become Established (eof=%v)", first, second, o.eof[second])
		}
	}
	if o.established["in"] && o.established["out"] && !o.eof["in"] && !o.eof["out"] {
		return "both-established", "both connections survived as Established"
	}
	if !o.established[second] && !o.eof[second] && !o.unresolved[second] {
		return "second-connection-wedged", fmt.Sprintf("the connection the remote did not touch (%s) was neither established nor closed", second)
	}
	return monitorCallbacks(w)
}

// c07TwoRounds: a first forced collision is resolved and the winner Established; the remote
// resets it with a Cease and comes back with an identifier on the OTHER side of the local one;
// the second forced collision must be resolved by the new identifier.
func c07TwoRounds(cfg collCfg, first string, bound int) *Scn {
	cfg2 := cfg
	if cfg.localDominant {
		cfg2.remoteID = cfg.localID + 7
	} else {
		cfg2.remoteID = cfg.localID - 3
	}
	cfg2.localDominant = !cfg.localDominant
	name := fmt.Sprintf("two-rounds/%s/%s-first", cfg.name, first)
	return &Scn{Name: name, Bound: bound - 1, Run: func(ch vrt.Chooser, trace bool) *ScnResult {
		var w *world.World
		o1, o2 := newCollObs(), newCollObs()
		o2.pfx = "r2-"
		round := 1
		e := vrt.Run(vrt.Config{Horizon: int64(60 * time.Second), Trace: trace, Chooser: ch}, func() {
			w = world.New(libIP)
			w.NewServer(ip4(cfg.localID))
			pl := &world.Plugin{W: w, Peer: "P1", Marker: true}
			run := func(r *world.Remote, dir string) {
				if round == 1 {
					o1.conn[dir] = r.C
					forcedCollisionScript(cfg, first)(w, r, dir, o1)
					if o1.established[dir] {
						// reset the session; both sides then come back
						r.Deadline(0)
						r.Send(wire.Notification(6, 4, nil))
						r.Deadline(2 * time.Second)
						r.Drain()
						round = 2
						w.SetFlag("round2")
					}
					return
				}
				o2.conn[dir] = r.C
				forcedCollisionScript(cfg2, first)(w, r, dir, o2)
			}
			w.NW.OnDial(remAddr, func(att int, from *net.TCPAddr) vnet.DialOutcome {
				if att > 0 && round == 1 {
					return vnet.DialOutcome{Kind: vnet.DialRefuse}
				}
				if round == 2 && o2.conn["out"] != nil {
					return vnet.DialOutcome{Kind: vnet.DialRefuse}
				}
				return vnet.DialOutcome{Kind: vnet.DialAccept, Serve: func(c *vnet.Conn) {
					r := w.NewRemote(c, "P1")
					run(r, "out")
					r.Finish()
				}}
			})
			if err := w.AddPeer(peerConfig(remIP, cfg.localAS, cfg.remoteAS), pl, corebgp.WithDialerControl(w.DialControl("P1")), corebgp.WithIdleHoldTime(time.Second)); err != nil {
				panic("harness: " + err.Error())
			}
			w.Serve(libAddr)
			dialIn := func(port int) {
				vrt.GoWorld(fmt.Sprintf("remote-in%d", port), func() {
					c, err := w.NW.DialIn(fmt.Sprintf("10.0.0.2:%d", port), libAddr)
					if err != nil {
						return
					}
					r := w.NewRemote(c, "P1")
					run(r, "in")
					r.Finish()
				})
			}
			dialIn(40001)
			w.WaitFlag("round2")
			// the remote connects in again as soon as corebgp's new outbound connection carries its OPEN
			dialIn(40002)
			vrt.NewTimer(40 * time.Second)
			dl := vrt.Cur().Now() + int64(40*time.Second)
			vrt.WaitLog("round2-done", func() bool {
				return vrt.Cur().Now() >= dl || (o2.established["in"] || o2.established["out"]) && (o2.probe["in"] || o2.probe["out"])
			})
			vrt.LogTouch()
			w.Close()
			w.WaitServeDone()
		})
		return finishRun("C07", "two-rounds", w, e, trace, false, func() (string, string) {
			if r, m := judgeForcedCollision(cfg, w, o1); r != "" {
				return "round1-" + r, m
			}
			if !o2.gotOpen["in"] || !o2.gotOpen["out"] {
				return "", "" // the second collision did not form on this schedule (not the scenario's subject)
			}
			if r, m := judgeForcedCollision(cfg2, w, o2); r != "" && r != "setup" && !strings.HasPrefix(r, "callback") && r != "onclose-missing-at-return" {
				return "round2-" + r, "second collision (remote now " + ip4(cfg2.remoteID) + "): " + m
			}
			return "", ""
		}, nil)
	}}
}

// forcedPrecedence: the remote completes connection x entirely, and only then
// sends its OPEN on the other one.
func forcedPrecedenceScript(cfg collCfg, x string) func(w *world.World, r *world.Remote, dir string, o *collObs) {
	return func(w *world.World, r *world.Remote, dir string, o *collObs) {
		if _, ok := r.Expect(wire.TypeOpen); !ok {
			return
		}
		o.gotOpen[dir] = true
		w.SetFlag(dir + "-open")
		w.WaitFlag(otherDir(dir) + "-open")
		if dir == x {
			r.Send(collOpen(cfg))
			if _, ok := r.Expect(wire.TypeKeepalive); !ok {
				w.SetFlag(x + "-est")
				return
			}
			o.gotKA[dir] = true
			r.Send(wire.Keepalive())
			r.Deadline(2 * time.Second)
			m, ok := r.Expect(wire.TypeUpdate)
			if ok {
				_, ok = world.IsMarker(m.Body)
			}
			o.established[dir] = ok
			w.SetFlag(x + "-est")
			// wait until the other connection is finished, then probe
			w.WaitFlag(otherDir(dir) + "-finished")
			r.Deadline(0)
			body := "PROBE-" + dir
			r.Send(wire.Update([]byte(body)))
			vrtWaitDelivered(w, body)
			for _, ev := range w.Log {
				if ev.Kind == "Handler" && ev.Phase == "exit" && string(ev.Data) == body {
					o.probe[dir] = true
				}
			}
			// the survivor must not have received a NOTIFICATION
			for _, m := range r.Rx {
				if m.Type == wire.TypeNotification {
					mm := m
					o.notif[dir] = &mm
				}
			}
			return
		}
		w.WaitFlag(x + "-est")
		r.Send(collOpen(cfg))
		r.Deadline(2 * time.Second)
		for {
			m, err := r.ReadMsg()
			if err != nil {
				break
			}
			switch m.Type {
			case wire.TypeKeepalive:
				if !o.gotKA[dir] {
					o.gotKA[dir] = true
					r.Send(wire.Keepalive())
				}
			case wire.TypeNotification:
				mm := m
				o.notif[dir] = &mm
			case wire.TypeUpdate:
				if _, ok := world.IsMarker(m.Body); ok {
					o.established[dir] = true
				}
			}
		}
		o.eof[dir] = r.EOF || r.ReadErr != nil
		w.SetFlag(dir + "-finished")
	}
}

func judgeForcedPrecedence(x string, w *world.World, o *collObs) (string, string) {
	y := otherDir(x)
	if !o.established[x] {
		return "first-not-established", fmt.Sprintf("connection %s did not become Established although it completed the handshake alone", x)
	}
	if o.established[y] {
		return "both-established", "the second connection became Established while the first one was Established"
	}
	if o.notif[x] != nil {
		return "established-disturbed", fmt.Sprintf("the Established connection received %s", o.notif[x])
	}
	if !o.probe[x] {
		return "established-disturbed", "the Established session did not deliver a probe UPDATE after the second connection was refused"
	}
	if !o.eof[y] {
		return "second-not-closed", "the second connection was not closed"
	}
	return monitorCallbacks(w)
}

// eager: the remote blindly sends OPEN and KEEPALIVE on both connections.
func eagerScript(cfg collCfg, kill string) func(w *world.World, r *world.Remote, dir string, o *collObs) {
	return func(w *world.World, r *world.Remote, dir string, o *collObs) {
		r.Send(collOpen(cfg))
		r.Send(wire.Keepalive())
		switch {
		case kill == "fin-in" && dir == "in", kill == "fin-out" && dir == "out":
			r.C.CloseWrite()
		case kill == "garbage-in" && dir == "in", kill == "garbage-out" && dir == "out":
			r.Send([]byte{0, 1, 2, 3, 4, 5, 6, 7, 8, 9, 10, 11, 12, 13, 14, 15, 16, 17, 18})
		}
		r.Deadline(2 * time.Second)
		for {
			m, err := r.ReadMsg()
			if err != nil {
				break
			}
			switch m.Type {
			case wire.TypeOpen:
				o.gotOpen[dir] = true
			case wire.TypeKeepalive:
				o.gotKA[dir] = true
			case wire.TypeNotification:
				mm := m
				o.notif[dir] = &mm
			case wire.TypeUpdate:
				if _, ok := world.IsMarker(m.Body); ok {
					o.established[dir] = true
				}
			}
		}
		o.eof[dir] = r.EOF || r.ReadErr != nil
		if !o.eof[dir] && o.established[dir] {
			r.Deadline(0)
			body := "PROBE-" + dir
			r.Send(wire.Update([]byte(body)))
			vrtWaitDelivered(w, body)
			for _, ev := range w.Log {
				if ev.Kind == "Handler" && ev.Phase == "exit" && string(ev.Data) == body {
					o.probe[dir] = true
				}
			}
		}
	}
}

func judgeEager(kill string, w *world.World, o *collObs) (string, string) {
	nSurv := 0
	for _, d := range []string{"in", "out"} {
		if o.established[d] && !o.eof[d] {
			nSurv++
			if !o.probe[d] {
				return "survivor-dead", fmt.Sprintf("surviving connection %s did not deliver a probe UPDATE", d)
			}
		}
	}
	if nSurv > 1 {
		return "both-established", "both connections survived as Established"
	}
	if kill == "" {
		if nSurv != 1 {
			return "no-survivor", fmt.Sprintf("no connection survived an eager double handshake (in: est=%v eof=%v notif=%v; out: est=%v eof=%v notif=%v)",
				o.established["in"], o.eof["in"], o.notif["in"], o.established["out"], o.eof["out"], o.notif["out"])
		}
		for _, d := range []string{"in", "out"} {
			if o.eof[d] && o.gotKA[d] && o.notif[d] == nil {
				return "loser-no-cease", fmt.Sprintf("connection %s was closed after corebgp's KEEPALIVE without a NOTIFICATION", d)
			}
			if n := o.notif[d]; n != nil {
				if c, _, _ := n.Notif(); c != 6 {
					return "loser-wrong-notification", fmt.Sprintf("connection %s received %s, only Cease is explained by a collision", d, n)
				}
			}
		}
	}
	return monitorCallbacks(w)
}

func c07Scenarios(th bool) []*Scn {
	var out []*Scn
	bound := 2
	if th {
		bound = 3
	}
	for ci := range collCfgs {
		cfg := collCfgs[ci]
		for _, first := range []string{"in", "out"} {
			first := first
			out = append(out, &Scn{Name: fmt.Sprintf("forced-collision/%s/%s-first", cfg.name, first), Bound: bound,
				Run: func(ch vrt.Chooser, trace bool) *ScnResult {
					w, e, o := collRun(cfg, ch, trace, false, forcedCollisionScript(cfg, first), nil)
					return finishRun("C07", "forced-collision", w, e, trace, false, func() (string, string) { return judgeForcedCollision(cfg, w, o) }, nil)
				}})
			if ci < 2 {
				for _, how := range []string{"cease", "cease0", "fin"} {
					how := how
					out = append(out, &Scn{Name: fmt.Sprintf("forced-kill/%s/%s-first/%s", cfg.name, first, how), Bound: bound,
						Run: func(ch vrt.Chooser, trace bool) *ScnResult {
							w, e, o := collRun(cfg, ch, trace, false, forcedCollisionScript(cfg, first, how), nil)
							return finishRun("C07", "forced-kill", w, e, trace, false, func() (string, string) { return judgeForcedKill(cfg, first, w, o) }, nil)
						}})
				}
				// a second collision of the same peer after the remote came back with an identifier on the other side
				out = append(out, c07TwoRounds(cfg, first, bound))
			}
			out = append(out, &Scn{Name: fmt.Sprintf("forced-precedence/%s/%s-first", cfg.name, first), Bound: bound,
				Run: func(ch vrt.Chooser, trace bool) *ScnResult {
					w, e, o := collRun(cfg, ch, trace, false, forcedPrecedenceScript(cfg, first), nil)
					return finishRun("C07", "forced-precedence", w, e, trace, false, func() (string, string) { return judgeForcedPrecedence(first, w, o) }, nil)
				}})
		}
		if ci >= 4 {
			continue // the far-apart configurations only matter for the dominance rule
		}
		for _, kill := range []string{"", "fin-in", "fin-out", "garbage-in", "garbage-out"} {
			kill := kill
			name := "eager"
			if kill != "" {
				name = "kill-race"
			}
			b := bound
			if kill == "" {
				b = bound + 1 // the blind double handshake is where a kill meets the victim's own pending transition
			}
			out = append(out, &Scn{Name: fmt.Sprintf("%s/%s/%s", name, cfg.name, kill), Bound: b,
				Run: func(ch vrt.Chooser, trace bool) *ScnResult {
					w, e, o := collRun(cfg, ch, trace, false, eagerScript(cfg, kill), nil)
					return finishRun("C07", name, w, e, trace, false, func() (string, string) { return judgeEager(kill, w, o) }, nil)
				}})
		}
	}
	return out
}

// c07SlowTwins: the forced shapes again with one plugin callback taking 300 ms, so that one FSM is
// far behind the other without spending schedule deviations on keeping it there.
func c07SlowTwins(th bool) []*Scn {
	var out []*Scn
	bound := 1
	if th {
		bound = 2
	}
	for _, s := range c07Scenarios(th) {
		fam := scnFamily(s.Name)
		if fam != "forced-collision" && fam != "forced-kill" && fam != "forced-precedence" {
			continue
		}
		if !th && (strings.Contains(s.Name, ">>") || strings.Contains(s.Name, "<<")) {
			continue
		}
		for _, k := range []struct {
			kind string
			n    int
		}{{"OnOpenMessage", 1}, {"OnOpenMessage", 2}, {"GetCapabilities", 2}, {"OnEstablished", 1}} {
			t := slowTwin(s, k.kind, k.n, 300*time.Millisecond)
			t.Bound = bound
			out = append(out, t)
		}
	}
	return out
}

func c07Check(c *harness.Ctx) {
	scns := c07Scenarios(c.Thorough())
	if c.Thorough() {
		// the forced-collision scenarios (which decide the dominance rule) one bound deeper.
		// (An unbounded search of these scenarios was tried: > 190 000 happens-before states after
		// 240 s without terminating, so it is not part of the check.)
		for _, s := range scns {
			if strings.HasPrefix(s.Name, "forced-collision/") {
				s.Bound = 4
			}
		}
	}
	scns = withLegacy(scns, legacyEvery(c.Thorough(), 4))
	scns = append(scns, c07SlowTwins(c.Thorough())...)
	scns = append(scns, c07ExtraScenarios(c.Thorough())...)
	nb := len(scns)
	scns = append(scns, withHold0(scns[:nb:nb], legacyEvery(c.Thorough(), 3)*2)[nb:]...)
	for i, s := range scns {
		if !c.Mine(i) {
			continue
		}
		if c.Expired() {
			return
		}
		if !exploreScn(c, "C07", s) {
			return
		}
	}
}

func init() {
	harness.Register(&harness.Check{
		Property: "C07", Level: "model_checking", NeedsConc: true, QuickS: 150, ThoroughS: 900,
		Rule:   "stateless model checking of the real (rewritten) corebgp under the vrt scheduler: for each of 4 identifier/AS configurations x {inbound, outbound completes first} x scenario shapes {forced-collision, forced-precedence, eager, kill-race with FIN/garbage, forced-kill (the remote itself ends the first connection with a Cease or FIN while the collision is being resolved: the untouched connection must end up Established or closed, never wedged), two-rounds (a second collision after the first session ended, with the other side dominant), retry-collision (the collision happens on the second inbound attempt after an aborted one), late-connection (another connection of the peer shows up while a session is Established and sends a bad OPEN / garbage / OPEN+NOTIFICATION / a valid OPEN: the Established session is kept undisturbed)}; 4 more configurations with identifiers more than 2^31 apart in the forced shapes; all schedules within the delay bound (quick 2, thorough 3) of the canonical schedule, with happens-before state caching; distinct_nontrivial = distinct observable outcomes (callback log + bytes written) summed over scenarios",
		Assume: []string{"delay-bounded schedules (bound reported in coverage.min_bound_completed)", "virtual network (A3); the dominance rule is judged only in the forced shapes where the remote's script removes the TCP-level ambiguity"},
		Run:    c07Check,
		Replay: scnReplay("C07", func(name string) *Scn {
			name = strings.TrimPrefix(name, "unbounded:")
			for _, s := range append(c07Scenarios(true), c07ExtraScenarios(true)...) {
				if s.Name == name {
					return s
				}
			}
			return nil
		}),
	})
}

// c07RetryRun: a collision after a failed inbound attempt. The outbound connection reaches OpenConfirm
// (the remote withholds its KEEPALIVE); a first inbound connection is closed by the remote right after
// corebgp's OPEN; a second inbound connection then completes its OPEN exchange. Both connections are in
// OpenConfirm: the rule decides, exactly as if the aborted attempt had never happened.
func c07RetryRun(cfg collCfg, ch vrt.Chooser, trace bool) (*world.World, *vrt.Exec, *collObs) {
	var w *world.World
	o := newCollObs()
	e := vrt.Run(vrt.Config{Horizon: int64(40 * time.Second), Trace: trace, Chooser: ch}, func() {
		w = world.New(libIP)
		w.NewServer(ip4(cfg.localID))
		pl := &world.Plugin{W: w, Peer: "P1", Marker: true}
		w.NW.OnDial(remAddr, func(att int, from *net.TCPAddr) vnet.DialOutcome {
			if att > 0 {
				return vnet.DialOutcome{Kind: vnet.DialRefuse}
			}
			return vnet.DialOutcome{Kind: vnet.DialAccept, Serve: func(c *vnet.Conn) {
				r := w.NewRemote(c, "P1")
				defer r.Finish()
				o.conn["out"] = c
				if _, ok := r.Expect(wire.TypeOpen); !ok {
					return
				}
				o.gotOpen["out"] = true
				r.Send(collOpen(cfg))
				if _, ok := r.Expect(wire.TypeKeepalive); !ok {
					w.SetFlag("out-ka")
					w.SetFlag("out-dead")
					return
				}
				o.gotKA["out"] = true
				w.SetFlag("out-ka")
				w.WaitFlag("in-ka")
				collTail(w, r, "out", o)
			}}
		})
		if err := w.AddPeer(peerConfig(remIP, cfg.localAS, cfg.remoteAS), pl, corebgp.WithDialerControl(w.DialControl("P1"))); err != nil {
			panic("harness: " + err.Error())
		}
		w.Serve(libAddr)
		vrt.GoWorld("remote-in", func() {
			w.WaitFlag("out-ka")
			// first attempt: gone right after corebgp's OPEN
			if c, err := w.NW.DialIn("10.0.0.2:40001", libAddr); err == nil {
				r := w.NewRemote(c, "P1")
				r.Expect(wire.TypeOpen)
				r.C.Close()
				r.Finish()
			}
			vrt.Sleep(time.Millisecond)
			c, err := w.NW.DialIn("10.0.0.2:40002", libAddr)
			if err != nil {
				w.SetFlag("in-ka")
				return
			}
			r := w.NewRemote(c, "P1")
			defer r.Finish()
			o.conn["in"] = c
			if _, ok := r.Expect(wire.TypeOpen); !ok {
				w.SetFlag("in-ka")
				w.SetFlag("in-dead")
				return
			}
			o.gotOpen["in"] = true
			r.Send(collOpen(cfg))
			if _, ok := r.Expect(wire.TypeKeepalive); !ok {
				if n := len(r.Rx); n > 0 && r.Rx[n-1].Type == wire.TypeNotification {
					m := r.Rx[n-1]
					o.notif["in"] = &m
					r.Deadline(time.Second)
					r.Drain()
				}
				o.eof["in"] = r.EOF || r.ReadErr != nil
				w.SetFlag("in-ka")
				w.SetFlag("in-dead")
				return
			}
			o.gotKA["in"] = true
			w.SetFlag("in-ka")
			collTail(w, r, "in", o)
		})
		vrt.NewTimer(time.Second)
		vrt.WaitLog("remotes-done", func() bool {
			return vrt.Cur().Now() >= int64(time.Second) && w.AllRemotesDone(3)
		})
		vrt.LogTouch()
		w.Close()
		w.WaitServeDone()
	})
	return w, e, o
}

// c07LateRun: one session is Established (direction est); then another connection of the same peer shows
// up (inbound) and misbehaves in a way that is a protocol error or nothing at all. "The Established one is
// kept": it receives no NOTIFICATION, no OnClose, and still delivers a probe afterwards.
func c07LateRun(cfg collCfg, how string, ch vrt.Chooser, trace bool) (*world.World, *vrt.Exec, *collObs) {
	var w *world.World
	o := newCollObs()
	e := vrt.Run(vrt.Config{Horizon: int64(40 * time.Second), Trace: trace, Chooser: ch}, func() {
		w = world.New(libIP)
		w.NewServer(ip4(cfg.localID))
		pl := &world.Plugin{W: w, Peer: "P1", Marker: true}
		w.NW.OnDial(remAddr, func(att int, from *net.TCPAddr) vnet.DialOutcome {
			if att > 0 {
				return vnet.DialOutcome{Kind: vnet.DialRefuse}
			}
			return vnet.DialOutcome{Kind: vnet.DialAccept, Serve: func(c *vnet.Conn) {
				r := w.NewRemote(c, "P1")
				defer r.Finish()
				o.conn["out"] = c
				if _, ok := r.Expect(wire.TypeOpen); !ok {
					return
				}
				r.Send(collOpen(cfg))
				if _, ok := r.Expect(wire.TypeKeepalive); !ok {
					return
				}
				r.Send(wire.Keepalive())
				if m, ok := r.Expect(wire.TypeUpdate); ok {
					_, o.established["out"] = world.IsMarker(m.Body)
				}
				w.SetFlag("out-est")
				w.WaitFlag("late-done")
				r.Send(wire.Update([]byte("PROBE-out")))
				vrtWaitDelivered(w, "PROBE-out")
				for _, ev := range w.Log {
					if ev.Kind == "Handler" && ev.Phase == "exit" && string(ev.Data) == "PROBE-out" {
						o.probe["out"] = true
					}
				}
				r.Deadline(time.Second)
				r.Drain()
				for _, m := range r.Rx {
					if m.Type == wire.TypeNotification {
						mm := m
						o.notif["out"] = &mm
					}
				}
				o.eof["out"] = r.EOF || r.ReadErr != nil
			}}
		})
		if err := w.AddPeer(peerConfig(remIP, cfg.localAS, cfg.remoteAS), pl, corebgp.WithDialerControl(w.DialControl("P1"))); err != nil {
			panic("harness: " + err.Error())
		}
		w.Serve(libAddr)
		vrt.GoWorld("remote-late", func() {
			w.WaitFlag("out-est")
			defer w.SetFlag("late-done")
			c, err := w.NW.DialIn("10.0.0.2:40001", libAddr)
			if err != nil {
				return
			}
			r := w.NewRemote(c, "P1")
			defer r.Finish()
			o.conn["in"] = c
			switch how {
			case "bad-open":
				r.Send(wire.Open(64999, 90, cfg.remoteID))
			case "garbage":
				r.Send([]byte{1, 2, 3, 4, 5, 6, 7, 8, 9, 10, 11, 12, 13, 14, 15, 16, 17, 18, 19})
			case "open-then-notification":
				r.Send(collOpen(cfg))
				r.Send(wire.Notification(2, 2, nil))
			case "open":
				r.Send(collOpen(cfg))
			case "open-keepalive":
				r.Send(collOpen(cfg))
				r.Send(wire.Keepalive())
			}
			r.Deadline(time.Second)
			r.Drain()
			for _, m := range r.Rx {
				if m.Type == wire.TypeUpdate {
					if _, ok := world.IsMarker(m.Body); ok {
						o.established["in"] = true
					}
				}
			}
			o.eof["in"] = r.EOF || r.ReadErr != nil
		})
		vrt.NewTimer(time.Second)
		vrt.WaitLog("remotes-done", func() bool {
			return vrt.Cur().Now() >= int64(time.Second) && w.AllRemotesDone(2)
		})
		vrt.LogTouch()
		w.Close()
		w.WaitServeDone()
	})
	return w, e, o
}

func judgeLate(w *world.World, o *collObs) (string, string) {
	if !o.established["out"] {
		return "setup", "the first session did not become Established"
	}
	if o.notif["out"] != nil {
		return "established-disturbed", fmt.Sprintf("the Established connection received %s after another connection of the peer misbehaved", o.notif["out"])
	}
	if !o.probe["out"] {
		return "established-disturbed", "the Established session no longer delivers UPDATEs after another connection of the peer showed up"
	}
	if o.established["in"] {
		return "both-established", "the late connection became Established as well"
	}
	if o.conn["in"] != nil && !o.eof["in"] {
		return "second-not-closed", "the late connection was not closed"
	}
	for _, ev := range w.Log {
		if ev.Kind == "OnClose" && ev.T < int64(900*time.Millisecond) {
			return "established-disturbed", "OnClose fired for the Established session"
		}
	}
	return monitorCallbacks(w)
}

func c07ExtraScenarios(th bool) []*Scn {
	var out []*Scn
	bound := 2
	if th {
		bound = 3
	}
	for ci := range collCfgs {
		cfg := collCfgs[ci]
		if ci >= 4 && !th {
			continue
		}
		out = append(out, &Scn{Name: "retry-collision/" + cfg.name, Bound: bound, Run: func(ch vrt.Chooser, trace bool) *ScnResult {
			w, e, o := c07RetryRun(cfg, ch, trace)
			return finishRun("C07", "retry-collision", w, e, trace, false, func() (string, string) { return judgeForcedCollision(cfg, w, o) }, nil)
		}})
		if ci >= 2 {
			continue
		}
		for _, how := range []string{"bad-open", "garbage", "open-then-notification", "open", "open-keepalive"} {
			how := how
			out = append(out, &Scn{Name: "late-connection/" + cfg.name + "/" + how, Bound: bound - 1, Run: func(ch vrt.Chooser, trace bool) *ScnResult {
				w, e, o := c07LateRun(cfg, how, ch, trace)
				return finishRun("C07", "late-connection", w, e, trace, false, func() (string, string) { return judgeLate(w, o) }, nil)
			}})
		}
	}
	return out
}
