package props

import (
	"bytes"
	"encoding/hex"
	"encoding/json"
	"errors"
	"fmt"
	"net"
	"net/netip"
	"runtime/debug"
	"strings"
	"time"

	"github.com/jwhited/corebgp"

	"corebgpverif/harness"
	"corebgpverif/vnet"
	"corebgpverif/vrt"
	"corebgpverif/wire"
	"corebgpverif/world"
)

// C05: no remote input or API sequence crashes or wedges the process.

// fullDecoder wires every exported typed decoder behind an UpdateDecoder, the
// way a real plugin would.
type decoded struct{ n int }

func fullDecoder(addPath bool) *corebgp.UpdateDecoder[*decoded] {
	reach := corebgp.NewMPReachNLRIDecodeFn[*decoded](func(d *decoded, afi uint16, safi uint8, nh, nlri []byte) error {
		_, e1 := corebgp.DecodeMPReachIPv6NextHops(nh)
		var e2 error
		if addPath {
			_, e2 = corebgp.DecodeMPIPv6AddPathPrefixes(nlri)
		} else {
			_, e2 = corebgp.DecodeMPIPv6Prefixes(nlri)
		}
		return errors.Join(e1, e2)
	})
	unreach := corebgp.NewMPUnreachNLRIDecodeFn[*decoded](func(d *decoded, afi uint16, safi uint8, wd []byte) error {
		if addPath {
			_, err := corebgp.DecodeMPIPv6AddPathPrefixes(wd)
			return err
		}
		_, err := corebgp.DecodeMPIPv6Prefixes(wd)
		return err
	})
	pa := func(d *decoded, code uint8, flags corebgp.PathAttrFlags, b []byte) error {
		d.n++
		switch code {
		case 1:
			var a corebgp.OriginPathAttr
			return a.Decode(flags, b)
		case 2:
			var a corebgp.ASPathAttr
			return a.Decode(flags, b)
		case 3:
			var a corebgp.NextHopPathAttr
			return a.Decode(flags, b)
		case 4:
			var a corebgp.MEDPathAttr
			return a.Decode(flags, b)
		case 5:
			var a corebgp.LocalPrefPathAttr
			return a.Decode(flags, b)
		case 6:
			var a corebgp.AtomicAggregatePathAttr
			return a.Decode(flags, b)
		case 7:
			var a corebgp.AggregatorPathAttr
			return a.Decode(flags, b)
		case 8:
			var a corebgp.CommunitiesPathAttr
			return a.Decode(flags, b)
		case 9:
			var a corebgp.OriginatorIDPathAttr
			return a.Decode(flags, b)
		case 10:
			var a corebgp.ClusterListPathAttr
			return a.Decode(flags, b)
		case 32:
			var a corebgp.LargeCommunitiesPathAttr
			return a.Decode(flags, b)
		case 14:
			return reach(d, flags, b)
		case 15:
			return unreach(d, flags, b)
		}
		return nil
	}
	if addPath {
		return corebgp.NewUpdateDecoder[*decoded](
			corebgp.NewWithdrawnAddPathRoutesDecodeFn[*decoded](func(*decoded, []corebgp.AddPathPrefix) error { return nil }), pa,
			corebgp.NewNLRIAddPathDecodeFn[*decoded](func(*decoded, []corebgp.AddPathPrefix) error { return nil }))
	}
	return corebgp.NewUpdateDecoder[*decoded](
		corebgp.NewWithdrawnRoutesDecodeFn[*decoded](func(*decoded, []netip.Prefix) error { return nil }), pa,
		corebgp.NewNLRIDecodeFn[*decoded](func(*decoded, []netip.Prefix) error { return nil }))
}

// ---------- (a) byte streams at every state ----------

type c05Wire struct {
	State   int      `json:"state"`
	Inbound bool     `json:"inbound"`
	Stream  string   `json:"stream_hex,omitempty"`
	Updates []string `json:"update_bodies_hex,omitempty"` // batch of UPDATE bodies run through a full decoder plugin
	Fin     bool     `json:"fin"`
	// Hold: the remote neither reads on nor closes after its input; it keeps the connection open, silent,
	// until Server.Close has returned (a peer that does not hang up when told to)
	Hold bool   `json:"hold,omitempty"`
	Note string `json:"note,omitempty"`
}

func c05WireRun(cs c05Wire, trace bool) (rule, msg string, w *world.World) {
	stream, _ := hex.DecodeString(cs.Stream)
	dec, decAP := fullDecoder(false), fullDecoder(true)
	p2up := false
	var leaks []string
	var e *vrt.Exec
	e = vrt.Run(vrt.Config{Horizon: int64(60 * time.Second), Trace: trace}, func() {
		w = world.New(libIP)
		w.NewServer(libIP)
		pl := &world.Plugin{W: w, Peer: "P1", Marker: true, NoYield: true}
		pl.Handle = func(p *world.Plugin, s, n int, b []byte) *corebgp.Notification {
			// a real plugin decodes every UPDATE; errors are swallowed so one session can carry many inputs
			if string(b) == "REJECT" {
				return &corebgp.Notification{Code: 3, Subcode: 1}
			}
			corebgp.UpdateNotificationFromErr(dec.Decode(&decoded{}, b))
			corebgp.UpdateNotificationFromErr(decAP.Decode(&decoded{}, b))
			return nil
		}
		script := func(r *world.Remote) {
			if !reach(r, cs.State, 65002, 90) {
				return
			}
			if len(stream) > 0 {
				r.Send(stream)
			}
			for _, u := range cs.Updates {
				b, _ := hex.DecodeString(u)
				if r.Send(wire.Update(b)) != nil {
					break
				}
			}
			if cs.Fin {
				r.C.CloseWrite()
			}
			if cs.Hold {
				w.SetFlag("input-sent")
				w.WaitFlag("lib-closed")
				return
			}
			r.Deadline(3 * time.Second)
			r.Drain()
		}
		opts := []corebgp.PeerOption{corebgp.WithDialerControl(w.DialControl("P1"))}
		if cs.Inbound {
			opts = append(opts, corebgp.WithPassive())
		} else {
			w.NW.OnDial(remAddr, func(att int, from *net.TCPAddr) vnet.DialOutcome {
				if att > 0 {
					return vnet.DialOutcome{Kind: vnet.DialRefuse}
				}
				return vnet.DialOutcome{Kind: vnet.DialAccept, Serve: func(c *vnet.Conn) {
					r := w.NewRemote(c, "P1")
					script(r)
					r.Finish()
				}}
			})
		}
		if err := w.Server.AddPeer(peerConfig(remIP, 65001, 65002), pl, opts...); err != nil {
			panic("harness: " + err.Error())
		}
		pl2 := &world.Plugin{W: w, Peer: "P2", Marker: true, NoYield: true}
		if err := w.Server.AddPeer(peerConfig(remIP2, 65001, 65003), pl2, corebgp.WithPassive()); err != nil {
			panic("harness: " + err.Error())
		}
		w.Serve(libAddr)
		if cs.Inbound {
			vrt.GoWorld("remote-in", func() {
				c, err := w.NW.DialIn("10.0.0.2:40001", libAddr)
				if err != nil {
					return
				}
				r := w.NewRemote(c, "P1")
				script(r)
				r.Finish()
			})
		}
		vrt.NewTimer(10 * time.Second)
		dl := vrt.Cur().Now() + int64(10*time.Second)
		vrt.WaitLog("attack-done", func() bool {
			return w.AllRemotesDone(1) || vrt.Cur().Now() >= dl || (cs.Hold && w.Flag("input-sent"))
		})
		vrt.LogTouch()
		if cs.Hold {
			vrt.Sleep(2 * time.Second) // corebgp has answered whatever it answers; the remote just sits there
		}
		// liveness probe: the other peer still establishes
		if c, err := w.NW.DialIn("10.0.0.3:40002", libAddr); err == nil {
			r := w.NewRemote(c, "P2")
			r.Deadline(3 * time.Second)
			p2up = reach(r, stEstablished, 65003, 90)
			r.Finish()
		}
		w.Close()
		w.WaitServeDone()
		w.SetFlag("lib-closed")
		vrt.WaitQuiescent()
		for _, g := range vrt.Cur().LiveLib() {
			leaks = append(leaks, g.Name()+"@"+g.PendingSite())
		}
	})
	defer e.Finish()
	if r, m := basicVerdict(e); r != "" {
		return r, m, w
	}
	if !p2up {
		return "other-peer-not-served", "after the input the server no longer established a session with another configured peer", w
	}
	if len(leaks) > 0 {
		return "goroutine-leak", fmt.Sprintf("corebgp goroutines alive after Close and Serve returned: %v", leaks), w
	}
	for _, c := range w.NW.Conns {
		if c.Lib {
			if _, rest, err := wire.ParseStrict(c.Sent); err != nil || (len(rest) > 0 && !cutByPeer(c, rest)) {
				return "malformed-output", fmt.Sprintf("%s: corebgp wrote malformed bytes (%v)", c, err), w
			}
		}
	}
	return "", "", w
}

// ---------- (b) exported decoders never panic ----------

func c05Safe(name string, in []byte, f func()) (rule, msg string) {
	defer func() {
		if r := recover(); r != nil {
			st := string(debug.Stack())
			if strings.Contains(st, "github.com/jwhited/corebgp.") {
				rule, msg = "panic", fmt.Sprintf("%s panicked on %d bytes %x..: %v\n%s", name, len(in), trunc(in), r, trimStack(st))
				return
			}
			panic(r)
		}
	}()
	f()
	return "", ""
}

type namedDec struct {
	name string
	f    func(flags corebgp.PathAttrFlags, b []byte)
}

func c05Decoders() []namedDec {
	nl := corebgp.NewNLRIDecodeFn[*decoded](func(*decoded, []netip.Prefix) error { return nil })
	nlAP := corebgp.NewNLRIAddPathDecodeFn[*decoded](func(*decoded, []corebgp.AddPathPrefix) error { return nil })
	wd := corebgp.NewWithdrawnRoutesDecodeFn[*decoded](func(*decoded, []netip.Prefix) error { return nil })
	wdAP := corebgp.NewWithdrawnAddPathRoutesDecodeFn[*decoded](func(*decoded, []corebgp.AddPathPrefix) error { return nil })
	reach := corebgp.NewMPReachNLRIDecodeFn[*decoded](func(*decoded, uint16, uint8, []byte, []byte) error { return nil })
	unreach := corebgp.NewMPUnreachNLRIDecodeFn[*decoded](func(*decoded, uint16, uint8, []byte) error { return nil })
	return []namedDec{
		{"OriginPathAttr", func(f corebgp.PathAttrFlags, b []byte) { var a corebgp.OriginPathAttr; a.Decode(f, b) }},
		{"ASPathAttr", func(f corebgp.PathAttrFlags, b []byte) { var a corebgp.ASPathAttr; a.Decode(f, b) }},
		{"NextHopPathAttr", func(f corebgp.PathAttrFlags, b []byte) { var a corebgp.NextHopPathAttr; a.Decode(f, b) }},
		{"MEDPathAttr", func(f corebgp.PathAttrFlags, b []byte) { var a corebgp.MEDPathAttr; a.Decode(f, b) }},
		{"LocalPrefPathAttr", func(f corebgp.PathAttrFlags, b []byte) { var a corebgp.LocalPrefPathAttr; a.Decode(f, b) }},
		{"AtomicAggregatePathAttr", func(f corebgp.PathAttrFlags, b []byte) { var a corebgp.AtomicAggregatePathAttr; a.Decode(f, b) }},
		{"AggregatorPathAttr", func(f corebgp.PathAttrFlags, b []byte) { var a corebgp.AggregatorPathAttr; a.Decode(f, b) }},
		{"CommunitiesPathAttr", func(f corebgp.PathAttrFlags, b []byte) { var a corebgp.CommunitiesPathAttr; a.Decode(f, b) }},
		{"OriginatorIDPathAttr", func(f corebgp.PathAttrFlags, b []byte) { var a corebgp.OriginatorIDPathAttr; a.Decode(f, b) }},
		{"ClusterListPathAttr", func(f corebgp.PathAttrFlags, b []byte) { var a corebgp.ClusterListPathAttr; a.Decode(f, b) }},
		{"LargeCommunitiesPathAttr", func(f corebgp.PathAttrFlags, b []byte) { var a corebgp.LargeCommunitiesPathAttr; a.Decode(f, b) }},
		{"NLRI", func(f corebgp.PathAttrFlags, b []byte) { nl(&decoded{}, b) }},
		{"NLRIAddPath", func(f corebgp.PathAttrFlags, b []byte) { nlAP(&decoded{}, b) }},
		{"Withdrawn", func(f corebgp.PathAttrFlags, b []byte) { wd(&decoded{}, b) }},
		{"WithdrawnAddPath", func(f corebgp.PathAttrFlags, b []byte) { wdAP(&decoded{}, b) }},
		{"MPReach", func(f corebgp.PathAttrFlags, b []byte) { reach(&decoded{}, f, b) }},
		{"MPUnreach", func(f corebgp.PathAttrFlags, b []byte) { unreach(&decoded{}, f, b) }},
		{"DecodeMPReachIPv6NextHops", func(f corebgp.PathAttrFlags, b []byte) { corebgp.DecodeMPReachIPv6NextHops(b) }},
		{"DecodeMPIPv6Prefixes", func(f corebgp.PathAttrFlags, b []byte) { corebgp.DecodeMPIPv6Prefixes(b) }},
		{"DecodeMPIPv6AddPathPrefixes", func(f corebgp.PathAttrFlags, b []byte) { corebgp.DecodeMPIPv6AddPathPrefixes(b) }},
		{"DecodeAddPathTuples", func(f corebgp.PathAttrFlags, b []byte) { corebgp.DecodeAddPathTuples(b) }},
		{"UpdateDecoder", func(f corebgp.PathAttrFlags, b []byte) {
			corebgp.UpdateNotificationFromErr(fullDecoder(false).Decode(&decoded{}, b))
		}},
		{"UpdateDecoderAddPath", func(f corebgp.PathAttrFlags, b []byte) {
			corebgp.UpdateNotificationFromErr(fullDecoder(true).Decode(&decoded{}, b))
		}},
	}
}

func c05DecoderSweep(c *harness.Ctx, idx *int) bool {
	decs := c05Decoders()
	maxLen := 2
	if c.Thorough() {
		maxLen = 3
	}
	flagSet := []corebgp.PathAttrFlags{0x40, 0x80, 0xc0, 0x00, 0x90, 0xff}
	for di, d := range decs {
		for l := 0; l <= maxLen; l++ {
			total := 1
			for i := 0; i < l; i++ {
				total *= 256
			}
			// shard on the first byte for the long sweeps
			for first := 0; first < 256; first++ {
				if l == 0 && first > 0 {
					break
				}
				*idx++
				if !c.Mine(*idx) {
					continue
				}
				if c.Expired() {
					return false
				}
				per := total / 256
				if l == 0 {
					per = 1
				}
				b := make([]byte, l)
				for v := 0; v < per; v++ {
					if l > 0 {
						b[0] = byte(first)
					}
					x := v
					for i := l - 1; i >= 1; i-- {
						b[i] = byte(x)
						x >>= 8
					}
					// exact capacity so that an over-read panics
					in := append(make([]byte, 0, l), b...)
					for _, f := range flagSet {
						c.Res.Evaluations++
						if r, m := c05Safe(d.name, in, func() { d.f(f, in) }); r != "" {
							c.Violation(r, "C05:decoder:"+d.name+":panic", m, map[string]any{"decoder": d.name, "flags": int(f), "input_hex": hex.EncodeToString(in)})
						}
						if di >= 11 {
							break // flags are irrelevant for the prefix decoders
						}
					}
				}
				c.Eval([]byte(fmt.Sprintf("sweep/%s/%d/%d", d.name, l, first)), true)
			}
		}
		// longer structured inputs: every length 0..300 and boundary lengths with four fills
		*idx++
		if !c.Mine(*idx) {
			continue
		}
		var lens []int
		for l := 0; l <= 300; l++ {
			lens = append(lens, l)
		}
		lens = append(lens, 4073, 4077, 4096, 65535, 65536, 65537, 70000)
		for _, l := range lens {
			for _, fill := range []byte{0x00, 0xff, 0x01, 0x20} {
				in := bytes.Repeat([]byte{fill}, l)
				for _, f := range flagSet[:3] {
					c.Res.Evaluations++
					if r, m := c05Safe(d.name, in, func() { d.f(f, in) }); r != "" {
						c.Violation(r, "C05:decoder:"+d.name+":panic", m, map[string]any{"decoder": d.name, "flags": int(f), "len": l, "fill": fill})
					}
				}
			}
		}
	}
	// UpdateDecoder: every pair of boundary length fields x total lengths
	B := []int{0, 1, 2, 255, 256, 4073, 4077, 0x7fff, 0xfffd, 0xfffe, 0xffff}
	for _, wl := range B {
		for _, al := range B {
			*idx++
			if !c.Mine(*idx) {
				continue
			}
			exact := 4 + wl + al
			for _, tot := range []int{4, exact, exact - 1, exact + 1, 4077, 65535, 65536, 65537, 65540, 70000, exact + 5} {
				if tot < 4 {
					continue
				}
				for _, fill := range []byte{0, 0xff, 0x40} {
					in := bytes.Repeat([]byte{fill}, tot)
					in[0], in[1] = byte(wl>>8), byte(wl)
					if 2+wl+1 < tot {
						in[2+wl], in[2+wl+1] = byte(al>>8), byte(al)
					}
					for _, ap := range []bool{false, true} {
						c.Res.Evaluations++
						if r, m := c05Safe("UpdateDecoder", in, func() { corebgp.UpdateNotificationFromErr(fullDecoder(ap).Decode(&decoded{}, in)) }); r != "" {
							c.Violation(r, "C05:decoder:UpdateDecoder:panic", m, map[string]any{"withdrawn_len": wl, "attr_len": al, "total": tot, "fill": fill})
						}
					}
				}
			}
			c.Eval([]byte(fmt.Sprintf("lenpair/%d/%d", wl, al)), true)
		}
	}
	return true
}

// c05UpdateBodies runs UpdateDecoder.Decode (recording callbacks, exact-capacity input) on the body
// sets of C16 - every string up to length 7 (thorough 8) over the 12-symbol protocol alphabet, the
// attribute grammar with length-field mutations, padded 4077-byte bodies - and judges one thing only:
// it returns.
func c05UpdateBodies(c *harness.Ctx) bool {
	rec := newUpdRec()
	n := 0
	bad := func(body []byte, pan any) {
		c.Violation("panic", "C05:decoder:UpdateDecoder:panic", fmt.Sprintf("UpdateDecoder.Decode panicked on a %d-byte body %x: %v", len(body), trunc(body), pan),
			map[string]any{"decoder": "UpdateDecoder", "input_hex": hex.EncodeToString(body)})
	}
	try := func(body []byte) {
		exact := make([]byte, len(body)) // exact capacity: an over-read past the body panics instead of reading slack
		copy(exact, body)
		if _, pan := rec.run(exact, nil); pan != nil {
			bad(body, pan)
		}
		n++
	}
	shortLen := 7
	if c.Thorough() {
		shortLen = 8
	}
	_, seqs, padSeqs := c16Params(false)
	var buf []byte
	full := updGrammarOpts{ws: []int{0, 1, 2, 3}, ns: []int{0, 1, 2}, tails: []int{0, 1, 2, 3, 4, 5, 6}}
	mut := updGrammarOpts{ws: []int{0, 2}, ns: []int{0, 1}, tails: []int{0, 6}, mutate: true}
	for i, seq := range seqs {
		if !c.Mine(i) {
			continue
		}
		if c.Expired() {
			return false
		}
		for _, o := range []updGrammarOpts{full, mut} {
			updGrammar(seq, o, &buf, try)
		}
	}
	for i, seq := range padSeqs {
		if c.Mine(i) {
			updPadded(seq, 4077, &buf, try)
		}
	}
	ok := updShort(c, shortLen, try)
	c.Res.Evaluations += int64(n)
	c.Eval([]byte(fmt.Sprintf("update-bodies/%d", c.Res.Shard)), true)
	c.Res.Extra["update_bodies_no_panic"] = float64(n)
	return ok
}

// ---------- (c) API sequences ----------

var c05APIOps = []string{"addA", "addB", "addInvalid", "delA", "getA", "list", "serve", "close", "connectB", "connectX", "addC0"}

type c05API struct {
	Ops []int `json:"ops"`
}

func (a c05API) names() []string {
	var n []string
	for _, o := range a.Ops {
		n = append(n, c05APIOps[o])
	}
	return n
}

func c05APIRun(cs c05API, ch vrt.Chooser, trace bool) (*world.World, *vrt.Exec, *[]string) {
	var w *world.World
	problems := &[]string{}
	e := vrt.Run(vrt.Config{Horizon: int64(30 * time.Second), Trace: trace, Chooser: ch}, func() {
		w = world.New(libIP)
		s := w.NewServer(libIP)
		w.NW.OnDial(remAddr, func(int, *net.TCPAddr) vnet.DialOutcome { return vnet.DialOutcome{Kind: vnet.DialRefuse} })
		nServe, nServeDone, nConn := 0, 0, 0
		closed := false
		for _, op := range cs.Ops {
			switch c05APIOps[op] {
			case "addA":
				s.AddPeer(peerConfig(remIP, 65001, 65002), &world.Plugin{W: w, Peer: "P1", Marker: true}, corebgp.WithDialerControl(w.DialControl("P1")))
			case "addB":
				s.AddPeer(peerConfig(remIP2, 65001, 65003), &world.Plugin{W: w, Peer: "P2", Marker: true}, corebgp.WithPassive())
			case "addInvalid":
				if err := s.AddPeer(corebgp.PeerConfig{RemoteAddress: netip.Addr{}, LocalAS: 1, RemoteAS: 1}, nullPlugin{}); err == nil {
					*problems = append(*problems, "AddPeer accepted an invalid configuration")
				}
			case "addC0":
				// boundary option values AddPeer accepts: connect-retry time 0, hold time 0, port 65535
				s.AddPeer(peerConfig("10.0.0.5", 65001, 65005), &world.Plugin{W: w, Peer: "P5"}, corebgp.WithConnectRetryTime(0), corebgp.WithHoldTime(0), corebgp.WithPort(65535))
			case "delA":
				s.DeletePeer(netip.MustParseAddr(remIP))
			case "getA":
				s.GetPeer(netip.MustParseAddr(remIP))
			case "list":
				s.ListPeers()
			case "serve":
				nServe++
				n := nServe
				var ls []net.Listener
				if l, err := w.NW.Listen(fmt.Sprintf("10.0.0.1:%d", 178+n)); err == nil {
					ls = append(ls, l)
				}
				vrt.GoWorld(fmt.Sprintf("serve%d", n), func() {
					s.Serve(ls)
					nServeDone++
					w.Note("serve-returned", fmt.Sprint(n))
				})
				vrt.Yield("c05.serve")
			case "close":
				s.Close()
				closed = true
			case "connectB", "connectX":
				// a TCP connection arrives (from the configured passive peer B / from an unconfigured
				// address) and is left to the server: whatever the API does next meets it in flight
				src := "10.0.0.3"
				if c05APIOps[op] == "connectX" {
					src = "10.0.0.9"
				}
				nConn++
				for n := 1; n <= nServe; n++ {
					if cn, err := w.NW.DialIn(fmt.Sprintf("%s:%d", src, 41000+10*nConn+n), fmt.Sprintf("10.0.0.1:%d", 178+n)); err == nil {
						r := w.NewRemote(cn, "conn")
						vrt.GoWorld(fmt.Sprintf("conn%d.%d", nConn, n), func() {
							r.Deadline(20 * time.Second)
							r.Drain()
							r.C.Close()
							r.Finish()
						})
					}
				}
			}
		}
		// liveness probe: a passive peer C added now is served if the server is serving; Close returns; every Serve returns
		if !closed && nServe > 0 {
			vrt.Sleep(time.Second)
			if err := s.AddPeer(peerConfig("10.0.0.4", 65001, 65004), &world.Plugin{W: w, Peer: "P3", Marker: true}, corebgp.WithPassive()); err == nil {
				// only one of several Serve calls is serving: try the listener of each
				up := false
				for n := 1; n <= nServe && !up; n++ {
					c, err := w.NW.DialIn(fmt.Sprintf("10.0.0.4:%d", 40003+n), fmt.Sprintf("10.0.0.1:%d", 178+n))
					if err != nil {
						continue
					}
					r := w.NewRemote(c, "P3")
					r.Deadline(3 * time.Second)
					up = reach(r, stEstablished, 65004, 90)
					r.C.Close()
					r.Finish()
				}
				if !up {
					*problems = append(*problems, "a peer added after the sequence could not establish a session")
				}
			}
		}
		s.Close()
		vrt.NewTimer(5 * time.Second)
		dl := vrt.Cur().Now() + int64(5*time.Second)
		vrt.WaitLog("serves-returned", func() bool { return nServeDone == nServe || vrt.Cur().Now() >= dl })
		vrt.LogTouch()
		if nServeDone != nServe {
			*problems = append(*problems, fmt.Sprintf("%d of %d Serve calls did not return after Close", nServe-nServeDone, nServe))
		}
		vrt.WaitQuiescent()
		if live := vrt.Cur().LiveLib(); len(live) > 0 && nServeDone == nServe {
			var names []string
			for _, g := range live {
				names = append(names, g.Name()+"@"+g.PendingSite())
			}
			*problems = append(*problems, fmt.Sprintf("corebgp goroutines alive after Close: %v", names))
		}
	})
	return w, e, problems
}

func c05APIScn(cs c05API, bound int) *Scn {
	b, _ := json.Marshal(cs)
	return &Scn{Name: "api/" + string(b), Bound: bound, Run: func(ch vrt.Chooser, trace bool) *ScnResult {
		w, e, problems := c05APIRun(cs, ch, trace)
		return finishRun("C05", "api", w, e, trace, false, func() (string, string) {
			if len(*problems) > 0 {
				return "wedged", fmt.Sprintf("API sequence %v: %s", cs.names(), strings.Join(*problems, "; "))
			}
			return "", ""
		}, nil)
	}}
}

func c05Check(c *harness.Ctx) {
	th := c.Thorough()
	idx := 0
	if !c05DecoderSweep(c, &idx) {
		return
	}
	if !c05UpdateBodies(c) {
		return
	}
	// (a) attack streams
	runWire := func(cs c05Wire) bool {
		idx++
		if !c.Mine(idx) {
			return true
		}
		if c.Expired() {
			return false
		}
		b, _ := json.Marshal(cs)
		c.Eval(b, true)
		if idx%7001 == 1 {
			c.Sample(cs)
		}
		if rule, msg, w := c05WireRun(cs, false); rule != "" {
			c.Violation(rule, "C05:wire:"+stName[cs.State]+":"+rule, msg, map[string]any{"case": cs, "log": logText(w)})
		}
		return true
	}
	var streams [][]byte
	// every type octet x lengths x fills
	for t := 0; t < 256; t++ {
		for _, l := range []int{19, 20, 21, 29, 4096} {
			for _, fill := range []byte{0x00, 0xff} {
				streams = append(streams, append(wire.RawHeader(wire.GoodMarker, uint16(l), byte(t)), bytes.Repeat([]byte{fill}, l-19)...))
			}
		}
	}
	for _, l := range []int{0, 1, 18, 19, 4096, 4097, 32767, 32768, 65535} {
		for _, t := range []byte{1, 2, 3, 4} {
			streams = append(streams, append(wire.RawHeader(wire.GoodMarker, uint16(l), t), bytes.Repeat([]byte{0}, 64)...))
		}
	}
	for pos := 0; pos < 16; pos++ {
		m := wire.GoodMarker
		m[pos] = 0
		streams = append(streams, wire.RawHeader(m, 19, 4))
	}
	for _, l := range []int{0, 1, 2, 3, 4077} {
		streams = append(streams, wire.Frame(wire.TypeNotification, bytes.Repeat([]byte{3}, l)))
	}
	// received NOTIFICATIONs: codes x subcodes x data patterns (incl. data whose first octet is a length)
	for _, code := range []byte{0, 1, 2, 3, 4, 5, 6, 7, 255} {
		for _, sub := range []byte{0, 1, 2, 3, 4, 5, 6, 7, 8, 9, 10, 11, 12, 255} {
			for _, data := range [][]byte{nil, {0}, {1}, {255}, {64, 'b', 'y', 'e'}, {3, 'b', 'y', 'e'}, {2, 'a'}, bytes.Repeat([]byte{0xff}, 128)} {
				streams = append(streams, wire.Notification(code, sub, data))
			}
		}
	}
	// bursts: a message that ends the session (or is rejected by the plugin), with 1-3 complete messages right behind it in the same write
	enders := [][]byte{wire.Notification(6, 0, nil), wire.Notification(3, 1, nil), wire.RawHeader([16]byte{}, 19, 4), wire.RawHeader(wire.GoodMarker, 19, 99),
		wire.Open(65002, 90, 0x0a000002), wire.Update([]byte("REJECT")), wire.Keepalive()}
	for _, en := range enders {
		for n := 1; n <= 3; n++ {
			for _, tail := range [][]byte{wire.Keepalive(), wire.Update([]byte{0, 0, 0, 0})} {
				s := append([]byte{}, en...)
				for i := 0; i < n; i++ {
					s = append(s, tail...)
				}
				streams = append(streams, s)
			}
		}
	}
	// OPENs in the RFC 9072 extended optional-parameters format (length octet 255, type 255, 16-bit lengths)
	// with capabilities whose length octets reach 253..255 with real data behind them
	for _, capLens := range [][]int{{4}, {253}, {254}, {255}, {4, 254}, {255, 255}, {0, 255}} {
		var caps []byte
		for i, l := range capLens {
			caps = append(caps, byte(65+i), byte(l))
			caps = append(caps, bytes.Repeat([]byte{byte(0x30 + i)}, l)...)
		}
		for _, short := range []int{0, 1} { // exact, and one octet short
			val := caps[:len(caps)-short]
			param := append([]byte{2, byte(len(val) >> 8), byte(len(val))}, val...)
			ext := append([]byte{255, byte(len(param) >> 8), byte(len(param))}, param...)
			body := append([]byte{4, 0xfd, 0xea, 0, 90, 10, 0, 0, 2, 255}, ext...)
			if len(body) <= 4077 {
				streams = append(streams, wire.Frame(wire.TypeOpen, body))
			}
		}
	}
	nPlain := len(streams)
	// truncations of valid messages, followed by FIN
	var truncs [][]byte
	for _, m := range [][]byte{wire.Open(65002, 90, 0x0a000002), wire.Keepalive(), wire.Update([]byte{0, 0, 0, 4, 0x40, 1, 1, 0}), wire.Notification(6, 0, []byte{1, 2})} {
		for cut := 1; cut < len(m); cut++ {
			truncs = append(truncs, m[:cut])
		}
	}
	// the OPEN bodies of C02 (decode paths in every state)
	openBodies := c02Bodies(c02Cfgs[0], th)
	for _, st := range []int{stOpenSent, stOpenConfirm, stEstablished} {
		for _, inbound := range []bool{true, false} {
			for i, s := range streams {
				if !runWire(c05Wire{State: st, Inbound: inbound, Stream: hex.EncodeToString(s), Fin: i%2 == 0 && i >= nPlain}) {
					return
				}
				if !runWire(c05Wire{State: st, Inbound: inbound, Stream: hex.EncodeToString(s), Hold: true, Note: "remote stays connected and silent until Close has returned"}) {
					return
				}
			}
			for _, s := range truncs {
				if !runWire(c05Wire{State: st, Inbound: inbound, Stream: hex.EncodeToString(s), Fin: true, Note: "truncation+FIN"}) {
					return
				}
			}
			stride := 1
			if st != stOpenSent {
				stride = 9
			}
			if !th {
				stride *= 4
			}
			for i := 0; i < len(openBodies); i += stride {
				if !runWire(c05Wire{State: st, Inbound: inbound, Stream: hex.EncodeToString(wire.Frame(wire.TypeOpen, openBodies[i])), Note: "OPEN body of G02"}) {
					return
				}
			}
		}
	}
	// UPDATE bodies through a full decoder plugin, batched per session
	alpha := []byte{0x00, 0x01, 0x02, 0x03, 0x04, 0x0e, 0x0f, 0x10, 0x40, 0x80, 0x90, 0xff}
	maxLen := 4
	if th {
		maxLen = 5
	}
	var batch []string
	flush := func() bool {
		if len(batch) == 0 {
			return true
		}
		ok := runWire(c05Wire{State: stEstablished, Inbound: len(batch)%2 == 0, Updates: batch, Note: "UPDATE bodies through a full UpdateDecoder plugin"})
		batch = nil
		return ok
	}
	var gen func(prefix []byte, l int) bool
	gen = func(prefix []byte, l int) bool {
		if len(prefix) == l {
			batch = append(batch, hex.EncodeToString(prefix))
			if len(batch) == 400 {
				return flush()
			}
			return true
		}
		for _, a := range alpha {
			if !gen(append(prefix, a), l) {
				return false
			}
		}
		return true
	}
	for l := 0; l <= maxLen; l++ {
		if !gen(nil, l) {
			return
		}
	}
	if !flush() {
		return
	}
	// (c) API sequences
	maxOps := 4
	if th {
		maxOps = 5
	}
	// plugins that couple their callbacks: OnClose joins the goroutine that is inside WriteUpdate
	for i, p := range c04JoinParams() {
		if !c.Mine(i) {
			continue
		}
		if c.Expired() {
			return
		}
		if !exploreScn(c, "C05", c04ScnFor("C05", p, 2)) {
			return
		}
	}
	// sequences of sessions in both directions: the whole matrix of first-connection scripts
	for i, p := range c01MatrixLate() {
		if !c.Mine(i) {
			continue
		}
		if c.Expired() {
			return
		}
		if !exploreScn(c, "C05", c01ScnFor("C05", p, 1)) {
			return
		}
	}
	// the peer ends the session while plugin goroutines are blocked in WriteUpdate behind a full window
	for i, ev := range c04StallEvents {
		if !c.Mine(i + 5) {
			continue
		}
		if !exploreScn(c, "C05", c04StallEventScn("C05", ev, 1)) {
			return
		}
	}
	frontier := [][]int{{}}
	k := 0
	for d := 0; d < maxOps; d++ {
		var next [][]int
		for _, f := range frontier {
			for op := range c05APIOps {
				seq := append(append([]int{}, f...), op)
				next = append(next, seq)
				k++
				if !c.Mine(k) {
					continue
				}
				if c.Expired() {
					return
				}
				if !exploreScn(c, "C05", c05APIScn(c05API{Ops: seq}, 1)) {
					return
				}
			}
		}
		frontier = next
	}
}

func init() {
	harness.Register(&harness.Check{
		Property: "C05", Level: "exploration", NeedsConc: true, QuickS: 280, ThoroughS: 1600,
		Rule:   "(a) at each of OpenSent/OpenConfirm/Established x both directions: every type octet x lengths {19,20,21,29,4096} x two fills, boundary header lengths, every marker octet corrupted, received NOTIFICATIONs (codes x subcodes x 8 data patterns), bursts (a session-ending message with 1-3 complete messages behind it in the same write), RFC 9072 shaped OPENs, every truncation of each valid message type followed by FIN, the OPEN body set G02 of C02, and all UPDATE bodies up to length 4 (5 thorough) over a 12-symbol alphabet decoded by a plugin that wires every exported typed decoder; after each input a second peer must still establish, Close and Serve must return, no corebgp goroutine may remain, nothing malformed may have been written; (b) every exported decoder on all byte strings up to length 2 (3 thorough) over all 256 values x 6 flag octets, every length 0..300 and boundary lengths to 70000 with four fills, UpdateDecoder on all 11x11 boundary pairs of its two length fields x total lengths up to 70000; (b') UpdateDecoder.Decode on the C16 body sets (all strings up to length 7 / 8 over the 12-symbol alphabet, grammar with length-field mutations, 4077-byte bodies), judged only for returning; (c) the matrix of first-connection scripts of C01 (close at accept, OPEN then close / stall, bad OPEN, handshake then stay / UPDATE+close / Cease / garbage, on the first inbound and the first outbound connection, both modes and dominances) run to the end of their reconnections, delay bound 1; plugins whose OnClose joins a goroutine that is inside WriteUpdate (all schedules within delay bound 2); all API call sequences up to length 4 (5 thorough) over {AddPeer A/B/invalid, AddPeer with boundary options (connect-retry 0, hold 0, port 65535), DeletePeer, GetPeer, ListPeers, Serve, Close, an inbound connection from the passive peer / from an unconfigured address} (repeated Serve included), each followed by a liveness probe, all schedules within delay bound 1; distinct_nontrivial counts wire cases, decoder sweep blocks and distinct API outcomes",
		Assume: []string{"virtual network (A3)", "a panic is attributed to corebgp when its frames are on the stack"},
		Run:    c05Check,
		Replay: func(c *harness.Ctx, raw json.RawMessage) {
			var r struct {
				Case     *c05Wire `json:"case"`
				Scenario string   `json:"scenario"`
				Decoder  string   `json:"decoder"`
				InputHex string   `json:"input_hex"`
			}
			if err := json.Unmarshal(raw, &r); err != nil {
				panic(err)
			}
			switch {
			case r.Case != nil:
				if rule, msg, w := c05WireRun(*r.Case, true); rule != "" {
					c.Violation(rule, "C05:wire:"+stName[r.Case.State]+":"+rule, msg, map[string]any{"case": r.Case, "log": logText(w)})
				}
			case r.Scenario != "":
				scnReplay("C05", func(name string) *Scn {
					for _, p := range c04JoinParams() {
						if p.name() == name {
							return c04ScnFor("C05", p, 2)
						}
					}
					if s := c04StallEventLookup("C05", name); s != nil {
						return s
					}
					if s := c01Lookup(name); s != nil && (strings.HasPrefix(name, "active/") || strings.HasPrefix(name, "passive/")) {
						for _, p := range c01MatrixLate() {
							if p.name() == name {
								return c01ScnFor("C05", p, 2)
							}
						}
					}
					var cs c05API
					if !strings.HasPrefix(name, "api/") || json.Unmarshal([]byte(name[4:]), &cs) != nil {
						return nil
					}
					return c05APIScn(cs, 2)
				})(c, raw)
			case r.Decoder == "UpdateDecoder" && r.InputHex != "":
				body, _ := hex.DecodeString(r.InputHex)
				if _, pan := newUpdRec().run(body, nil); pan != nil {
					c.Violation("panic", "C05:decoder:UpdateDecoder:panic", fmt.Sprintf("UpdateDecoder.Decode panicked on a %d-byte body: %v", len(body), pan),
						map[string]any{"decoder": "UpdateDecoder", "input_hex": r.InputHex})
				}
			default:
				idx := 0
				c05DecoderSweep(c, &idx)
			}
		},
	})
}
