package props

import (
	"bytes"
	"encoding/hex"
	"encoding/json"
	"errors"
	"fmt"
	"net/netip"

	"github.com/jwhited/corebgp"

	"corebgpverif/harness"
	"corebgpverif/refmodel"
)

// C19: the prefix-list decoders (plain / add-path, IPv4 through the NLRI and
// withdrawn-routes constructors, IPv6 through the DecodeMP... helpers), the
// MP_REACH_NLRI / MP_UNREACH_NLRI splitters and the IPv6 next-hop helper are
// exact. Pure API check: every generated field is handed to the exported
// corebgp function and to the reference codec of refmodel/prefix.go.

// c19Case identifies one evaluated case; it is what a replay file carries.
type c19Case struct {
	Decoder string `json:"decoder"`
	Field   string `json:"field_hex"` // prefix-list field, attribute value or next hop
	Flags   int    `json:"flags"`     // attribute flags octet (MP splitters only)
	CbErr   bool   `json:"callback_returns_error"`
}

// ---------------------------------------------------------------------------
// prefix-list decoders

// c19Got is one route as corebgp reported it.
type c19Got struct {
	hasID bool
	id    uint32
	bits  int    // netip.Prefix.Bits()
	addr  []byte // netip.Prefix.Addr().AsSlice(): 4 or 16 raw octets
}

func (g c19Got) String() string {
	if g.hasID {
		return fmt.Sprintf("id=%d %x/%d", g.id, g.addr, g.bits)
	}
	return fmt.Sprintf("%x/%d", g.addr, g.bits)
}

// c19Rec records what the user closure saw.
type c19Rec struct {
	calls int
	got   []c19Got
}

func c19Plain(ps []netip.Prefix) []c19Got {
	got := make([]c19Got, 0, len(ps))
	for _, p := range ps {
		got = append(got, c19Got{bits: p.Bits(), addr: p.Addr().AsSlice()})
	}
	return got
}

func c19AddPath(ps []corebgp.AddPathPrefix) []c19Got {
	got := make([]c19Got, 0, len(ps))
	for _, p := range ps {
		got = append(got, c19Got{hasID: true, id: p.ID, bits: p.Prefix.Bits(), addr: p.Prefix.Addr().AsSlice()})
	}
	return got
}

func c19PlainFn(r *c19Rec, ps []netip.Prefix) error {
	r.calls++
	r.got = c19Plain(ps)
	return nil
}

func c19AddPathFn(r *c19Rec, ps []corebgp.AddPathPrefix) error {
	r.calls++
	r.got = c19AddPath(ps)
	return nil
}

// c19ListDec is one exported entry point to a prefix-list decoder.
type c19ListDec struct {
	name    string
	maxBits int  // 32 or 128
	addPath bool // entries carry a path identifier
	direct  bool // returns the list itself (no user closure)
	sub     byte // subcode of the (3, sub) notification a failure must carry
	run     func(field []byte) (c19Rec, error)
}

func c19ViaFn(fn corebgp.DecodeFn[*c19Rec]) func([]byte) (c19Rec, error) {
	return func(field []byte) (c19Rec, error) {
		var r c19Rec
		err := fn(&r, field)
		return r, err
	}
}

var c19ListDecs = []*c19ListDec{
	{name: "NLRI", maxBits: 32, sub: refmodel.SubInvalidNetworkField,
		run: c19ViaFn(corebgp.NewNLRIDecodeFn(c19PlainFn))},
	{name: "withdrawn", maxBits: 32, sub: refmodel.SubUnspecific,
		run: c19ViaFn(corebgp.NewWithdrawnRoutesDecodeFn(c19PlainFn))},
	{name: "NLRI-addpath", maxBits: 32, addPath: true, sub: refmodel.SubInvalidNetworkField,
		run: c19ViaFn(corebgp.NewNLRIAddPathDecodeFn(c19AddPathFn))},
	{name: "withdrawn-addpath", maxBits: 32, addPath: true, sub: refmodel.SubUnspecific,
		run: c19ViaFn(corebgp.NewWithdrawnAddPathRoutesDecodeFn(c19AddPathFn))},
	{name: "MP-IPv6", maxBits: 128, direct: true, sub: refmodel.SubUnspecific,
		run: func(field []byte) (c19Rec, error) {
			ps, err := corebgp.DecodeMPIPv6Prefixes(field)
			return c19Rec{got: c19Plain(ps)}, err
		}},
	{name: "MP-IPv6-addpath", maxBits: 128, addPath: true, direct: true, sub: refmodel.SubUnspecific,
		run: func(field []byte) (c19Rec, error) {
			ps, err := corebgp.DecodeMPIPv6AddPathPrefixes(field)
			return c19Rec{got: c19AddPath(ps)}, err
		}},
}

// c19Walk visits every error of err's tree (pre-order, as errors.As does).
func c19Walk(err error, visit func(error)) {
	if err == nil {
		return
	}
	visit(err)
	switch x := err.(type) {
	case interface{ Unwrap() error }:
		c19Walk(x.Unwrap(), visit)
	case interface{ Unwrap() []error }:
		for _, e := range x.Unwrap() {
			c19Walk(e, visit)
		}
	}
}

// c19Notifs lists the *Notification nodes of err's tree as (code, subcode).
func c19Notifs(err error) [][2]byte {
	var out [][2]byte
	c19Walk(err, func(e error) {
		if n, ok := e.(*corebgp.Notification); ok && n != nil {
			out = append(out, [2]byte{n.Code, n.Subcode})
		}
	})
	return out
}

// c19HasFlagsErr reports whether the tree holds a treat-as-withdraw error
// whose fallback notification is (3, 4) Attribute Flags Error.
func c19HasFlagsErr(err error) bool {
	found := false
	c19Walk(err, func(e error) {
		if t, ok := e.(*corebgp.TreatAsWithdrawUpdateErr); ok && t != nil {
			if n := t.AsSessionReset(); n != nil && n.Code == refmodel.NotifUpdateMessageError && n.Subcode == refmodel.SubAttributeFlagsError {
				found = true
			}
		}
	})
	return found
}

func c19CallList(d *c19ListDec, field []byte) (rec c19Rec, err error, panicked any) {
	defer func() { panicked = recover() }()
	rec, err = d.run(field)
	return
}

// c19JudgeList runs one prefix-list decoder on field and compares it with the
// reference decoder. aspect is "" when the case is fine.
func c19JudgeList(d *c19ListDec, field []byte) (aspect, msg string, fault refmodel.PrefixFault) {
	want, fault := refmodel.DecodePrefixes(field, d.maxBits, d.addPath)
	rec, err, pv := c19CallList(d, field)
	if pv != nil {
		return "panic", fmt.Sprintf("decoder panicked on field %x: %v", field, pv), fault
	}
	if fault != refmodel.PrefixOK {
		// MUST reject, with the notification the RFCs assign, without calling the closure.
		if err == nil {
			return "accepts-" + fault.String(), fmt.Sprintf("field %x is syntactically incorrect (%v) but was decoded to %v", field, fault, rec.got), fault
		}
		if !d.direct && rec.calls != 0 {
			return "closure-on-failure", fmt.Sprintf("field %x is syntactically incorrect (%v) but the closure was invoked with %v", field, fault, rec.got), fault
		}
		var n *corebgp.Notification
		if !errors.As(err, &n) || n.Code != refmodel.NotifUpdateMessageError || n.Subcode != d.sub {
			return "wrong-notification", fmt.Sprintf("field %x (%v): want NOTIFICATION (3,%d), error tree carries %v (%v)", field, fault, d.sub, c19Notifs(err), err), fault
		}
		return "", "", fault
	}
	// MUST accept and report exactly want.
	if err != nil {
		return "rejects-valid", fmt.Sprintf("well-formed field %x (%v) rejected: %v", field, want, err), fault
	}
	if !d.direct {
		if rec.calls > 1 {
			return "closure-count", fmt.Sprintf("closure invoked %d times for field %x", rec.calls, field), fault
		}
		if rec.calls == 0 {
			if len(want) > 0 {
				return "closure-not-invoked", fmt.Sprintf("closure not invoked for well-formed field %x (%v)", field, want), fault
			}
			return "", "", fault // empty field: whether the closure runs is not judged
		}
	}
	if len(rec.got) != len(want) {
		return "count", fmt.Sprintf("field %x encodes %d routes %v, decoder reported %d: %v", field, len(want), want, len(rec.got), rec.got), fault
	}
	for i, w := range want {
		g := rec.got[i]
		switch {
		case len(g.addr) != d.maxBits/8:
			return "family", fmt.Sprintf("field %x route %d: address %x is not a %d-bit address", field, i, g.addr, d.maxBits), fault
		case g.bits != w.Bits:
			return "length", fmt.Sprintf("field %x route %d: encoded %v, decoder reported %v", field, i, w, g), fault
		case d.addPath && g.id != w.ID:
			return "path-id", fmt.Sprintf("field %x route %d: encoded %v, decoder reported %v", field, i, w, g), fault
		case !refmodel.SameLeadingBits(g.addr, w.Addr, w.Bits):
			return "address-bits", fmt.Sprintf("field %x route %d: encoded %v, decoder reported %v", field, i, w, g), fault
		}
	}
	return "", "", fault
}

// ---------------------------------------------------------------------------
// MP_REACH_NLRI / MP_UNREACH_NLRI splitters

var c19CbErr = errors.New("c19: error returned by the user callback")

// c19MPRec records what the MP callback saw and what it shall return.
type c19MPRec struct {
	calls int
	afi   uint16
	safi  uint8
	nh    []byte
	rest  []byte // NLRI (reach) or withdrawn routes (unreach)
	ret   error
}

var c19Reach = corebgp.NewMPReachNLRIDecodeFn(func(r *c19MPRec, afi uint16, safi uint8, nh, nlri []byte) error {
	r.calls++
	r.afi, r.safi = afi, safi
	r.nh = append([]byte{}, nh...)
	r.rest = append([]byte{}, nlri...)
	return r.ret
})

var c19Unreach = corebgp.NewMPUnreachNLRIDecodeFn(func(r *c19MPRec, afi uint16, safi uint8, withdrawn []byte) error {
	r.calls++
	r.afi, r.safi = afi, safi
	r.rest = append([]byte{}, withdrawn...)
	return r.ret
})

func c19CallMP(fn corebgp.MPPathAttrDecodeFn[*c19MPRec], rec *c19MPRec, flags byte, body []byte) (err error, panicked any) {
	defer func() { panicked = recover() }()
	err = fn(rec, corebgp.PathAttrFlags(flags), body)
	return
}

// c19JudgeMP runs a splitter (reach = MP_REACH_NLRI, else MP_UNREACH_NLRI) on
// an attribute value. class is the reference class of the case.
func c19JudgeMP(reach bool, flags byte, body []byte, cbErr bool) (aspect, msg, class string) {
	var (
		ok       bool
		wantAFI  uint16
		wantSAFI byte
		wantNH   []byte
		wantRest []byte
		fn       = c19Unreach
		restName = "withdrawn-bytes"
	)
	if reach {
		var m refmodel.MPReach
		m, ok = refmodel.SplitMPReach(body)
		wantAFI, wantSAFI, wantNH, wantRest = m.AFI, m.SAFI, m.NextHop, m.NLRI
		fn, restName = c19Reach, "nlri-bytes"
	} else {
		var m refmodel.MPUnreach
		m, ok = refmodel.SplitMPUnreach(body)
		wantAFI, wantSAFI, wantRest = m.AFI, m.SAFI, m.Withdrawn
	}
	legal := refmodel.MPFlagsLegal(flags)
	switch {
	case !ok:
		class = "too-short"
	case legal:
		class = "must-invoke"
	default:
		class = "flags-conflict"
	}
	rec := &c19MPRec{}
	if cbErr {
		rec.ret = c19CbErr
	}
	err, pv := c19CallMP(fn, rec, flags, body)
	where := func() string { return fmt.Sprintf("flags %#02x value %x", flags, body) }
	if pv != nil {
		return "panic", fmt.Sprintf("splitter panicked on %s: %v", where(), pv), class
	}
	if rec.calls > 1 {
		return "callback-count", fmt.Sprintf("callback invoked %d times on %s", rec.calls, where()), class
	}
	if !legal && !c19HasFlagsErr(err) {
		return "flags-error-missing", fmt.Sprintf("%s: Optional/Transitive bits conflict but the error tree holds no treat-as-withdraw error with fallback (3,4): %v", where(), err), class
	}
	if !ok {
		// too short: session-reset class error (3,5), callback not invoked
		if rec.calls != 0 {
			return "callback-on-short", fmt.Sprintf("%s is too short for its own fields but the callback was invoked (afi=%d safi=%d nh=%x rest=%x)", where(), rec.afi, rec.safi, rec.nh, rec.rest), class
		}
		for _, n := range c19Notifs(err) {
			if n == [2]byte{refmodel.NotifUpdateMessageError, refmodel.SubAttributeLengthError} {
				return "", "", class
			}
		}
		return "short-notification", fmt.Sprintf("%s is too short: want a NOTIFICATION (3,5) in the error tree, got %v (%v)", where(), c19Notifs(err), err), class
	}
	if rec.calls == 0 {
		if legal {
			return "callback-not-invoked", fmt.Sprintf("%s is long enough and its flags are legal but the callback was not invoked (error %v)", where(), err), class
		}
		return "", "", class // under a flags conflict the callback is not owed
	}
	// whenever invoked the callback gets exactly the delimited fields
	switch {
	case rec.afi != wantAFI:
		return "afi", fmt.Sprintf("%s: callback got AFI %d, attribute carries %d", where(), rec.afi, wantAFI), class
	case rec.safi != wantSAFI:
		return "safi", fmt.Sprintf("%s: callback got SAFI %d, attribute carries %d", where(), rec.safi, wantSAFI), class
	case reach && !bytes.Equal(rec.nh, wantNH):
		return "nexthop-bytes", fmt.Sprintf("%s: callback got next hop %x, attribute delimits %x", where(), rec.nh, wantNH), class
	case reach && !bytes.Equal(rec.rest, wantRest) && bytes.Equal(rec.rest, body[len(body)-len(wantRest)-1:]):
		// the property names this clause on its own: "skipping the reserved octet"
		return "reserved-octet-not-skipped", fmt.Sprintf("%s: callback got NLRI %x, which starts at the reserved octet; attribute delimits %x", where(), rec.rest, wantRest), class
	case !bytes.Equal(rec.rest, wantRest):
		return restName, fmt.Sprintf("%s: callback got %x after the header, attribute delimits %x", where(), rec.rest, wantRest), class
	}
	if cbErr && !errors.Is(err, c19CbErr) {
		return "callback-error-lost", fmt.Sprintf("%s: the callback's error is not in the returned tree (%v)", where(), err), class
	}
	if !cbErr && err != nil && refmodel.MPFlagsClean(flags) {
		return "rejects-valid", fmt.Sprintf("%s is well-formed and the callback returned nil, yet the splitter returned %v", where(), err), class
	}
	return "", "", class
}

// ---------------------------------------------------------------------------
// IPv6 next hops

func c19JudgeNextHops(nh []byte) (aspect, msg string, ok bool) {
	want, ok := refmodel.IPv6NextHops(nh)
	var (
		got []netip.Addr
		err error
		pv  any
	)
	func() {
		defer func() { pv = recover() }()
		got, err = corebgp.DecodeMPReachIPv6NextHops(nh)
	}()
	if pv != nil {
		return "panic", fmt.Sprintf("panicked on next hop %x: %v", nh, pv), ok
	}
	if !ok {
		if err == nil {
			return "accepts-bad-length", fmt.Sprintf("next hop of %d octets accepted as %v", len(nh), got), ok
		}
		var n *corebgp.Notification
		if !errors.As(err, &n) || n.Code != refmodel.NotifUpdateMessageError {
			return "wrong-notification", fmt.Sprintf("next hop of %d octets: want a NOTIFICATION with code 3, got %v (%v)", len(nh), c19Notifs(err), err), ok
		}
		return "", "", ok
	}
	if err != nil {
		return "rejects-valid", fmt.Sprintf("next hop of %d octets rejected: %v", len(nh), err), ok
	}
	if len(got) != len(want) {
		return "count", fmt.Sprintf("next hop %x holds %d addresses, decoder reported %v", nh, len(want), got), ok
	}
	for i, w := range want {
		a := got[i].As16()
		if !got[i].IsValid() || !bytes.Equal(a[:], w) {
			return "address-bytes", fmt.Sprintf("next hop %x address %d: want %x, decoder reported %v", nh, i, w, got[i]), ok
		}
	}
	return "", "", ok
}

// ---------------------------------------------------------------------------
// replayable dispatch

func c19ListDecByName(name string) *c19ListDec {
	for _, d := range c19ListDecs {
		if d.name == name {
			return d
		}
	}
	return nil
}

// c19Judge evaluates one case; it returns the violated aspect ("" = held), a
// message and the reference class of the case in words.
func c19Judge(decoder string, flags byte, cbErr bool, field []byte) (aspect, msg, class string) {
	switch decoder {
	case "MP_REACH", "MP_UNREACH":
		return c19JudgeMP(decoder == "MP_REACH", flags, field, cbErr)
	case "IPv6-nexthops":
		a, m, ok := c19JudgeNextHops(field)
		if ok {
			return a, m, "must-accept"
		}
		return a, m, "must-reject"
	}
	d := c19ListDecByName(decoder)
	if d == nil {
		panic("C19: unknown decoder " + decoder)
	}
	a, m, fault := c19JudgeList(d, field)
	return a, m, fault.String()
}

// ---------------------------------------------------------------------------
// enumeration

type c19Run struct {
	c       *harness.Ctx
	th      bool
	n       int // cases generated (all shards generate the same sequence)
	mined   int
	stopped bool
	evals   map[string]float64 // evaluations per decoder
	classes map[string]float64 // evaluations per reference class
	key     []byte
}

// mine decides whether a generated case belongs to this shard. The shard is
// chosen by a hash of the case, so equal cases produced by different
// generators meet in one shard and distinct_nontrivial counts them once.
func (r *c19Run) mine(tag string, flags byte, cbErr bool, field []byte) bool {
	if r.stopped {
		return false
	}
	r.n++
	h := uint32(2166136261) // FNV-1a
	for i := 0; i < len(tag); i++ {
		h = (h ^ uint32(tag[i])) * 16777619
	}
	h = (h ^ uint32(flags)) * 16777619
	if cbErr {
		h = (h ^ 1) * 16777619
	}
	for _, b := range field {
		h = (h ^ uint32(b)) * 16777619
	}
	if !r.c.Mine(int(h >> 8)) {
		return false
	}
	r.mined++
	if r.mined%4096 == 0 && r.c.Expired() {
		r.stopped = true
		return false
	}
	return true
}

// eval runs one case of this shard, counts it and reports a violation.
func (r *c19Run) eval(decoder string, flags byte, cbErr bool, field []byte) {
	aspect, msg, class := c19Judge(decoder, flags, cbErr, field)
	r.key = append(r.key[:0], decoder...)
	r.key = append(r.key, 0, flags, 0)
	if cbErr {
		r.key[len(r.key)-1] = 1
	}
	r.key = append(r.key, field...)
	r.c.Eval(r.key, len(field) > 0)
	r.evals[decoder]++
	r.classes[class]++
	if aspect == "" && r.n%100003 != 0 {
		return
	}
	cs := c19Case{Decoder: decoder, Field: hex.EncodeToString(field), Flags: int(flags), CbErr: cbErr}
	rep := map[string]any{"case": cs, "reference": class}
	if aspect == "" {
		r.c.Sample(rep)
		return
	}
	r.c.Violation(aspect, "C19:"+decoder+":"+aspect, msg, rep)
}

// list feeds a prefix-list field to every decoder of its family and framing.
// The shard depends on the field only, so a field reached by several
// generators is counted once per decoder.
func (r *c19Run) list(maxBits int, addPath bool, field []byte) {
	if !r.mine("list", 0, false, field) {
		return
	}
	for _, d := range c19ListDecs {
		if d.maxBits == maxBits && d.addPath == addPath {
			r.eval(d.name, 0, false, field)
		}
	}
}

// c19Entry is one element of the prefix alphabet.
type c19Entry struct {
	bits  int
	addr  []byte
	first bool // first address pattern of this length
}

// c19Entries: every length of lengths with each address pattern (all zero,
// all one, a5 b8 cb de ... with every octet different from its neighbours).
// Trailing bits after the prefix length are deliberately left set.
func c19Entries(lengths []int) []c19Entry {
	var out []c19Entry
	for _, l := range lengths {
		n := refmodel.PrefixOctets(l)
		for p := 0; p < 3; p++ {
			a := make([]byte, n)
			for i := range a {
				a[i] = [...]byte{0x00, 0xff, byte(0xa5 + 0x13*i)}[p]
			}
			out = append(out, c19Entry{l, a, p == 0})
			if n == 0 {
				break // no address octets: the pattern is moot
			}
		}
	}
	return out
}

func c19Range(lo, hi int) []int {
	var out []int
	for i := lo; i <= hi; i++ {
		out = append(out, i)
	}
	return out
}

var c19IDs = []uint32{0, 1, 0xffffffff}

// c19IDSeqs returns the path-identifier assignments for lists of n entries:
// the distinct n-prefixes of nine triples covering every pair of identifiers
// in the first two positions, so the assignments of shorter lists are exactly
// the truncations of those of longer lists.
func c19IDSeqs(n int) [][]uint32 {
	var out [][]uint32
	seen := map[string]bool{}
	for i, a := range c19IDs {
		for j, b := range c19IDs {
			s := []uint32{a, b, c19IDs[(i+j+1)%3]}[:n]
			if k := fmt.Sprint(s); !seen[k] {
				seen[k] = true
				out = append(out, s)
			}
		}
	}
	return out
}

// prefixLists enumerates every list of exactly n entries over alpha, and for
// each list: its encoding, every proper prefix of the encoding that cuts the
// last entry (cuts at or before the start of the last entry are encodings or
// cuts of a shorter list, which is enumerated on its own), and every
// length-octet corruption.
func (r *c19Run) prefixLists(maxBits int, addPath bool, alpha []c19Entry, n int, corrupt []int) {
	idSeqs := [][]uint32{nil}
	if addPath {
		idSeqs = c19IDSeqs(n)
	}
	idx := make([]int, n)
	routes := make([]refmodel.Route, n)
	starts := make([]int, n+1)
	var enc, scratch []byte
	for {
		if r.stopped {
			return
		}
		for _, ids := range idSeqs {
			enc = enc[:0]
			for i, k := range idx {
				e := alpha[k]
				routes[i] = refmodel.Route{Bits: e.bits, Addr: e.addr}
				if addPath {
					routes[i].HasID, routes[i].ID = true, ids[i]
				}
				starts[i] = len(enc)
				enc = append(enc, refmodel.EncodePrefixes(routes[i:i+1])...)
			}
			starts[n] = len(enc)
			c19SelfCheck(enc, maxBits, addPath, routes)
			r.list(maxBits, addPath, enc)
			if n == 0 {
				continue
			}
			last := alpha[idx[n-1]]
			for cut := starts[n-1] + 1; cut < len(enc); cut++ {
				// a cut inside the path identifier does not depend on the
				// entry; emit it for the first entry of the alphabet only
				if addPath && cut-starts[n-1] <= 4 && idx[n-1] != 0 {
					continue
				}
				// a cut right after the length octet does not depend on the
				// address pattern
				if cut == starts[n]-len(last.addr) && !last.first {
					continue
				}
				r.list(maxBits, addPath, enc[:cut])
			}
			for i, k := range idx {
				// entries with the same number of address octets yield the
				// same corrupted field: corrupt one representative length
				// per octet count (the multiples of 8)
				if alpha[k].bits%8 != 0 {
					continue
				}
				pos := starts[i]
				if addPath {
					pos += 4
				}
				for _, v := range corrupt {
					if v == alpha[k].bits {
						continue
					}
					scratch = append(scratch[:0], enc...)
					scratch[pos] = byte(v)
					r.list(maxBits, addPath, scratch)
				}
			}
		}
		// next list (odometer)
		i := n - 1
		for i >= 0 {
			idx[i]++
			if idx[i] < len(alpha) {
				break
			}
			idx[i] = 0
			i--
		}
		if i < 0 {
			return
		}
	}
}

// c19SelfCheck guards the reference codec: decoding an encoding gives the
// list back. A failure is an engine error, not a finding.
func c19SelfCheck(enc []byte, maxBits int, addPath bool, routes []refmodel.Route) {
	back, fault := refmodel.DecodePrefixes(enc, maxBits, addPath)
	ok := fault == refmodel.PrefixOK && len(back) == len(routes)
	for i := 0; ok && i < len(routes); i++ {
		ok = back[i].Bits == routes[i].Bits && back[i].ID == routes[i].ID && bytes.Equal(back[i].Addr, routes[i].Addr)
	}
	if !ok {
		panic(fmt.Sprintf("C19 engine: reference codec does not round-trip %v -> %x -> %v (%v)", routes, enc, back, fault))
	}
}

// shortFields: every byte string of up to two octets (thorough: also three
// octets with an arbitrary first octet and the others over a boundary
// alphabet) through all six list decoders, whatever the framing.
func (r *c19Run) shortFields() {
	feed := func(field []byte) {
		if !r.mine("list", 0, false, field) {
			return
		}
		for _, d := range c19ListDecs {
			r.eval(d.name, 0, false, field)
		}
	}
	feed(nil)
	for a := 0; a < 256; a++ {
		feed([]byte{byte(a)})
		for b := 0; b < 256; b++ {
			feed([]byte{byte(a), byte(b)})
		}
	}
	if !r.th {
		return
	}
	alpha := []byte{0, 1, 7, 8, 9, 16, 24, 31, 32, 33, 127, 128, 129, 0xa5, 254, 255}
	for a := 0; a < 256; a++ {
		for _, b := range alpha {
			for _, c := range alpha {
				feed([]byte{byte(a), b, c})
			}
		}
	}
}

var (
	c19AFIs  = []uint16{0, 1, 2, 255, 256, 65535}
	c19SAFIs = []byte{1, 128}
	// flag octets crossed with everything: legal (optional, non-transitive)
	// with and without extended length / partial / unused bits, and the three
	// Optional/Transitive conflicts
	c19FlagReps = []byte{0x80, 0x90, 0xa0, 0x8f, 0xc0, 0x40, 0x00}
)

func c19AllFlags() []byte {
	out := make([]byte, 256)
	for i := range out {
		out[i] = byte(i)
	}
	return out
}

// c19ReachTemplate is a maximal MP_REACH_NLRI value for a next-hop length
// octet: header, next hop 01 02 03 ..., reserved octet, three NLRI octets.
// Every shorter value of the enumeration is a prefix of it.
func c19ReachTemplate(afi uint16, safi byte, nhLen int, reserved byte) []byte {
	b := []byte{byte(afi >> 8), byte(afi), safi, byte(nhLen)}
	for i := 0; i < nhLen; i++ {
		b = append(b, byte(i+1))
	}
	return append(b, reserved, 0xc1, 0xc2, 0xc3)
}

// c19ReachLens: the value lengths tried for a next-hop length octet. all =
// every length up to the template; otherwise the header truncations 0..5 and
// the lengths around the two boundaries (next hop complete / reserved octet
// present), up to three NLRI octets.
func c19ReachLens(nhLen int, all bool) []int {
	max := 4 + nhLen + 1 + 3
	if all {
		return c19Range(0, max)
	}
	seen := map[int]bool{}
	var out []int
	for _, l := range append(c19Range(0, 5), c19Range(4+nhLen-1, max)...) {
		if l >= 0 && !seen[l] {
			seen[l] = true
			out = append(out, l)
		}
	}
	return out
}

func (r *c19Run) mp(decoder string, flags []byte, body []byte) {
	for _, f := range flags {
		for _, cbErr := range []bool{false, true} {
			if r.mine(decoder, f, cbErr, body) {
				r.eval(decoder, f, cbErr, body)
			}
		}
	}
}

func (r *c19Run) mpReach() {
	all := c19AllFlags()
	// full grid x representative flags
	for _, afi := range c19AFIs {
		for _, safi := range c19SAFIs {
			for nhLen := 0; nhLen <= 255; nhLen++ {
				for _, reserved := range []byte{0x00, 0xff} {
					t := c19ReachTemplate(afi, safi, nhLen, reserved)
					for _, l := range c19ReachLens(nhLen, r.th) {
						r.mp("MP_REACH", c19FlagReps, t[:l])
					}
				}
			}
		}
	}
	// all 256 flag octets x reduced grid (thorough: every next-hop length)
	nhLens := []int{0, 1, 4, 15, 16, 17, 32, 127, 128, 254, 255}
	if r.th {
		nhLens = c19Range(0, 255)
	}
	for _, afi := range []uint16{1, 2} {
		for _, nhLen := range nhLens {
			t := c19ReachTemplate(afi, 1, nhLen, 0)
			for _, l := range c19ReachLens(nhLen, false) {
				r.mp("MP_REACH", all, t[:l])
			}
		}
	}
}

func (r *c19Run) mpUnreach() {
	all := c19AllFlags()
	for _, afi := range c19AFIs {
		for _, safi := range c19SAFIs {
			t := []byte{byte(afi >> 8), byte(afi), safi, 0xd1, 0xd2, 0xd3}
			for l := 0; l <= len(t); l++ {
				r.mp("MP_UNREACH", all, t[:l])
			}
		}
	}
}

func (r *c19Run) nextHops() {
	max := 64
	if r.th {
		max = 255
	}
	for l := 0; l <= max; l++ {
		for p := 0; p < 4; p++ {
			nh := make([]byte, l)
			for i := range nh {
				nh[i] = [...]byte{0x00, 0xff, byte(i + 1), 0}[p]
			}
			if p == 3 { // IPv4-mapped addresses ::ffff:a.b.c.d in every 16-octet slot
				for i := range nh {
					if i%16 == 10 || i%16 == 11 {
						nh[i] = 0xff
					} else if i%16 > 11 {
						nh[i] = byte(i)
					}
				}
			}
			if r.mine("IPv6-nexthops", 0, false, nh) {
				r.eval("IPv6-nexthops", 0, false, nh)
			}
		}
	}
}

// c19Retention: a list handed to the user closure must stay what was decoded when
// further fields are decoded through the same DecodeFn (an application keeps the slice,
// as the package's own example does): several different fields are decoded in a row,
// the closures keep the very slices they were given, and all are compared afterwards.
func c19Retention(c *harness.Ctx) {
	if c.Shard != 0 {
		return
	}
	type kept struct {
		plain []netip.Prefix
		ap    []corebgp.AddPathPrefix
	}
	mk := func(i int, addPath bool, v6 bool) []refmodel.Route {
		var rs []refmodel.Route
		n := 1 + i%3
		for j := 0; j < n; j++ {
			bits := (i*7 + j*5) % 33
			if v6 {
				bits = (i*13 + j*11) % 129
			}
			addr := make([]byte, refmodel.PrefixOctets(bits))
			for k := range addr {
				addr[k] = byte(0x10*i + j + k + 1)
			}
			if bits%8 != 0 && len(addr) > 0 {
				addr[len(addr)-1] &= 0xff << (8 - bits%8)
			}
			rs = append(rs, refmodel.Route{HasID: addPath, ID: uint32(1000*i + j), Bits: bits, Addr: addr})
		}
		return rs
	}
	same := func(got []c19Got, want []refmodel.Route) bool {
		if len(got) != len(want) {
			return false
		}
		for i := range got {
			if got[i].bits != want[i].Bits || got[i].hasID != want[i].HasID || (want[i].HasID && got[i].id != want[i].ID) || !refmodel.SameLeadingBits(got[i].addr, want[i].Addr, want[i].Bits) {
				return false
			}
		}
		return true
	}
	type dec struct {
		name    string
		addPath bool
		v6      bool
		run     func(field []byte, k *kept) error
	}
	plainFn := func(k *kept, ps []netip.Prefix) error { k.plain = ps; return nil }
	apFn := func(k *kept, ps []corebgp.AddPathPrefix) error { k.ap = ps; return nil }
	nl := corebgp.NewNLRIDecodeFn[*kept](plainFn)
	wd := corebgp.NewWithdrawnRoutesDecodeFn[*kept](plainFn)
	nlAP := corebgp.NewNLRIAddPathDecodeFn[*kept](apFn)
	wdAP := corebgp.NewWithdrawnAddPathRoutesDecodeFn[*kept](apFn)
	decs := []dec{
		{"NLRI", false, false, func(f []byte, k *kept) error { return nl(k, f) }},
		{"withdrawn", false, false, func(f []byte, k *kept) error { return wd(k, f) }},
		{"NLRI-addpath", true, false, func(f []byte, k *kept) error { return nlAP(k, f) }},
		{"withdrawn-addpath", true, false, func(f []byte, k *kept) error { return wdAP(k, f) }},
		{"MP-IPv6", false, true, func(f []byte, k *kept) error { p, err := corebgp.DecodeMPIPv6Prefixes(f); k.plain = p; return err }},
		{"MP-IPv6-addpath", true, true, func(f []byte, k *kept) error { p, err := corebgp.DecodeMPIPv6AddPathPrefixes(f); k.ap = p; return err }},
	}
	for _, d := range decs {
		for win := 2; win <= 5; win++ {
			for start := 0; start < 12; start++ {
				var ks []*kept
				var wants [][]refmodel.Route
				for i := start; i < start+win; i++ {
					want := mk(i, d.addPath, d.v6)
					k := &kept{}
					if err := d.run(refmodel.EncodePrefixes(want), k); err != nil {
						break
					}
					ks, wants = append(ks, k), append(wants, want)
				}
				c.Eval([]byte(fmt.Sprintf("retention/%s/%d/%d", d.name, win, start)), true)
				for i, k := range ks {
					var got []c19Got
					if d.addPath {
						got = c19AddPath(k.ap)
					} else {
						got = c19Plain(k.plain)
					}
					if !same(got, wants[i]) {
						c.Violation("decoded-list-changed", "C19:"+d.name+":decoded-list-not-stable", fmt.Sprintf("%s: the list decoded from field #%d of %d consecutive fields changed after later decodes (now %v, encoded %v): routes are invented/dropped from the application's point of view", d.name, i+1, win, got, wants[i]),
							map[string]any{"retention_decoder": d.name, "window": win, "start": start})
						return
					}
				}
			}
		}
	}
}

func c19Check(c *harness.Ctx) {
	c19Retention(c)
	r := &c19Run{c: c, th: c.Thorough(), evals: map[string]float64{}, classes: map[string]float64{}}
	// cheap families first
	r.nextHops()
	r.mpUnreach()
	r.mpReach()
	r.shortFields()

	corrupt4 := []int{0, 9, 32, 33, 34, 35, 36, 37, 38, 39, 40, 128, 129, 255}
	corrupt6 := []int{0, 9, 128, 129, 130, 255}
	full4 := c19Entries(c19Range(0, 32))
	full6 := c19Entries(c19Range(0, 128))
	red4 := c19Entries([]int{0, 1, 7, 8, 9, 15, 16, 17, 23, 24, 25, 31, 32})
	// the boundary sets hold, for every octet count that occurs, the multiple
	// of 8 with that count (the length whose entries get corrupted)
	red6 := c19Entries([]int{0, 1, 7, 8, 9, 16, 63, 64, 65, 72, 120, 121, 127, 128})
	for _, addPath := range []bool{false, true} {
		for n := 0; n <= 2; n++ {
			r.prefixLists(32, addPath, full4, n, corrupt4)
			r.prefixLists(128, addPath, full6, n, corrupt6)
		}
		r.prefixLists(128, addPath, red6, 3, corrupt6)
		if r.th {
			r.prefixLists(32, addPath, full4, 3, corrupt4)
		} else {
			r.prefixLists(32, addPath, red4, 3, corrupt4)
		}
	}
	for k, v := range r.evals {
		c.Res.Extra["evals_"+k] = v
	}
	for k, v := range r.classes {
		c.Res.Extra["class_"+k] = v
	}
	c.Res.Extra["cases_mined"] = float64(r.mined)
}

func init() {
	harness.Register(&harness.Check{
		Property:  "C19",
		Level:     "exploration",
		NeedsConc: false,
		QuickS:    60, ThoroughS: 600,
		Rule: "bounded-exhaustive differential test of the exported decoders against the reference codec refmodel/prefix.go. " +
			"Prefix lists: every list of <=2 entries over every length 0..32 (IPv4, through the four NLRI/withdrawn constructors) and 0..128 (IPv6, through DecodeMPIPv6Prefixes / DecodeMPIPv6AddPathPrefixes) x address patterns {00.., ff.., a5 b8 cb ..} with the trailing bits left set, " +
			"lists of 3 over a boundary length set (thorough: IPv4 lists of 3 over every length), add-path identifiers {0,1,2^32-1} (all pairs, nine triples); for each list its encoding, every proper prefix of the encoding, and each length octet replaced by {0,9,32,33..40,128,129,255} / {0,9,128,129,130,255}; " +
			"plus every byte string of <=2 octets (thorough: 3 octets over a boundary alphabet) through all six list decoders. " +
			"MP_REACH_NLRI: AFI {0,1,2,255,256,65535} x SAFI {1,128} x every next-hop length octet 0..255 x reserved octet {00,ff} x value lengths (header truncations, one short, exact, 1..3 NLRI octets; thorough: every length) x 7 representative flag octets, and all 256 flag octets x a reduced grid (thorough: every next-hop length), each with a callback returning nil and returning an error; " +
			"MP_UNREACH_NLRI: AFI x SAFI x value lengths 0..6 x all 256 flag octets; DecodeMPReachIPv6NextHops: every length 0..64 (thorough 0..255) x 4 byte patterns. " +
			"Cases are sharded by a hash of (decoder, flags, field) so distinct = distinct (decoder, flags, callback result, field) exactly; non-trivial = non-empty field",
		Assume: []string{
			"the unexported decoders are reached only through the exported API; the UpdateDecoder framing around them is C17/C18's subject",
			"three-valued oracle: not judged are (a) the bits after the prefix length in the last octet and the rest of the returned address, (b) nil versus empty list, (c) whether the user closure runs for an empty field, (d) whether the MP callback runs under an Optional/Transitive conflict, (e) an error returned for legal flags with the Partial bit set, (f) NOTIFICATION data, (g) propagation of a closure error by the prefix-list constructors",
		},
		Run: c19Check,
		Replay: func(c *harness.Ctx, raw json.RawMessage) {
			var r struct {
				Case c19Case `json:"case"`
			}
			if err := json.Unmarshal(raw, &r); err != nil {
				panic(err)
			}
			field, err := hex.DecodeString(r.Case.Field)
			if err != nil {
				panic(err)
			}
			aspect, msg, ref := c19Judge(r.Case.Decoder, byte(r.Case.Flags), r.Case.CbErr, field)
			if aspect != "" {
				c.Violation(aspect, "C19:"+r.Case.Decoder+":"+aspect, msg, map[string]any{"case": r.Case, "reference": ref})
			}
		},
	})
}
