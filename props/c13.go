package props

import (
	"encoding/json"
	"fmt"
	"net"
	"net/netip"
	"strings"
	"time"

	"github.com/jwhited/corebgp"

	"corebgpverif/harness"
	"corebgpverif/vnet"
	"corebgpverif/vrt"
	"corebgpverif/wire"
	"corebgpverif/world"
)

// C13: only connections from configured peers to the configured address are
// served; refused connections see EOF and not a single byte.

type c13Case struct {
	Peers string `json:"peers"` // P1 | P1-local | P1-passive | P1-passive-local | P1+P2
	State string `json:"state"` // state of P1 when the test connection arrives
	From  string `json:"from"`  // A (P1) | B (P2) | C (unconfigured) | V6
	To    string `json:"to"`    // X (10.0.0.1, P1's local address) | Y (10.0.0.5) | W (wildcard listener, 10.0.0.7)
	// WildOnly: the server has a single wildcard listener (every destination arrives through it).
	WildOnly bool `json:"wildcard_listener_only,omitempty"`
	// Before: a connection made (and finished) before the test connection, "<from>><to>", from an unconfigured source.
	Before string `json:"connection_before,omitempty"`
	// Burst > 1: that many connections from the same source are opened at the same instant (state must be fresh/idle-wait).
	Burst int `json:"simultaneous_connections,omitempty"`
	// RemoteCaps: capabilities in the OPEN with which the peer built the connection that exists when the test
	// connection arrives ("" none beyond 4-octet AS | "gr" graceful restart with the restart bit | "misc" route
	// refresh, enhanced route refresh, extended message, long-lived GR, role): admission does not depend on them.
	RemoteCaps string `json:"remote_capabilities,omitempty"`
}

func c13ExtraCaps(cs c13Case) []wire.Cap {
	switch cs.RemoteCaps {
	case "gr":
		return []wire.Cap{{Code: 64, Value: []byte{0x80, 0x78, 0, 1, 1, 0x80}}}
	case "misc":
		return []wire.Cap{{Code: 2}, {Code: 70}, {Code: 6}, {Code: 71, Value: []byte{0, 1, 1, 0x80, 0, 0, 60}}, {Code: 9, Value: []byte{0}}}
	}
	return nil
}

var c13States = []string{"fresh", "idle-wait", "connect-stalled", "in-opensent", "in-openconfirm", "est-in", "est-out", "out-opensent", "out-openconfirm", "held-down", "held-down-nowrite"}

type c13Obs struct {
	testConn                      *vnet.Conn
	gotOpen                       bool
	eof                           bool
	bytes                         int
	probeOK                       bool
	probeDone                     bool
	stateReady                    bool
	connErr                       error
	burst, burstOpen, burstClosed int
}

func c13Addr(from, to string) (string, string) {
	f := map[string]string{"A": "10.0.0.2:45000", "B": "10.0.0.3:45000", "C": "10.0.0.9:45000", "V6": "[fd00::2]:45000"}[from]
	t := map[string]string{"X": "10.0.0.1:179", "Y": "10.0.0.5:179", "W": "10.0.0.7:179"}[to]
	if from == "V6" {
		t = map[string]string{"X": "[fd00::1]:179", "Y": "[fd00::5]:179", "W": "[fd00::7]:179"}[to]
	}
	return f, t
}

// c13Expect is the admission predicate of the property.
func c13Expect(cs c13Case) (admitted bool, why string) {
	switch cs.From {
	case "C", "V6":
		return false, "source is not a configured peer"
	case "B":
		if cs.Peers != "P1+P2" {
			return false, "source is not a configured peer"
		}
		return true, "P2 is configured, has no local address and no connection yet"
	}
	if strings.Contains(cs.Peers, "local0") {
		return false, "the peer's configured local address is the unspecified address, which is no connection's destination"
	}
	if c13Local(cs.Peers) && cs.To != "X" {
		return false, "destination differs from the peer's configured local address"
	}
	switch cs.State {
	case "in-opensent", "in-openconfirm":
		return false, "the peer already has an inbound connection in progress"
	case "est-in", "est-out":
		return false, "the peer has an Established session"
	case "held-down", "held-down-nowrite":
		return false, "the peer is held down"
	}
	return true, "configured peer, acceptable destination, no inbound connection / Established session / hold-down"
}

func c13Passive(peers string) bool { return strings.Contains(peers, "passive") }
func c13Local(peers string) bool   { return strings.Contains(peers, "local") }

func c13Applicable(cs c13Case) bool {
	if strings.Contains(cs.Peers, "local0") {
		return cs.State == "fresh" // nothing is ever admitted, so there is no other state to bring the peer into
	}
	if c13Passive(cs.Peers) {
		switch cs.State {
		case "idle-wait", "connect-stalled", "est-out", "out-opensent", "out-openconfirm":
			return false
		}
	} else if cs.State == "fresh" {
		return false // an active peer dials at once; "fresh" is the passive peer's idle state
	}
	return true
}

func c13Run(cs c13Case, ch vrt.Chooser, trace bool) (*world.World, *vrt.Exec, *c13Obs) {
	var w *world.World
	o := &c13Obs{}
	e := vrt.Run(vrt.Config{Horizon: int64(50 * time.Second), Trace: trace, Chooser: ch}, func() {
		w = world.New(libIP)
		w.NewServer(libIP)
		pl := &world.Plugin{W: w, Peer: "P1", Marker: true, NoYield: ch == nil}
		var rstTarget *world.Remote
		pl.OpenNotif = func(netip.Addr, []corebgp.Capability) *corebgp.Notification {
			if rstTarget != nil {
				rstTarget.C.Reset()
				rstTarget = nil
				return &corebgp.Notification{Code: 2, Subcode: 7}
			}
			return nil
		}
		opts := []corebgp.PeerOption{corebgp.WithDialerControl(w.DialControl("P1"))}
		if strings.Contains(cs.Peers, "local0") {
			opts = append(opts, corebgp.WithLocalAddress(netip.MustParseAddr("0.0.0.0")))
		} else if c13Local(cs.Peers) {
			opts = append(opts, corebgp.WithLocalAddress(netip.MustParseAddr("10.0.0.1")))
		}
		if c13Passive(cs.Peers) {
			opts = append(opts, corebgp.WithPassive())
		}
		w.NW.OnDial(remAddr, func(att int, from *net.TCPAddr) vnet.DialOutcome {
			accept := func(f func(r *world.Remote)) vnet.DialOutcome {
				if att > 0 {
					return vnet.DialOutcome{Kind: vnet.DialRefuse}
				}
				return vnet.DialOutcome{Kind: vnet.DialAccept, Serve: func(c *vnet.Conn) {
					r := w.NewRemote(c, "P1")
					f(r)
					r.Finish()
				}}
			}
			stay := func(r *world.Remote) {
				w.SetFlag("state-ready")
				w.WaitFlag("test-done")
			}
			switch cs.State {
			case "connect-stalled":
				return vnet.DialOutcome{Kind: vnet.DialStall}
			case "est-out":
				return accept(func(r *world.Remote) {
					if reach(r, stEstablished, 65002, 90, c13ExtraCaps(cs)...) {
						stay(r)
						r.Send(wire.Update([]byte("PROBE")))
						vrtWaitDelivered(w, "PROBE")
						o.probeDone = true
					}
					r.Deadline(0)
					r.Drain()
				})
			case "out-opensent":
				return accept(func(r *world.Remote) {
					if _, ok := r.Expect(wire.TypeOpen); ok {
						stay(r)
					}
					r.Deadline(20 * time.Second)
					r.Drain()
				})
			case "out-openconfirm":
				return accept(func(r *world.Remote) {
					if reach(r, stOpenConfirm, 65002, 90, c13ExtraCaps(cs)...) {
						stay(r)
					}
					r.Deadline(20 * time.Second)
					r.Drain()
				})
			case "held-down", "held-down-nowrite":
				return accept(func(r *world.Remote) {
					if _, ok := r.Expect(wire.TypeOpen); ok {
						if cs.State == "held-down-nowrite" {
							// a valid OPEN that the plugin refuses; the connection is reset while the callback
							// runs, so the NOTIFICATION cannot be written any more
							rstTarget = r
							r.Send(wire.Open(65002, 90, 0x0a000002))
						} else {
							r.Send(wire.Open(64999, 90, 0x0a000002))
						}
					}
					r.Deadline(5 * time.Second)
					r.Drain()
					w.SetFlag("state-ready")
				})
			}
			return vnet.DialOutcome{Kind: vnet.DialRefuse}
		})
		if err := w.AddPeer(peerConfig(remIP, 65001, 65002), pl, opts...); err != nil {
			panic("harness: " + err.Error())
		}
		if cs.Peers == "P1+P2" {
			pl2 := &world.Plugin{W: w, Peer: "P2", Marker: true, NoYield: ch == nil}
			if err := w.Server.AddPeer(peerConfig(remIP2, 65001, 65003), pl2, corebgp.WithPassive()); err != nil {
				panic("harness: " + err.Error())
			}
		}
		if cs.WildOnly {
			w.Serve(":179")
		} else {
			w.Serve("10.0.0.1:179", "10.0.0.5:179", ":179")
		}
		// earlier inbound connection from P1 for the in-* states
		inbound := func(f func(r *world.Remote)) {
			vrt.GoWorld("remote-in-first", func() {
				c, err := w.NW.DialIn("10.0.0.2:44000", "10.0.0.1:179")
				if err != nil {
					return
				}
				r := w.NewRemote(c, "P1")
				f(r)
				r.Finish()
			})
		}
		switch cs.State {
		case "in-opensent":
			inbound(func(r *world.Remote) {
				if _, ok := r.Expect(wire.TypeOpen); ok {
					w.SetFlag("state-ready")
					w.WaitFlag("test-done")
				}
				r.Deadline(10 * time.Second)
				r.Drain()
			})
		case "in-openconfirm":
			inbound(func(r *world.Remote) {
				if reach(r, stOpenConfirm, 65002, 90, c13ExtraCaps(cs)...) {
					w.SetFlag("state-ready")
					w.WaitFlag("test-done")
				}
				r.Deadline(10 * time.Second)
				r.Drain()
			})
		case "est-in":
			inbound(func(r *world.Remote) {
				if reach(r, stEstablished, 65002, 90, c13ExtraCaps(cs)...) {
					w.SetFlag("state-ready")
					w.WaitFlag("test-done")
					r.Send(wire.Update([]byte("PROBE")))
					vrtWaitDelivered(w, "PROBE")
					o.probeDone = true
				}
				r.Deadline(0)
				r.Drain()
			})
		case "held-down", "held-down-nowrite":
			if c13Passive(cs.Peers) {
				inbound(func(r *world.Remote) {
					if _, ok := r.Expect(wire.TypeOpen); ok {
						if cs.State == "held-down-nowrite" {
							rstTarget = r
							r.Send(wire.Open(65002, 90, 0x0a000002))
						} else {
							r.Send(wire.Open(64999, 90, 0x0a000002))
						}
					}
					r.Deadline(5 * time.Second)
					r.Drain()
					w.SetFlag("state-ready")
				})
			}
		case "fresh":
			w.SetFlag("state-ready")
		case "idle-wait":
			// the first dial (t=0) is refused; the peer then waits for its idle-hold timer
			vrt.Sleep(2 * time.Second)
			w.SetFlag("state-ready")
		case "connect-stalled":
			vrt.Sleep(time.Second)
			w.SetFlag("state-ready")
		}
		// wait (bounded) until the state is reached
		vrt.NewTimer(10 * time.Second)
		dl := vrt.Cur().Now() + int64(10*time.Second)
		vrt.WaitLog("state-ready", func() bool { return w.Flag("state-ready") || vrt.Cur().Now() >= dl })
		vrt.LogTouch()
		o.stateReady = w.Flag("state-ready")
		if strings.HasPrefix(cs.State, "held-down") {
			vrt.Sleep(20 * time.Second) // well inside the 60 s hold-down
		}
		if cs.Before != "" {
			parts := strings.Split(cs.Before, ">")
			bf, bt := c13Addr(parts[0], parts[1])
			bf = strings.Replace(bf, ":45000", ":45900", 1)
			if bc, err := w.NW.DialIn(bf, bt); err == nil {
				br := w.NewRemote(bc, "BEFORE")
				br.Deadline(time.Second)
				br.Drain()
				br.C.Close()
				br.Finish()
			}
			vrt.Sleep(time.Second)
		}
		if cs.Burst > 1 {
			// simultaneous connections from the same source: exactly one may be served
			from, to := c13Addr(cs.From, cs.To)
			var conns []*vnet.Conn
			for i := 0; i < cs.Burst; i++ {
				if bc, err := w.NW.DialIn(strings.Replace(from, ":45000", fmt.Sprintf(":%d", 45000+i), 1), to); err == nil {
					conns = append(conns, bc)
				}
			}
			nDone := 0
			for i, bc := range conns {
				i, bc := i, bc
				vrt.GoWorld(fmt.Sprintf("burst%d", i), func() {
					r := w.NewRemote(bc, "TEST")
					r.Deadline(2 * time.Second)
					m, rerr := r.ReadMsg()
					if rerr == nil && m.Type == wire.TypeOpen {
						o.burstOpen++
						r.Deadline(2 * time.Second)
						r.Drain()
					} else if r.EOF && len(bc.Peer().Sent) == 0 {
						o.burstClosed++
					}
					nDone++
					r.Finish()
				})
			}
			vrt.WaitLog("burst-done", func() bool { return nDone == len(conns) })
			vrt.LogTouch()
			o.burst = len(conns)
			w.SetFlag("test-done")
			w.Close()
			w.WaitServeDone()
			return
		}
		// the test connection
		from, to := c13Addr(cs.From, cs.To)
		c, err := w.NW.DialIn(from, to)
		if err != nil {
			o.connErr = err
		} else {
			o.testConn = c
			r := w.NewRemote(c, "TEST")
			r.Deadline(2 * time.Second)
			m, rerr := r.ReadMsg()
			o.gotOpen = rerr == nil && m.Type == wire.TypeOpen
			o.eof = r.EOF
			o.bytes = len(c.Peer().Sent)
			if o.gotOpen {
				r.C.Close()
			}
			r.Finish()
		}
		w.SetFlag("test-done")
		vrt.Sleep(8 * time.Second)
		for _, ev := range w.Log {
			if ev.Kind == "Handler" && ev.Phase == "exit" && string(ev.Data) == "PROBE" {
				o.probeOK = true
			}
		}
		w.Close()
		w.WaitServeDone()
	})
	return w, e, o
}

func c13Judge(cs c13Case, w *world.World, e *vrt.Exec, o *c13Obs) (string, string) {
	want, why := c13Expect(cs)
	if !o.stateReady {
		return "setup", fmt.Sprintf("could not bring P1 into state %s", cs.State)
	}
	if cs.Burst > 1 {
		if o.burstOpen > 1 {
			return "two-inbound-connections-served", fmt.Sprintf("%d of %d simultaneous connections from the same peer were served", o.burstOpen, o.burst)
		}
		if o.burstOpen+o.burstClosed != o.burst {
			return "inadmissible-connection-not-closed", fmt.Sprintf("%d simultaneous connections from the same peer: %d served, %d closed with zero bytes, %d neither (left open or written on)", o.burst, o.burstOpen, o.burstClosed, o.burst-o.burstOpen-o.burstClosed)
		}
		if want && o.burstOpen != 1 {
			return "refused-admissible-connection", fmt.Sprintf("none of %d simultaneous connections from the configured peer was served", o.burst)
		}
		return monitorCallbacks(w)
	}
	if o.connErr != nil {
		return "setup", "test connection could not be made: " + o.connErr.Error()
	}
	if want {
		if !o.gotOpen {
			return "refused-admissible-connection", fmt.Sprintf("connection %s->%s with %s in state %s must be served (%s) but received no OPEN (bytes=%d eof=%v)", cs.From, cs.To, cs.Peers, cs.State, why, o.bytes, o.eof)
		}
	} else {
		if o.bytes > 0 || o.gotOpen {
			return "served-inadmissible-connection", fmt.Sprintf("connection %s->%s with %s in state %s must be refused (%s) but corebgp wrote %d bytes on it", cs.From, cs.To, cs.Peers, cs.State, why, o.bytes)
		}
		if !o.eof {
			return "inadmissible-connection-not-closed", fmt.Sprintf("connection %s->%s with %s in state %s must be closed (%s) but stayed open", cs.From, cs.To, cs.Peers, cs.State, why)
		}
		// no plugin callback attributable to it: every GetCapabilities is followed by an OPEN on some connection
		nGet := w.Count("GetCapabilities", "enter", "")
		nOpen := 0
		for _, c := range w.NW.Conns {
			if c.Lib {
				for _, m := range libFrames(c.Sent) {
					if m.Type == wire.TypeOpen {
						nOpen++
					}
				}
			}
		}
		if nGet != nOpen {
			return "callback-for-refused-connection", fmt.Sprintf("%d GetCapabilities calls but %d OPENs written: a callback ran for a connection that was refused", nGet, nOpen)
		}
	}
	if (cs.State == "est-in" || cs.State == "est-out") && o.probeDone && !o.probeOK {
		return "existing-session-disturbed", "the Established session did not deliver a probe UPDATE after the test connection"
	}
	if (cs.State == "est-in" || cs.State == "est-out") && !o.probeDone {
		return "existing-session-disturbed", "the Established session was gone after the test connection"
	}
	return monitorCallbacks(w)
}

func c13Cases() []c13Case {
	var out []c13Case
	for _, peers := range []string{"P1", "P1-local", "P1-passive", "P1-passive-local", "P1-passive-local0", "P1+P2"} {
		for _, st := range c13States {
			for _, from := range []string{"A", "B", "C", "V6"} {
				for _, to := range []string{"X", "Y", "W"} {
					cs := c13Case{Peers: peers, State: st, From: from, To: to}
					if c13Applicable(cs) {
						out = append(out, cs)
					}
				}
			}
		}
	}
	// a single wildcard listener and an earlier connection from an unconfigured source
	for _, peers := range []string{"P1", "P1-local"} {
		for _, st := range []string{"idle-wait", "est-out"} {
			for _, before := range []string{"", "C>X", "C>Y", "B>X"} {
				for _, from := range []string{"A", "C"} {
					for _, to := range []string{"X", "Y", "W"} {
						out = append(out, c13Case{Peers: peers, State: st, From: from, To: to, WildOnly: true, Before: before})
					}
				}
			}
		}
	}
	// the peer's OPEN on the existing connection carried capabilities (graceful restart among them)
	for _, peers := range []string{"P1", "P1-passive"} {
		for _, st := range []string{"est-in", "est-out", "in-openconfirm", "out-openconfirm"} {
			for _, rc := range []string{"gr", "misc"} {
				cs := c13Case{Peers: peers, State: st, From: "A", To: "X", RemoteCaps: rc}
				if c13Applicable(cs) {
					out = append(out, cs)
				}
			}
		}
	}
	// simultaneous connections from the configured peer
	for _, peers := range []string{"P1", "P1-passive"} {
		st := "idle-wait"
		if peers == "P1-passive" {
			st = "fresh"
		}
		for _, n := range []int{2, 3} {
			out = append(out, c13Case{Peers: peers, State: st, From: "A", To: "X", Burst: n})
		}
	}
	return out
}

func c13Eval(c *harness.Ctx, cs c13Case) {
	w, e, o := c13Run(cs, nil, false)
	rule, msg := basicVerdict(e)
	if rule == "" {
		rule, msg = c13Judge(cs, w, e, o)
	}
	if rule != "" {
		c.Violation(rule, "C13:grid:"+rule, msg, map[string]any{"case": cs, "log": logText(w), "wire": wireText(w)})
	}
	e.Finish()
}

func c13Scn(cs c13Case, bound int) *Scn {
	b, _ := json.Marshal(cs)
	return &Scn{Name: "schedule/" + string(b), Bound: bound, Run: func(ch vrt.Chooser, trace bool) *ScnResult {
		if ch == nil {
			ch = &vrt.ReplayChooser{}
		}
		w, e, o := c13Run(cs, ch, trace)
		return finishRun("C13", "schedule", w, e, trace, false, func() (string, string) { return c13Judge(cs, w, e, o) }, nil)
	}}
}

// c13DeletingScn: the connection arrives while the peer is being deleted (or the server
// closed): DeletePeer/Close is called j steps after the remote started to connect. Whatever the
// order, the connection must end up closed by corebgp (served first or not).
func c13DeletingScn(passive bool, api string, j, bound int) *Scn {
	name := fmt.Sprintf("deleting/passive=%v/%s/step+%d", passive, api, j)
	return &Scn{Name: name, Bound: bound, Run: func(ch vrt.Chooser, trace bool) *ScnResult {
		var w *world.World
		var test *vnet.Conn
		open := false
		e := vrt.Run(vrt.Config{Horizon: int64(30 * time.Second), Trace: trace, Chooser: ch}, func() {
			w = world.New(libIP)
			w.NewServer(libIP)
			pl := &world.Plugin{W: w, Peer: "P1", Marker: true}
			opts := []corebgp.PeerOption{corebgp.WithDialerControl(w.DialControl("P1"))}
			if passive {
				opts = append(opts, corebgp.WithPassive())
			}
			w.NW.OnDial(remAddr, func(int, *net.TCPAddr) vnet.DialOutcome { return vnet.DialOutcome{Kind: vnet.DialRefuse} })
			if err := w.AddPeer(peerConfig(remIP, 65001, 65002), pl, opts...); err != nil {
				panic("harness: " + err.Error())
			}
			w.Serve(libAddr)
			vrt.Sleep(time.Second)
			vrt.WaitQuiescent()
			t0 := vrt.Cur().Steps()
			vrt.GoWorld("remote-in", func() {
				c, err := w.NW.DialIn("10.0.0.2:45000", libAddr)
				if err != nil {
					return
				}
				test = c
				r := w.NewRemote(c, "TEST")
				r.Deadline(5 * time.Second)
				r.Drain()
				r.Finish()
			})
			vrt.WaitStep(t0 + j)
			if api == "DeletePeer" {
				w.DeletePeer(remIP)
			} else {
				w.Close()
			}
			vrt.WaitQuiescent()
			if test != nil && test.Peer().Accepted && !test.Peer().IsClosed() {
				open = true
			}
			if api == "DeletePeer" {
				w.Close()
			}
			w.WaitServeDone()
		})
		return finishRun("C13", "deleting", w, e, trace, false, func() (string, string) {
			if open {
				return "connection-left-open-by-stopping-peer", fmt.Sprintf("a connection from the configured peer that arrived while %s was in progress was accepted by corebgp but neither served nor closed", api)
			}
			return monitorCallbacks(w)
		}, nil)
	}}
}

func c13Check(c *harness.Ctx) {
	cases := c13Cases()
	{
		k := 0
		b := 1
		stride := 3
		if c.Thorough() {
			b, stride = 2, 1
		}
		for _, passive := range []bool{true, false} {
			for _, api := range []string{"DeletePeer", "Close"} {
				for j := 0; j <= 36; j += stride {
					k++
					if !c.Mine(k) {
						continue
					}
					if c.Expired() {
						return
					}
					if !exploreScn(c, "C13", c13DeletingScn(passive, api, j, b)) {
						return
					}
				}
			}
		}
	}
	nAdmit := 0
	for i, cs := range cases {
		if !c.Mine(i) {
			continue
		}
		if c.Expired() {
			return
		}
		b, _ := json.Marshal(cs)
		c.Eval(b, true)
		if adm, _ := c13Expect(cs); adm {
			nAdmit++
		}
		if i%97 == 0 {
			c.Sample(cs)
		}
		c13Eval(c, cs)
	}
	c.Res.Extra["admit_class"] = float64(nAdmit)
	bound := 1
	if c.Thorough() {
		bound = 2
	}
	k := 0
	for _, cs := range cases {
		// schedules for the connections from the configured peer to its address, and one unconfigured source per state
		if !(cs.From == "A" && cs.To == "X" || cs.From == "C" && cs.To == "W" && cs.Peers == "P1") || cs.WildOnly {
			continue
		}
		if !c.Thorough() && c13Local(cs.Peers) {
			continue
		}
		k++
		if !c.Mine(k) {
			continue
		}
		if c.Expired() {
			return
		}
		b := bound
		if cs.Burst > 1 {
			b = bound + 1
		}
		if !exploreScn(c, "C13", c13Scn(cs, b)) {
			return
		}
	}
}

func init() {
	harness.Register(&harness.Check{
		Property: "C13", Level: "exploration", NeedsConc: true, QuickS: 200, ThoroughS: 1200,
		Rule:   "complete grid of peer sets {P1, P1 with local address, P1 passive, P1 passive with local address, P1 passive with the unspecified local address 0.0.0.0, P1+P2} x state of P1 at arrival {fresh, idle-wait, stalled connect, inbound OpenSent, inbound OpenConfirm, Established via inbound, Established via outbound, outbound OpenSent, outbound OpenConfirm, held down, held down after a protocol error whose NOTIFICATION could not be written} x source {P1, P2, unconfigured, IPv6} x destination {P1's local address, another address, wildcard listener}: each cell one run of the real server over the virtual network (three listeners), judged against the admission predicate (OPEN received vs EOF with zero bytes, no callback, existing session still delivers a probe); plus all schedules within the delay bound (1 quick / 2 thorough) for the cells with the configured source; plus a single wildcard listener with an earlier connection from an unconfigured source, bursts of 2-3 simultaneous connections, and a connection that arrives while the peer is being deleted (it must not stay open); all cells non-trivial and distinct",
		Assume: []string{"virtual network with real net.TCPAddr endpoints (A3)", "default schedule for the grid"},
		Run:    c13Check,
		Replay: func(c *harness.Ctx, raw json.RawMessage) {
			var r struct {
				Case     *c13Case `json:"case"`
				Scenario string   `json:"scenario"`
			}
			if err := json.Unmarshal(raw, &r); err != nil {
				panic(err)
			}
			if r.Case != nil {
				c13Eval(c, *r.Case)
				return
			}
			scnReplay("C13", func(name string) *Scn {
				if strings.HasPrefix(name, "deleting/") {
					var passive bool
					var api string
					var j int
					parts := strings.Split(name, "/")
					passive = parts[1] == "passive=true"
					api = parts[2]
					fmt.Sscanf(parts[3], "step+%d", &j)
					return c13DeletingScn(passive, api, j, 3)
				}
				var cs c13Case
				if json.Unmarshal([]byte(name[len("schedule/"):]), &cs) != nil {
					return nil
				}
				return c13Scn(cs, 3)
			})(c, raw)
		},
	})
}
