package props

import (
	"bytes"
	"encoding/hex"
	"encoding/json"
	"fmt"
	"net/netip"
	"strings"
	"time"

	"github.com/jwhited/corebgp"

	"corebgpverif/harness"
	"corebgpverif/wire"
	"corebgpverif/world"
)

// C14: the OPEN corebgp sends, parsed by an independent strict parser.

type c14Cap struct {
	Code byte   `json:"code"`
	Val  string `json:"value_hex"`
}

type c14Case struct {
	LocalAS  uint32   `json:"local_as"`
	Hold     int      `json:"hold"`
	RouterID uint32   `json:"router_id"`
	Inbound  bool     `json:"inbound"`
	Caps     []c14Cap `json:"plugin_caps"`
	// Prev >= 0: the judged OPEN is the one of a SECOND connection; on the first one the remote
	// negotiated with hold time Prev and then ended the session with a Cease.
	Prev int `json:"previous_session_remote_hold"`
	// PrevEnd (with Prev >= 0): how the first connection ends. "" = Cease in Established (above);
	// "drop-opensent" = closed after corebgp's OPEN; "drop-openconfirm" = the remote sends its OPEN (hold time
	// Prev), takes corebgp's KEEPALIVE and closes without answering it; "notif24-opensent" /
	// "notif24-openconfirm" = NOTIFICATION (2,4) Unsupported Optional Parameter at that point (a protocol error:
	// the second connection happens after the hold-down).
	PrevEnd string `json:"previous_connection_end,omitempty"`
	// Mutate (with Prev >= 0): between the two connections the plugin edits the value octets of its one
	// capability list in place; the second OPEN carries the edited octets.
	Mutate bool `json:"plugin_edits_values_in_place,omitempty"`
	// Mapped: the router id is handed to NewServer in its IPv4-mapped IPv6 form; if the server takes it,
	// the OPEN carries the IPv4 address all the same.
	Mapped bool `json:"router_id_ipv4_mapped,omitempty"`
}

func c14Run(cs c14Case, trace bool) (rule, msg string, representable bool, rep map[string]any) {
	var caps []corebgp.Capability
	var want []wire.Cap
	want = append(want, wire.Cap4(cs.LocalAS))
	total := 6
	representable = true
	for _, c := range cs.Caps {
		v, _ := hex.DecodeString(c.Val)
		caps = append(caps, corebgp.Capability{Code: c.Code, Value: v})
		if c.Code == 65 {
			continue
		}
		want = append(want, wire.Cap{Code: c.Code, Value: append([]byte{}, v...)})
		total += 2 + len(v)
		if len(v) > 255 {
			representable = false
		}
	}
	if total+2 > 255 { // the parameter header (type, length) counts towards the optional-parameters length
		// does not fit one parameter; several parameters would need 2 more octets each
		representable = false
	}
	var first *wire.Msg
	var firstErr error
	var rem *world.Remote
	second := false
	routerAddr := ""
	if cs.Mapped {
		routerAddr = "::ffff:" + ip4(cs.RouterID)
		if _, err := corebgp.NewServer(netip.MustParseAddr(routerAddr)); err != nil {
			return "", "", representable, map[string]any{"case": cs} // refused: nothing is announced
		}
	}
	s := &Sess{LocalAS: cs.LocalAS, RemoteAS: 65002, RouterID: cs.RouterID, RouterAddr: routerAddr, Hold: cs.Hold, Inbound: cs.Inbound,
		Reconnect: cs.Prev >= 0, Horizon: c14Horizon(cs), ReconnectAfter: c14ReconnectAfter(cs),
		Plugin: func(w *world.World) *world.Plugin {
			p := &world.Plugin{W: w, Peer: "P1", NoYield: true, Caps: caps}
			if cs.Mutate {
				p.CapsHook = func(p *world.Plugin, call int) {
					if call != 2 {
						return
					}
					for i := range p.Caps {
						for j := range p.Caps[i].Value {
							p.Caps[i].Value[j] ^= 0xa5
						}
					}
					for i := range want {
						if want[i].Code != 65 {
							for j := range want[i].Value {
								want[i].Value[j] ^= 0xa5
							}
						}
					}
				}
			}
			return p
		},
		Script: func(w *world.World, r *world.Remote) {
			if cs.Prev >= 0 && !second && cs.PrevEnd != "" {
				second = true
				if _, ok := r.Expect(wire.TypeOpen); ok {
					switch cs.PrevEnd {
					case "drop-opensent":
					case "notif24-opensent":
						r.Send(wire.Notification(2, 4, nil))
					case "drop-openconfirm", "notif24-openconfirm":
						r.Send(wire.Open(65002, uint16(cs.Prev), 0x0a000002))
						if _, ok := r.Expect(wire.TypeKeepalive); ok && cs.PrevEnd == "notif24-openconfirm" {
							r.Send(wire.Notification(2, 4, nil))
						}
					}
				}
				r.C.Close()
				return
			}
			if cs.Prev >= 0 && !second {
				second = true
				if _, ok := r.Expect(wire.TypeOpen); ok {
					r.Send(wire.Open(65002, uint16(cs.Prev), 0x0a000002))
					if _, ok := r.Expect(wire.TypeKeepalive); ok {
						r.Send(wire.Keepalive())
						r.Send(wire.Notification(6, 4, nil))
					}
				}
				r.Deadline(2 * time.Second)
				r.Drain()
				return
			}
			rem = r
			m, err := r.ReadMsg()
			if err == nil {
				first = &m
			} else {
				firstErr = err
			}
			r.C.Close()
		}}
	w, e := s.Run(nil, trace)
	defer e.Finish()
	rep = map[string]any{"case": cs, "representable": representable}
	fail := func(r, m string) (string, string, bool, map[string]any) {
		rep["log"] = logText(w)
		rep["wire"] = wireText(w)
		return r, m, representable, rep
	}
	if r, m := basicVerdict(e); r != "" {
		return fail(r, m)
	}
	if rem == nil {
		return fail("no-connection", "the scripted connection never happened")
	}
	if rem.FrameErr != nil {
		return fail("malformed-output", "corebgp wrote a malformed message: "+rem.FrameErr.Error())
	}
	if first == nil {
		if representable {
			return fail("no-open", fmt.Sprintf("no OPEN was sent for a representable capability list (%v)", firstErr))
		}
		return "", "", representable, rep
	}
	if first.Type != wire.TypeOpen {
		return fail("first-message-not-open", "first message is "+first.String())
	}
	o, err := wire.ParseOpenStrict(first.Body)
	if err != nil {
		return fail("malformed-open", fmt.Sprintf("OPEN on the wire is malformed: %v (body %x)", err, trunc(first.Body)))
	}
	if !representable {
		// the property only forbids a malformed OPEN here
		return "", "", representable, rep
	}
	if o.Version != 4 {
		return fail("version", fmt.Sprintf("version %d", o.Version))
	}
	if o.AS != wire.AS2(cs.LocalAS) {
		return fail("as-field", fmt.Sprintf("AS field %d for local AS %d", o.AS, cs.LocalAS))
	}
	wantHold := cs.Hold
	if wantHold < 0 {
		wantHold = 90
	}
	if int(o.Hold) != wantHold {
		return fail("hold-time", fmt.Sprintf("hold time %d, configured %d", o.Hold, wantHold))
	}
	rid := cs.RouterID
	if rid == 0 {
		rid = 0x0a000001
	}
	if o.ID != rid {
		return fail("identifier", fmt.Sprintf("identifier %s, router id %s", ip4(o.ID), ip4(rid)))
	}
	for _, p := range o.Params {
		if p.Type != 2 {
			return fail("parameter-type", fmt.Sprintf("optional parameter of type %d", p.Type))
		}
	}
	got := o.AllCaps()
	if !bytes.Equal(capBytes(got), capBytes(want)) || len(got) != len(want) {
		return fail("capabilities", fmt.Sprintf("capabilities on the wire %x, expected %x", trunc(capBytes(got)), trunc(capBytes(want))))
	}
	// exactly one GetCapabilities per OPEN sent
	if n := w.Count("GetCapabilities", "enter", "P1"); n < 1 {
		return fail("getcapabilities-count", fmt.Sprintf("GetCapabilities invoked %d times before the OPEN", n))
	}
	return "", "", representable, rep
}

// a first connection that ends in a protocol error is followed by a hold-down of 60 s
func c14ReconnectAfter(cs c14Case) time.Duration {
	if strings.HasPrefix(cs.PrevEnd, "notif24") {
		return 70 * time.Second
	}
	return 0
}

func c14Horizon(cs c14Case) time.Duration { return 20*time.Second + 2*c14ReconnectAfter(cs) }

func c14CapLists(depth int) [][]c14Cap {
	var alpha []c14Cap
	for _, code := range []byte{0, 1, 65, 69, 255} {
		for _, l := range []int{0, 1, 4, 255} {
			alpha = append(alpha, c14Cap{code, hex.EncodeToString(bytes.Repeat([]byte{code ^ 0x5a}, l))})
		}
	}
	res := [][]c14Cap{{}}
	frontier := [][]c14Cap{{}}
	for d := 0; d < depth; d++ {
		var next [][]c14Cap
		for _, f := range frontier {
			for _, a := range alpha {
				next = append(next, append(append([]c14Cap{}, f...), a))
			}
		}
		res = append(res, next...)
		frontier = next
	}
	return res
}

func c14Special() [][]c14Cap {
	var out [][]c14Cap
	fill := func(n int) string { return hex.EncodeToString(bytes.Repeat([]byte{0xa7}, n)) }
	// totals (including the implicit 6-byte 4-octet-AS capability) hitting 251..260
	for total := 249; total <= 262; total++ {
		rest := total - 6 - 2
		if rest >= 0 && rest <= 255 {
			out = append(out, []c14Cap{{200, fill(rest)}})
		}
		if rest-2 >= 0 {
			out = append(out, []c14Cap{{200, fill((rest - 2) / 2)}, {201, fill(rest - 2 - (rest-2)/2)}})
		}
	}
	// many small capabilities
	var many []c14Cap
	for i := 0; i < 40; i++ {
		many = append(many, c14Cap{byte(100 + i), fill(4)})
		out = append(out, append([]c14Cap{}, many...))
	}
	// unrepresentable values and totals
	out = append(out, []c14Cap{{200, fill(256)}}, []c14Cap{{200, fill(300)}}, []c14Cap{{200, fill(257)}, {1, fill(4)}},
		[]c14Cap{{200, fill(255)}, {201, fill(255)}}, []c14Cap{{200, fill(255)}, {201, fill(255)}, {202, fill(255)}, {203, fill(229)}},
		[]c14Cap{{200, fill(65536 + 6)}}, []c14Cap{{65, fill(300)}}, []c14Cap{{65, fill(4)}, {65, fill(0)}, {1, fill(4)}})
	return out
}

func c14Check(c *harness.Ctx) {
	th := c.Thorough()
	ass := []uint32{1, 23456, 64512, 65535, 65536, 4200000000, 0xffffffff}
	holds := []int{0, 3, 90, 65535}
	rids := []uint32{0x00000001, 0x0a000001, 0xffffffff}
	depth := 2
	if th {
		depth = 3
	}
	lists := append(c14CapLists(depth), c14Special()...)
	small := append(c14CapLists(1), c14Special()...)
	idx := 0
	nUnrep := 0
	run := func(cs c14Case) bool {
		idx++
		if !c.Mine(idx) {
			return true
		}
		if c.Expired() {
			return false
		}
		rule, msg, representable, rep := c14Run(cs, false)
		b, _ := json.Marshal(cs)
		c.Eval(b, true)
		if !representable {
			nUnrep++
		}
		if idx%4001 == 1 {
			c.Sample(cs)
		}
		if rule != "" {
			kind := "representable"
			if !representable {
				kind = "unrepresentable"
			}
			c.Violation(rule, "C14:"+kind+":"+rule, msg, rep)
		}
		return true
	}
	// the router id in IPv4-mapped form
	for _, rid := range []uint32{0x00000001, 0x0a000001, 0xc0000201, 0xffffffff} {
		for _, inbound := range []bool{true, false} {
			if !run(c14Case{LocalAS: 65001, Hold: 90, RouterID: rid, Inbound: inbound, Prev: -1, Mapped: true}) {
				return
			}
		}
	}
	// the OPEN of a second connection after a session that negotiated another hold time
	for _, h := range []int{0, 9, 90, 65535} {
		for _, prev := range []int{0, 3, 30} {
			for _, inbound := range []bool{true, false} {
				if !run(c14Case{LocalAS: 65001, Hold: h, RouterID: 0x0a000001, Inbound: inbound, Prev: prev}) {
					return
				}
				// ... with plugin capability lists (the plugin hands out the same slice on every call),
				// also ones containing the 4-octet-AS capability that corebgp filters out
				for _, l := range small {
					if len(l) == 0 || h != 90 {
						continue
					}
					with65 := append([]c14Cap{{65, "0000fde9"}}, l...)
					mid65 := append(append([]c14Cap{}, l...), c14Cap{65, "0000fde9"}, c14Cap{1, "00010001"})
					for _, caps := range [][]c14Cap{l, with65, mid65} {
						if !run(c14Case{LocalAS: 65001, Hold: h, RouterID: 0x0a000001, Inbound: inbound, Prev: prev, Caps: caps, Mutate: true}) {
							return
						}
						if !run(c14Case{LocalAS: 65001, Hold: h, RouterID: 0x0a000001, Inbound: inbound, Prev: prev, Caps: caps}) {
							return
						}
					}
				}
			}
		}
	}
	// ... and after a first connection that ended before the session was up: in OpenSent or OpenConfirm, by
	// the remote's close or by its NOTIFICATION (then the second connection follows the hold-down)
	for _, end := range []string{"drop-opensent", "drop-openconfirm", "notif24-opensent", "notif24-openconfirm"} {
		for _, h := range []int{90, 9, 0} {
			for _, prev := range []int{3, 0, 90} {
				for _, inbound := range []bool{true, false} {
					if !run(c14Case{LocalAS: 65001, Hold: h, RouterID: 0x0a000001, Inbound: inbound, Prev: prev, PrevEnd: end, Caps: small[len(small)-1]}) {
						return
					}
				}
			}
		}
	}
	// full configuration product x small capability set
	for _, as := range ass {
		for _, h := range holds {
			for _, rid := range rids {
				for li, l := range small {
					if !run(c14Case{LocalAS: as, Hold: h, RouterID: rid, Inbound: li%2 == 0, Caps: l, Prev: -1}) {
						return
					}
				}
			}
		}
	}
	// representative configurations x all capability lists, both directions
	for ci, cfg := range [][3]uint32{{65001, 90, 0x0a000001}, {4200000000, 0, 0xc0a80001}, {23456, 3, 0x01020304}, {65536, 65535, 0xfffffffe}} {
		if !th && ci > 1 {
			break
		}
		for _, l := range lists {
			for _, inbound := range []bool{true, false} {
				if !run(c14Case{LocalAS: cfg[0], Hold: int(cfg[1]), RouterID: cfg[2], Inbound: inbound, Caps: l, Prev: -1}) {
					return
				}
			}
		}
	}
	c.Res.Extra["unrepresentable_cases"] = float64(nUnrep)
	// two peers whose OPENs are built and written side by side: all schedules within the bound
	// (without the happens-before cache, see c14TwoPeersScn: 3 delays do not finish in minutes)
	bound := 2
	for i, h := range []uint16{9, 90, 0} {
		if !c.Mine(i + 5) {
			continue
		}
		if !exploreScn(c, "C14", c14TwoPeersScn(bound, h)) {
			return
		}
	}
}

func init() {
	harness.Register(&harness.Check{
		Property: "C14", Level: "exploration", NeedsConc: true, QuickS: 120, ThoroughS: 900,
		Rule:   "product of local AS {1,23456,64512,65535,65536,4200000000,2^32-1} x hold {0,3,90,65535} x router id {0.0.0.1,10.0.0.1,255.255.255.255} x a capability set, plus representative configurations x all capability lists of length <=2 (quick) / <=3 (thorough) over codes {0,1,65,69,255} x value lengths {0,1,4,255}, totals around the 255-octet limit, up to 40 capabilities, unrepresentable values (256, 300, 65542 bytes) and totals; plus the OPEN of a second connection (after a session with another hold time; with the plugin returning the same capability slice again, which corebgp must not have modified); plus two peers with different configurations connected to at the same instant, every schedule within 2 delays run to its end without the happens-before cache and each first message judged against its own peer; each case is one real connection (both directions) whose first message is parsed by an independent strict OPEN parser; all cases non-trivial, distinct by configuration",
		Assume: []string{"default schedule; virtual network (A3)", "for unrepresentable capability lists only well-formedness of what is written is judged (property: no malformed OPEN)"},
		Run:    c14Check,
		Replay: func(c *harness.Ctx, raw json.RawMessage) {
			var r struct {
				Case     c14Case `json:"case"`
				Scenario string  `json:"scenario"`
			}
			if err := json.Unmarshal(raw, &r); err != nil {
				panic(err)
			}
			if r.Scenario != "" {
				scnReplay("C14", func(name string) *Scn {
					var h uint16
					if n, _ := fmt.Sscanf(name, "two-peers-open/hold%d", &h); n == 1 {
						return c14TwoPeersScn(3, h)
					}
					return nil
				})(c, raw)
				return
			}
			rule, msg, representable, rep := c14Run(r.Case, true)
			if rule != "" {
				kind := "representable"
				if !representable {
					kind = "unrepresentable"
				}
				c.Violation(rule, "C14:"+kind+":"+rule, msg, rep)
			}
		},
	})
}
