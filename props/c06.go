package props

import (
	"encoding/json"
	"fmt"
	"net"
	"os"
	"strings"
	"time"

	"github.com/jwhited/corebgp"

	"corebgpverif/harness"
	"corebgpverif/vnet"
	"corebgpverif/vrt"
	"corebgpverif/wire"
	"corebgpverif/world"
)

// C06: hold time negotiation, hold-timer expiry, keepalive cadence, in
// virtual time.

type c06Case struct {
	Local   int    `json:"local_hold"`
	Remote  int    `json:"remote_hold"`
	Traffic string `json:"remote_traffic"` // silent | ka-third | ka-just-before | ka-at-expiry | upd-half | alternate | silent-openconfirm | upd-slow-handler | pair-late
	Writes  string `json:"local_writes"`   // none | quarter | burst
	Inbound bool   `json:"inbound"`
	Legacy  bool   `json:"legacy_timers"`
	// Prev, if >= 0, makes the judged session the SECOND one of the same peer: a first session in which
	// the remote proposed hold time Prev is ended by the remote's Cease, then corebgp reconnects.
	Prev int `json:"previous_session_remote_hold"`
	// NilHandler: OnEstablished returns a nil UPDATE handler (legal); received UPDATEs still count as traffic
	NilHandler bool `json:"nil_handler,omitempty"`
}

type c06Obs struct {
	rem        *world.Remote
	sent       []int64 // virtual times at which the remote sent a KEEPALIVE/UPDATE (after its OPEN)
	estT       int64   // time the session was established (remote's view: its KEEPALIVE sent)
	openHold   int
	t0         int64 // start of the judged connection
	stopSend   int64
	endT       int64
	aliveAtEnd bool
}

func c06H(cs c06Case) time.Duration {
	h := cs.Local
	if cs.Remote < h {
		h = cs.Remote
	}
	return time.Duration(h) * time.Second
}

func c06Run(cs c06Case, ch vrt.Chooser, trace bool) (*world.World, *vrt.Exec, *c06Obs) {
	H := c06H(cs)
	span := 3*H + 10*time.Second
	if H == 0 {
		span = 10 * 65535 * time.Second
	}
	if cs.Prev >= 0 {
		span += 10 * time.Second
	}
	o := &c06Obs{openHold: -1}
	var w *world.World
	e := vrt.Run(vrt.Config{Horizon: int64(span + 100*time.Second), LegacyTimers: cs.Legacy, Trace: trace, Chooser: ch, MaxSteps: 400000}, func() {
		w = world.New(libIP)
		w.NewServer(libIP)
		pl := &world.Plugin{W: w, Peer: "P1", NoYield: ch == nil, NilHandler: cs.NilHandler}
		pl.Handle = func(p *world.Plugin, s, n int, b []byte) *corebgp.Notification {
			if string(b) == "SLOW" {
				vrt.Sleep(500 * time.Millisecond)
			}
			return nil
		}
		pl.OnEst = func(p *world.Plugin, s int, wr corebgp.UpdateMessageWriter) {
			if cs.Writes == "none" || H == 0 && cs.Writes != "burst" || H%3 != 0 && cs.Writes == "at-tick" {
				return
			}
			vrt.GoWorld("local-writer", func() {
				var atStep int
				if n, _ := fmt.Sscanf(cs.Writes, "at-step:%d", &atStep); n == 1 {
					// one write when the execution has made exactly that many steps (swept over the steps around
					// the first periodic KEEPALIVE): the write lands inside the FSM's keepalive path at no cost in
					// schedule deviations
					if vrt.WaitStep(atStep) {
						wr.WriteUpdate([]byte{0xee}) // nolint: errcheck
					}
					return
				}
				if cs.Writes == "probe-steps" {
					// baseline: how many steps has the execution made just before the first KEEPALIVE is due
					vrt.Sleep(H/3 - time.Nanosecond)
					c06ProbeSteps = vrt.Cur().Steps()
					return
				}
				switch cs.Writes {
				case "quarter":
					for i := 0; i < 14; i++ {
						vrt.Sleep(H / 4)
						if wr.WriteUpdate([]byte{byte(i)}) != nil {
							return
						}
					}
				case "burst":
					for i := 0; i < 3; i++ {
						if wr.WriteUpdate([]byte{byte(i)}) != nil {
							return
						}
					}
				case "at-tick":
					// one write at the very instant the first periodic KEEPALIVE is due, one at the second,
					// then nothing: the two paths that restart the keepalive timer meet
					for i := 0; i < 2; i++ {
						vrt.Sleep(H / 3)
						if wr.WriteUpdate([]byte{byte(i)}) != nil {
							return
						}
					}
				}
			})
		}
		first := cs.Prev >= 0
		script := func(r *world.Remote) {
			if first {
				// the earlier session: negotiate with another hold time, then end it without damping
				first = false
				if _, ok := r.Expect(wire.TypeOpen); ok {
					r.Send(wire.Open(65002, uint16(cs.Prev), 0x0a000002))
					if _, ok := r.Expect(wire.TypeKeepalive); ok {
						r.Send(wire.Keepalive())
						vrt.Sleep(time.Second)
						r.Send(wire.Notification(6, 4, nil))
					}
				}
				r.Deadline(2 * time.Second)
				r.Drain()
				return
			}
			o.rem = r
			o.t0 = vrt.Cur().Now()
			m, ok := r.Expect(wire.TypeOpen)
			if !ok {
				return
			}
			if f, err := wire.ParseOpenStrict(m.Body); err == nil {
				o.openHold = int(f.Hold)
			}
			r.Send(wire.Open(65002, uint16(cs.Remote), 0x0a000002))
			if _, ok := r.Expect(wire.TypeKeepalive); !ok {
				return
			}
			send := func(b []byte) bool {
				if r.C.IsReset() || r.C.PeerClosed() {
					return false
				}
				o.sent = append(o.sent, vrt.Cur().Now())
				return r.Send(b) == nil
			}
			// reader: logs everything corebgp sends with its virtual time
			vrt.GoWorld("remote-reader", func() {
				r.Deadline(0)
				r.Drain()
				w.SetFlag("reader-done")
			})
			if cs.Traffic == "silent-openconfirm" {
				o.estT = -1
				o.sent = append(o.sent, vrt.Cur().Now()) // the OPEN is the last thing it sent
				return
			}
			send(wire.Keepalive())
			o.estT = vrt.Cur().Now()
			end := o.estT + int64(span)
			switch cs.Traffic {
			case "silent":
			case "ka-third":
				for H > 0 && vrt.Cur().Now()+int64(H/3) < end {
					vrt.Sleep(H / 3)
					if !send(wire.Keepalive()) {
						break
					}
				}
			case "ka-just-before":
				for i := 0; H > 0 && i < 3; i++ {
					vrt.Sleep(H - time.Nanosecond)
					if !send(wire.Keepalive()) {
						break
					}
				}
			case "ka-at-expiry":
				for i := 0; H > 0 && i < 2; i++ {
					vrt.Sleep(H)
					if !send(wire.Keepalive()) {
						break
					}
				}
			case "upd-half":
				for i := 0; H > 0 && i < 5; i++ {
					vrt.Sleep(H / 2)
					if !send(wire.Update([]byte{byte(i)})) {
						break
					}
				}
			case "upd-slow-handler":
				// an UPDATE arrives 0.2 s before expiry and its handler takes 0.5 s: the hold timer fires
				// while the FSM goroutine is in the handler
				if H > 0 {
					vrt.Sleep(H - 200*time.Millisecond)
					send(wire.Update([]byte("SLOW")))
				}
			case "pair-late":
				// two messages less than a second apart, then silence until just before the hold time has passed
				// since the SECOND one (a hold timer restarted only for the first of a close pair expires early);
				// the gap between the two grows: 0.9 s, 0.5 s, 1 ns
				for i, gap := range []time.Duration{900 * time.Millisecond, 500 * time.Millisecond, time.Nanosecond} {
					if H == 0 {
						break
					}
					vrt.Sleep(gap)
					var ok bool
					if i%2 == 0 {
						ok = send(wire.Update([]byte{0xee, byte(i)}))
					} else {
						ok = send(wire.Keepalive())
					}
					if !ok {
						break
					}
					vrt.Sleep(H - time.Nanosecond)
					if !send(wire.Keepalive()) {
						break
					}
				}
			case "alternate":
				for i := 0; H > 0 && i < 6; i++ {
					vrt.Sleep(2 * H / 3)
					var ok bool
					if i%2 == 0 {
						ok = send(wire.Update([]byte{byte(i)}))
					} else {
						ok = send(wire.Keepalive())
					}
					if !ok {
						break
					}
				}
			}
			o.stopSend = vrt.Cur().Now()
		}
		opts := []corebgp.PeerOption{corebgp.WithHoldTime(uint16(cs.Local)), corebgp.WithDialerControl(w.DialControl("P1"))}
		if cs.Inbound {
			opts = append(opts, corebgp.WithPassive())
		} else {
			w.NW.OnDial(remAddr, func(att int, from *net.TCPAddr) vnet.DialOutcome {
				if att > 0 && !(att == 1 && cs.Prev >= 0) {
					return vnet.DialOutcome{Kind: vnet.DialRefuse}
				}
				return vnet.DialOutcome{Kind: vnet.DialAccept, Serve: func(c *vnet.Conn) {
					r := w.NewRemote(c, "P1")
					script(r)
					r.Finish()
				}}
			})
		}
		if err := w.Server.AddPeer(peerConfig(remIP, 65001, 65002), pl, opts...); err != nil {
			panic("harness: " + err.Error())
		}
		w.Serve(libAddr)
		if cs.Inbound {
			vrt.GoWorld("remote-in", func() {
				n := 1
				if cs.Prev >= 0 {
					n = 2
				}
				for i := 0; i < n; i++ {
					c, err := w.NW.DialIn(fmt.Sprintf("10.0.0.2:%d", 40001+i), libAddr)
					if err != nil {
						return
					}
					r := w.NewRemote(c, "P1")
					script(r)
					r.Finish()
					if i == 0 && n == 2 {
						vrt.Sleep(time.Second)
					}
				}
			})
		}
		// run for the whole span, or until the connection ended (no point in watching
		// corebgp redial a remote that refuses for days of virtual time)
		vrt.NewTimer(span + 20*time.Second)
		stop := vrt.Cur().Now() + int64(span+20*time.Second)
		vrt.WaitLog("end-of-span", func() bool { return vrt.Cur().Now() >= stop || w.Flag("reader-done") })
		vrt.LogTouch()
		if w.Flag("reader-done") {
			vrt.Sleep(time.Second)
		}
		o.endT = vrt.Cur().Now()
		if o.rem != nil {
			o.aliveAtEnd = !o.rem.EOF && o.rem.ReadErr == nil && !w.Flag("reader-done")
		}
		w.Close()
		w.WaitServeDone()
	})
	return w, e, o
}

func c06Judge(cs c06Case, w *world.World, e *vrt.Exec, o *c06Obs) (string, string) {
	H := int64(c06H(cs))
	if o.rem == nil {
		return "no-connection", "the scripted connection never happened"
	}
	if o.rem.FrameErr != nil {
		return "malformed-output", o.rem.FrameErr.Error()
	}
	if o.openHold != cs.Local {
		return "open-hold-time", fmt.Sprintf("the OPEN corebgp sent carries hold time %d, configured %d", o.openHold, cs.Local)
	}
	// messages received by the remote after corebgp's OPEN, with times
	type rx struct {
		t int64
		m wire.Msg
	}
	var rxs []rx
	eofT := int64(-1)
	for _, ev := range w.Log {
		if ev.Conn != o.rem.C.ID {
			continue
		}
		if ev.Kind == "rx" && ev.Msg != nil && ev.Msg.Type != wire.TypeOpen {
			rxs = append(rxs, rx{ev.T, *ev.Msg})
		}
		if (ev.Kind == "rx-eof" || ev.Kind == "rx-error") && eofT < 0 {
			eofT = ev.T
		}
	}
	closeCall := int64(-1)
	for _, ev := range w.Log {
		if ev.Kind == "api:Close" && ev.Phase == "call" {
			closeCall = ev.T
		}
	}
	var expiry *rx
	for i := range rxs {
		if rxs[i].m.Type == wire.TypeNotification {
			c, s, _ := rxs[i].m.Notif()
			if c == 6 && rxs[i].t >= closeCall && closeCall >= 0 {
				continue // Cease at the final shutdown
			}
			if c != 4 || s != 0 {
				return "unexpected-notification", fmt.Sprintf("received %s at t=%s", rxs[i].m, time.Duration(rxs[i].t))
			}
			if expiry != nil {
				return "two-expiry-notifications", "two Hold Timer Expired notifications"
			}
			expiry = &rxs[i]
		}
	}
	established := cs.Traffic != "silent-openconfirm"
	nEst := w.Count("OnEstablished", "enter", "P1")
	if cs.Prev >= 0 {
		nEst-- // the earlier session
	}
	if established && nEst != 1 {
		return "not-established", fmt.Sprintf("OnEstablished fired %d times (hold times %d/%d)", nEst, cs.Local, cs.Remote)
	}
	lastSent := o.sent[len(o.sent)-1]
	if H == 0 {
		if expiry != nil {
			return "expired-with-hold-zero", fmt.Sprintf("Hold Timer Expired at t=%s although the negotiated hold time is 0", time.Duration(expiry.t))
		}
		if !o.aliveAtEnd || eofT >= 0 && eofT < closeCall {
			return "closed-with-hold-zero", fmt.Sprintf("the session ended at t=%s although the negotiated hold time is 0", time.Duration(eofT))
		}
		nKA := 0
		for _, r := range rxs {
			if r.m.Type == wire.TypeKeepalive {
				nKA++
			}
		}
		if nKA > 1 {
			return "keepalives-with-hold-zero", fmt.Sprintf("%d KEEPALIVEs received although the negotiated hold time is 0", nKA)
		}
		return "", ""
	}
	// expiry: never before lastSent+H of any send; exactly once the remote has been silent for H
	if expiry != nil {
		// find the last message the remote sent before the expiry notification
		prev := int64(-1)
		for _, t := range o.sent {
			if t <= expiry.t {
				prev = t
			}
		}
		tie := false
		for _, t := range o.sent {
			if t == expiry.t {
				tie = true // sent at the very instant of expiry: either order is admissible
			}
		}
		if tie {
			prev = -1
			for _, t := range o.sent {
				if t < expiry.t {
					prev = t
				}
			}
		}
		if prev >= 0 && expiry.t < prev+H {
			return "early-expiry", fmt.Sprintf("Hold Timer Expired at t=%s, only %s after the remote's last KEEPALIVE/UPDATE (hold time %s)", time.Duration(expiry.t), time.Duration(expiry.t-prev), time.Duration(H))
		}
		if expiry.t > prev+H+int64(time.Second) {
			return "late-expiry", fmt.Sprintf("Hold Timer Expired at t=%s, %s after the remote's last message (hold time %s)", time.Duration(expiry.t), time.Duration(expiry.t-prev), time.Duration(H))
		}
		if eofT < 0 || eofT < expiry.t {
			return "no-close-after-expiry", "connection not closed after Hold Timer Expired"
		}
		wantClose := 1
		if cs.Prev >= 0 {
			wantClose = 2
		}
		if established && w.Count("OnClose", "exit", "P1") != wantClose {
			return "onclose-count", "OnClose did not fire exactly once after the expiry"
		}
	} else {
		if eofT >= 0 && (closeCall < 0 || eofT < closeCall) {
			return "unexplained-close", fmt.Sprintf("corebgp closed the connection at t=%s without Hold Timer Expired (hold time %s, remote's last message at t=%s)", time.Duration(eofT), time.Duration(H), time.Duration(lastSent))
		}
		// no expiry seen: the remote must not have been silent for H (+1 s slack) before the end
		if !w.Flag("reader-done") && o.endT-20*int64(time.Second) > lastSent+H+int64(time.Second) {
			return "missing-expiry", fmt.Sprintf("the remote was silent from t=%s on but no Hold Timer Expired arrived within %s (hold time %s)", time.Duration(lastSent), time.Duration(o.endT-lastSent), time.Duration(H))
		}
	}
	// cadence: gaps between consecutive KEEPALIVE/UPDATE sent by corebgp while the session is up
	if established {
		end := o.endT
		if expiry != nil {
			end = expiry.t
		} else if eofT >= 0 {
			end = eofT
		}
		if closeCall >= 0 && closeCall < end {
			end = closeCall
		}
		prev := int64(-1)
		limit := H/3 + int64(time.Second)
		for _, r := range rxs {
			if r.m.Type != wire.TypeKeepalive && r.m.Type != wire.TypeUpdate {
				continue
			}
			if prev >= 0 && r.t-prev > limit && r.t <= end {
				return "keepalive-gap", fmt.Sprintf("corebgp sent nothing between t=%s and t=%s (%s > hold/3 + 1 s = %s)", time.Duration(prev), time.Duration(r.t), time.Duration(r.t-prev), time.Duration(limit))
			}
			prev = r.t
		}
		if prev >= 0 && end-prev > limit {
			return "keepalive-gap", fmt.Sprintf("corebgp sent nothing between t=%s and the end of the session at t=%s (limit %s)", time.Duration(prev), time.Duration(end), time.Duration(limit))
		}
	}
	return "", ""
}

var c06Holds = []int{0, 3, 4, 9, 10, 30, 90, 65535}
var c06Traffic = []string{"silent", "ka-third", "ka-just-before", "ka-at-expiry", "upd-half", "alternate", "silent-openconfirm", "upd-slow-handler", "pair-late"}
var c06Writes = []string{"none", "quarter", "burst", "at-tick"}

func c06Eval(c *harness.Ctx, cs c06Case) {
	w, e, o := c06Run(cs, nil, false)
	rule, msg := basicVerdict(e)
	if rule == "" && e.Reason() == vrt.EndStepCap {
		rule, msg = "step-cap", "execution hit the step cap"
	}
	if rule == "" {
		rule, msg = c06Judge(cs, w, e, o)
	}
	if rule != "" {
		c.Violation(rule, "C06:grid:"+rule, msg, map[string]any{"case": cs, "log": logText(w)})
	}
	e.Finish()
}

func c06Check(c *harness.Ctx) {
	th := c.Thorough()
	idx := 0
	holds := c06Holds
	if th {
		holds = []int{0, 3, 4, 5, 6, 9, 10, 29, 30, 60, 90, 180, 255, 256, 3600, 65534, 65535}
	}
	for _, l := range holds {
		for _, r := range holds {
			for ti, tr := range c06Traffic {
				for wi, wr := range c06Writes {
					for _, legacy := range []bool{false, true} {
						if !th && legacy && (ti+wi)%3 != 0 {
							continue
						}
						idx++
						if !c.Mine(idx) {
							continue
						}
						if c.Expired() {
							return
						}
						cs := c06Case{Local: l, Remote: r, Traffic: tr, Writes: wr, Inbound: (idx/7)%2 == 0, Legacy: legacy, Prev: -1}
						b, _ := json.Marshal(cs)
						c.Eval(b, true)
						if idx%397 == 1 {
							c.Sample(cs)
						}
						c06Eval(c, cs)
					}
				}
			}
		}
	}
	// the judged session is the second one of the peer: nothing of the first negotiation may survive
	for _, l := range []int{0, 9, 90} {
		for _, r := range []int{0, 3, 9, 90} {
			for _, prev := range []int{0, 3, 30} {
				for _, tr := range []string{"silent", "ka-just-before", "upd-half", "silent-openconfirm"} {
					for _, wr := range []string{"none", "burst"} {
						for _, inbound := range []bool{false, true} {
							idx++
							if !c.Mine(idx) {
								continue
							}
							if c.Expired() {
								return
							}
							cs := c06Case{Local: l, Remote: r, Traffic: tr, Writes: wr, Inbound: inbound, Legacy: idx%2 == 0, Prev: prev}
							b, _ := json.Marshal(cs)
							c.Eval(b, true)
							c06Eval(c, cs)
						}
					}
				}
			}
		}
	}
	// a plugin without an UPDATE handler: UPDATEs are traffic all the same
	for _, l := range []int{3, 9, 90} {
		for _, r := range []int{3, 10, 90} {
			for _, tr := range []string{"upd-half", "alternate", "silent", "ka-third"} {
				for _, wr := range []string{"none", "quarter"} {
					idx++
					if !c.Mine(idx) {
						continue
					}
					if c.Expired() {
						return
					}
					cs := c06Case{Local: l, Remote: r, Traffic: tr, Writes: wr, Inbound: idx%2 == 0, Legacy: idx%4 < 2, Prev: -1, NilHandler: true}
					b, _ := json.Marshal(cs)
					c.Eval(b, true)
					c06Eval(c, cs)
				}
			}
		}
	}
	// schedules around expiry and timer coincidences
	bound := 1
	if th {
		bound = 2
	}
	for i, s := range c06AtStepScenarios(bound) {
		if !c.Mine(i) {
			continue
		}
		if c.Expired() {
			return
		}
		if !exploreScn(c, "C06", s) {
			return
		}
	}
	for i, size := range c06RefusedSizes {
		if !c.Mine(i + 11) {
			continue
		}
		if !exploreScn(c, "C06", c06RefusedWriteScn(size, 1)) {
			return
		}
	}
	k := 0
	for _, pair := range [][2]int{{3, 90}, {9, 3}, {0, 90}, {90, 0}, {9, 90}} {
		for _, tr := range c06Traffic {
			for _, wr := range []string{"none", "quarter", "at-tick"} {
				// at-tick with hold 9: two missed intervals (6 s) exceed the tolerated gap (3 + 1 s); with hold 3 they
				// would not (2 s = 1 + 1 s)
				if (wr == "at-tick") != (pair == [2]int{9, 90}) || wr == "at-tick" && tr != "ka-third" && tr != "upd-half" {
					continue
				}
				k++
				if !c.Mine(k) {
					continue
				}
				if c.Expired() {
					return
				}
				cs := c06Case{Local: pair[0], Remote: pair[1], Traffic: tr, Writes: wr, Inbound: k%2 == 0, Prev: -1}
				if !exploreScn(c, "C06", c06Scn(cs, bound)) {
					return
				}
			}
		}
	}
}

// c06ProbeSteps is set by the "probe-steps" baseline run.
var c06ProbeSteps int

// c06AtStepScenarios: hold 9 (keepalive every 3 s), the remote sends KEEPALIVEs every 3 s, and the plugin
// writes ONE UPDATE at step j of the execution, for every j in a window that starts just before the first
// periodic KEEPALIVE is due and covers the FSM's whole keepalive path. Afterwards corebgp must not be
// silent for more than H/3 + 1 s.
// c06RefusedWriteScn: the plugin calls WriteUpdate once a second with a body corebgp may refuse (longer than
// 4077 octets; what a tree does with it is not C06's business: it may send it, or return an error). Whatever
// it does, the KEEPALIVE cadence is relative to what was actually sent: while the session is up corebgp never
// stays silent for longer than a third of the hold time (9 s; 1 s slack). Judged on the raw writes of the
// connection, so that an oversized message on the wire does not matter.
func c06RefusedWriteScn(size, bound int) *Scn {
	name := fmt.Sprintf("refused-write/%d", size)
	return &Scn{Name: name, Bound: bound, Run: func(ch vrt.Chooser, trace bool) *ScnResult {
		var w *world.World
		var estT, endT int64 = -1, -1
		e := vrt.Run(vrt.Config{Horizon: int64(60 * time.Second), Trace: trace, Chooser: ch}, func() {
			w = world.New(libIP)
			w.NewServer(libIP)
			pl := &world.Plugin{W: w, Peer: "P1", NoYield: ch == nil}
			pl.OnEst = func(p *world.Plugin, s int, wr corebgp.UpdateMessageWriter) {
				if s != 1 {
					return
				}
				vrt.GoWorld("local-writer", func() {
					for i := 0; i < 11; i++ {
						vrt.Sleep(time.Second)
						wr.WriteUpdate(make([]byte, size)) // nolint: errcheck
					}
				})
			}
			w.NW.OnDial(remAddr, func(att int, from *net.TCPAddr) vnet.DialOutcome {
				if att > 0 {
					return vnet.DialOutcome{Kind: vnet.DialRefuse}
				}
				return vnet.DialOutcome{Kind: vnet.DialAccept, Serve: func(c *vnet.Conn) {
					r := w.NewRemote(c, "P1")
					defer r.Finish()
					if _, ok := r.Expect(wire.TypeOpen); !ok {
						return
					}
					r.Send(wire.Open(65002, 9, 0x0a000002))
					if _, ok := r.Expect(wire.TypeKeepalive); !ok {
						return
					}
					r.Send(wire.Keepalive())
					estT = vrt.Cur().Now()
					// keeps the session alive, reads nothing more (no window: corebgp's writes never block)
					for i := 0; i < 12; i++ {
						vrt.Sleep(time.Second)
						if c.IsReset() || c.PeerClosed() {
							break
						}
						if _, err := c.Write(wire.Keepalive()); err != nil {
							break
						}
					}
					endT = vrt.Cur().Now()
				}}
			})
			if err := w.AddPeer(peerConfig(remIP, 65001, 65002), pl, corebgp.WithHoldTime(9), corebgp.WithDialerControl(w.DialControl("P1"))); err != nil {
				panic("harness: " + err.Error())
			}
			w.Serve(libAddr)
			vrt.Sleep(14 * time.Second)
			w.Close()
			w.WaitServeDone()
		})
		return finishRun("C06", "refused-write", w, e, trace, false, func() (string, string) {
			if estT < 0 || endT < 0 {
				return "", ""
			}
			var lib *vnet.Conn
			for _, c := range w.NW.Conns {
				if c.Lib && c.ID == 0 {
					lib = c
				}
			}
			end := endT
			if lib.ClosedAt >= 0 && lib.ClosedAt < end {
				end = lib.ClosedAt // the session ended earlier (that is judged elsewhere)
			}
			limit := int64(4 * time.Second)
			prev := estT
			for _, ch := range lib.Chunks {
				if ch.T < estT || ch.T > end {
					continue
				}
				if ch.T-prev > limit {
					return "keepalive-gap", fmt.Sprintf("corebgp wrote nothing between t=%s and t=%s although the session (hold time 9 s) was up: WriteUpdate calls that send nothing must not postpone the KEEPALIVE", time.Duration(prev), time.Duration(ch.T))
				}
				prev = ch.T
			}
			if end-prev > limit {
				return "keepalive-gap", fmt.Sprintf("corebgp wrote nothing between t=%s and t=%s although the session (hold time 9 s) was up: WriteUpdate calls that send nothing must not postpone the KEEPALIVE", time.Duration(prev), time.Duration(end))
			}
			return "", ""
		}, nil)
	}}
}

var c06RefusedSizes = []int{4078, 5000, 70000}

func c06AtStepScenarios(bound int) []*Scn {
	base := c06Case{Local: 9, Remote: 90, Traffic: "ka-third", Writes: "probe-steps", Inbound: true, Prev: -1}
	c06ProbeSteps = 0
	_, e, _ := c06Run(base, &vrt.ReplayChooser{}, false) // with a chooser: the plugin callbacks yield, as in the explored runs
	e.Finish()
	s0 := c06ProbeSteps
	if os.Getenv("VERIF_DEBUG") != "" {
		fmt.Fprintln(os.Stderr, "c06 at-step: s0 =", s0)
	}
	if s0 == 0 {
		return nil
	}
	var out []*Scn
	for j := s0 - 8; j <= s0+30; j++ {
		cs := base
		cs.Writes = fmt.Sprintf("at-step:%d", j)
		b := bound
		if j >= s0-6 && j <= s0+6 && b < 2 {
			// the steps of the keepalive path itself (tick received, KEEPALIVE written, timer restarted): the
			// write still has to overtake the FSM to get its own restart in first
			b = 2
		}
		out = append(out, c06Scn(cs, b))
	}
	return out
}

func c06Scn(cs c06Case, bound int) *Scn {
	b, _ := json.Marshal(cs)
	return &Scn{Name: "schedule/" + string(b), Bound: bound, Run: func(ch vrt.Chooser, trace bool) *ScnResult {
		if ch == nil {
			ch = &vrt.ReplayChooser{}
		}
		w, e, o := c06Run(cs, ch, trace)
		return finishRun("C06", "schedule", w, e, trace, false, func() (string, string) { return c06Judge(cs, w, e, o) }, nil)
	}}
}

func init() {
	harness.Register(&harness.Check{
		Property: "C06", Level: "exploration", NeedsConc: true, QuickS: 200, ThoroughS: 1200,
		Rule:   "grid of local hold x remote hold over {0,3,4,9,10,30,90,65535}^2 x remote traffic {silent, KEEPALIVE every H/3, every H-1ns, exactly at H, UPDATE every H/2, alternating at 2H/3, silent in OpenConfirm, pairs of messages 0.9 s / 0.5 s / 1 ns apart followed by silence of H-1ns} x local writes {none, every H/4, burst} x both Go timer-channel semantics, each one run of the real FSM in virtual time over 3H (10x65535 s for H=0) with time-stamped observations; plus all schedules within the delay bound (1 quick / 2 thorough) for 4 hold pairs x traffic x writes; plus the judged session as the second session of the peer after one that negotiated another value, and a handler that is slow around the expiry instant; all cases non-trivial and distinct",
		Assume: []string{"virtual clock: computation takes zero time; timers due at the same instant fire in either order only under schedule exploration", "handlers return in zero time", "cadence limit hold/3 + 1 s"},
		Run:    c06Check,
		Replay: func(c *harness.Ctx, raw json.RawMessage) {
			var r struct {
				Case     *c06Case `json:"case"`
				Scenario string   `json:"scenario"`
			}
			if err := json.Unmarshal(raw, &r); err != nil {
				panic(err)
			}
			if r.Case != nil {
				c06Eval(c, *r.Case)
				return
			}
			scnReplay("C06", func(name string) *Scn {
				var size int
				if n, _ := fmt.Sscanf(name, "refused-write/%d", &size); n == 1 {
					return c06RefusedWriteScn(size, 2)
				}
				if !strings.HasPrefix(name, "schedule/") {
					return nil
				}
				var cs c06Case
				if json.Unmarshal([]byte(name[len("schedule/"):]), &cs) != nil {
					return nil
				}
				return c06Scn(cs, 3)
			})(c, raw)
		},
	})
}
