package props

import (
	"bytes"
	"fmt"
	"time"

	"github.com/jwhited/corebgp"

	"corebgpverif/vnet"
	"corebgpverif/vrt"
	"corebgpverif/wire"
	"corebgpverif/world"
)

// c14TwoPeersScn: two passive peers with different local AS numbers, hold times and capability lists are
// connected to at the same instant, so that their two OPENs are built and written by two FSM goroutines
// side by side. Under every schedule within the bound each connection's first message is the OPEN of ITS
// peer. (The virtual connection's Write has its scheduling point before it takes the caller's octets, as an
// io.Writer may: an OPEN whose buffer is shared with, or handed back to, something that the other FSM reuses
// meanwhile arrives as the other peer's OPEN, or as a mixture whose length octets disagree.)
func c14TwoPeersScn(bound int, hold2 uint16) *Scn {
	type want struct {
		as   uint32
		hold uint16
		caps []wire.Cap
	}
	cfg := map[string]want{
		"P1": {65001, 90, []wire.Cap{wire.Cap4(65001), {Code: 1, Value: []byte{0, 1, 0, 1}}}},
		"P2": {4200000000, hold2, []wire.Cap{wire.Cap4(4200000000), {Code: 2, Value: nil}, {Code: 73, Value: []byte("corebgp-two")}}},
	}
	name := fmt.Sprintf("two-peers-open/hold%d", hold2)
	return &Scn{Name: name, Bound: bound, NoCache: true, Run: func(ch vrt.Chooser, trace bool) *ScnResult {
		var w *world.World
		first := map[string]*wire.Msg{}
		ferr := map[string]error{}
		e := vrt.Run(vrt.Config{Horizon: int64(5 * time.Second), Race: true, Trace: trace, Chooser: ch}, func() {
			w = world.New(libIP)
			w.NewServer(libIP)
			for _, pn := range []string{"P1", "P2"} {
				c := cfg[pn]
				pl := &world.Plugin{W: w, Peer: pn}
				for _, k := range c.caps[1:] {
					pl.Caps = append(pl.Caps, corebgp.Capability{Code: k.Code, Value: append([]byte(nil), k.Value...)})
				}
				ip, ras := remIP, uint32(65002)
				if pn == "P2" {
					ip, ras = remIP2, 65003
				}
				var err error
				if pn == "P1" {
					err = w.AddPeer(peerConfig(ip, c.as, ras), pl, corebgp.WithPassive(), corebgp.WithHoldTime(c.hold))
				} else {
					err = w.Server.AddPeer(peerConfig(ip, c.as, ras), pl, corebgp.WithPassive(), corebgp.WithHoldTime(c.hold))
				}
				if err != nil {
					panic("harness: " + err.Error())
				}
			}
			w.Serve(libAddr)
			var conns []*vnet.Conn
			for i, from := range []string{"10.0.0.2:40001", "10.0.0.3:40002"} {
				c, err := w.NW.DialIn(from, libAddr)
				if err != nil {
					panic("harness: " + err.Error())
				}
				conns = append(conns, c)
				_ = i
			}
			for i, c := range conns {
				c, pn := c, []string{"P1", "P2"}[i]
				vrt.GoWorld("remote-"+pn, func() {
					r := w.NewRemote(c, pn)
					r.Deadline(2 * time.Second)
					m, err := r.ReadMsg()
					if err == nil {
						first[pn] = &m
					} else {
						ferr[pn] = err
					}
					r.C.Close()
					r.Finish()
					w.SetFlag("done-" + pn)
				})
			}
			w.WaitFlag("done-P1")
			w.WaitFlag("done-P2")
			w.Close()
			w.WaitServeDone()
		})
		return finishRun("C14", name, w, e, trace, true, func() (string, string) {
			for _, pn := range []string{"P1", "P2"} {
				c, m := cfg[pn], first[pn]
				if m == nil {
					return "no-open", fmt.Sprintf("%s: no complete first message (%v)", pn, ferr[pn])
				}
				if m.Type != wire.TypeOpen {
					return "first-message-not-open", pn + ": first message is " + m.String()
				}
				o, err := wire.ParseOpenStrict(m.Body)
				if err != nil {
					return "malformed-open", fmt.Sprintf("%s: OPEN on the wire is malformed: %v (body %x)", pn, err, trunc(m.Body))
				}
				if o.AS != wire.AS2(c.as) || o.Hold != c.hold || o.ID != 0x0a000001 || o.Version != 4 {
					return "other-peers-open", fmt.Sprintf("%s: OPEN carries version %d AS %d hold %d id %s; configured AS %d hold %d", pn, o.Version, o.AS, o.Hold, ip4(o.ID), c.as, c.hold)
				}
				if got := o.AllCaps(); !bytes.Equal(capBytes(got), capBytes(c.caps)) || len(got) != len(c.caps) {
					return "capabilities", fmt.Sprintf("%s: capabilities on the wire %x, expected %x", pn, trunc(capBytes(got)), trunc(capBytes(c.caps)))
				}
			}
			return "", ""
		}, nil)
	}}
}
