#!/bin/bash
# usage: tools/seedbatch.sh "c06 E" "c06 F" ...   confirms, keeps and runs each seed; one line per seed
cd /verif
for s in "$@"; do python3 tools/seed.py $s --keep > /tmp/sr.$$.json 2>&1; python3 - "$s" /tmp/sr.$$.json <<'PY'
import json,sys
try:
    d=json.load(open(sys.argv[2]))
    print(sys.argv[1], d['existing_tests_with_change'], d.get('demo_with_change'),'/',d.get('demo_without_change'), {p:(v['detected'],v['signatures'][:2],v['engine']) for p,v in d['checks'].items()})
except Exception as e:
    print(sys.argv[1],'ERR',open(sys.argv[2]).read()[-500:])
PY
done; rm -f /tmp/sr.$$.json
