#!/bin/bash
# Re-confirms every kept seeded change and runs its property's quick check against it; writes seeded/MATRIX.md.
cd /verif
out=seeded/MATRIX.md
echo "| seed | property | existing tests | demo with / without | check | detected | signatures |" > $out.tmp
echo "|---|---|---|---|---|---|---|" >> $out.tmp
for d in seeded/c*-*; do
  id=$(basename $d | cut -d- -f1); var=$(basename $d | cut -d- -f2)
  python3 tools/seed.py $id $var --keep > /tmp/seedrun.$$.json 2>/dev/null
  python3 - "$id" "$var" /tmp/seedrun.$$.json >> $out.tmp <<'PY'
import json,sys
id,var,f=sys.argv[1:4]
try:
    d=json.load(open(f))
except Exception as e:
    print(f"| {id}-{var} | | ERROR {e} | | | | |"); sys.exit()
for p,v in d['checks'].items():
    print(f"| {id}-{var} | {p} | {d['existing_tests_with_change']} | {d.get('demo_with_change')} / {d.get('demo_without_change')} | {p} {v['tier']} | {'yes' if v['detected'] else 'NO'} | {', '.join(v['signatures'][:3])} {' '.join(v['engine'])} |")
PY
done
cat >> $out.tmp <<'EOF'

Notes: c19-J (prefix decoders return `Prefix.Masked()`) is deliberately not reported: the reference compares the
leading `length` bits only, because RFC 4271 4.3 calls the value of the trailing bits irrelevant (DESIGN.md 10.2).
EOF
mv $out.tmp $out; rm -f /tmp/seedrun.$$.json
