#!/bin/bash
# usage: tools/run_all.sh quick|thorough [props...]  — runs the checks one after another, prints one summary line each
export GOFLAGS=-mod=mod GOPROXY=off GOSUMDB=off GOTOOLCHAIN=local
tier=$1; shift
props=${@:-C01 C02 C03 C04 C05 C06 C07 C08 C09 C10 C11 C12 C13 C14 C15 C16 C17 C18 C19 C20}
cd "$(dirname "$0")/.."
for p in $props; do
  s=$(date +%s)
  out=$(./bin/vcheck run $p --tier $tier 2>&1); rc=$?
  echo "$p rc=$rc $(( $(date +%s) - s ))s | $(echo "$out" | grep -E "$tier:" | cut -c1-200)"
  echo "$out" | grep -E "VIOLATION|ENGINE|^  \[|^  rule" | cut -c1-300
done
