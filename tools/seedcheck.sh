#!/bin/bash
# usage: tools/seedcheck.sh <id> <variant> [tier] [extra props...]
# Confirms a seeded change delivered under /tmp/seed/ (patch applies, compiles, repository tests pass, the
# demonstration fails with it and passes without it), then runs the property's check against it.
# Everything happens in scratch copies outside /repo and /verif; they are removed afterwards.
export GOFLAGS=-mod=mod GOPROXY=off GOSUMDB=off GOTOOLCHAIN=local
id=$1; var=$2; tier=${3:-quick}; shift 3 2>/dev/null
P=$(echo $id | tr a-z A-Z)
patch=/tmp/seed/$id.$var.patch.diff; demo=/tmp/seed/$id.$var.demo_test.go
[ -f $patch ] || { echo "no patch $patch"; exit 2; }
base=$(mktemp -d /tmp/sc.XXXXXX); with=$base/with; without=$base/without
git -C /repo archive HEAD | (mkdir -p $with && tar -x -C $with)
cp -r $with $without
( cd $with && git init -q . 2>/dev/null; git apply --whitespace=nowarn $patch ) || { echo "PATCH-DOES-NOT-APPLY"; rm -rf $base; exit 2; }
echo "== build/tests with change"; ( cd $with && go build ./... 2>&1 | head -5; go test -vet=off -count=1 . 2>&1 | tail -1 )
if [ -f $demo ]; then
  cp $demo $with/seeded_demo_test.go; cp $demo $without/seeded_demo_test.go
  echo "== demo WITH change (expected FAIL)";    ( cd $with    && timeout 300 go test -vet=off -count=1 -run TestSeededDemo . 2>&1 | tail -3 )
  echo "== demo WITHOUT change (expected ok)";   ( cd $without && timeout 300 go test -vet=off -count=1 -run TestSeededDemo . 2>&1 | tail -1 )
  rm -f $with/seeded_demo_test.go
fi
for p in $P "$@"; do
  echo "== check $p ($tier) against the change"
  VERIF_REPO=$with /verif/bin/vcheck run $p --tier $tier 2>&1 | grep -E "VIOLATION|sig=|ENGINE|$tier:" | cut -c1-220 | head -8
done
rm -rf $base
