#!/bin/bash
# usage: tools/mut.sh <file> <python-re-pattern> <replacement> <PROP> [PROP...]
# Applies one textual mutation to a scratch copy of /repo, checks that it
# compiles and that the repository's own tests still pass, then runs the given
# checks against it (VERIF_REPO). The scratch copy is removed afterwards.
export GOFLAGS=-mod=mod GOPROXY=off GOSUMDB=off GOTOOLCHAIN=local
f=$1; pat=$2; rep=$3; shift 3
d=$(mktemp -d /tmp/mut.XXXXXX)
cp -r /repo/. $d/ && rm -rf $d/.git
python3 - "$d/$f" "$pat" "$rep" <<'PY'
import re,sys
p,pat,rep=sys.argv[1:4]
s=open(p).read()
n,k=re.subn(pat,rep,s,count=1,flags=re.S)
if k!=1: print("MUTATION DID NOT APPLY"); sys.exit(2)
open(p,'w').write(n)
PY
[ $? -ne 0 ] && { rm -rf $d; exit 2; }
( cd $d && go build ./... 2>&1 | head -5 && go test -vet=off -count=1 . 2>&1 | tail -1 )
for p in "$@"; do
  VERIF_REPO=$d /verif/bin/vcheck run $p 2>&1 | grep -E "VIOLATION|sig=|ENGINE|KNOWN|quick:" | head -6
done
rm -rf $d
