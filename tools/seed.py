#!/usr/bin/env python3
"""usage: tools/seed.py <id> <variant> [--tier quick|thorough] [--props C07,C10] [--keep]
Confirms a seeded change delivered under /tmp/seed/ in scratch copies outside /repo and /verif (patch applies
to /repo HEAD, compiles, the repository's tests pass, the demonstration fails with it and passes without it),
runs the given checks against it (VERIF_REPO), and with --keep stores it as /verif/seeded/<id>-<variant>/."""
import json, os, subprocess, sys, tempfile, shutil, argparse
ENV = dict(os.environ, GOFLAGS='-mod=mod', GOPROXY='off', GOSUMDB='off', GOTOOLCHAIN='local')
def sh(cmd, cwd=None, timeout=1800):
    p = subprocess.run(cmd, shell=True, cwd=cwd, env=ENV, stdout=subprocess.PIPE, stderr=subprocess.STDOUT, timeout=timeout)
    return p.returncode, p.stdout.decode(errors='replace')
ap = argparse.ArgumentParser(); ap.add_argument('id'); ap.add_argument('variant'); ap.add_argument('--tier', default='quick'); ap.add_argument('--props'); ap.add_argument('--keep', action='store_true'); ap.add_argument('--src', default=None)
a = ap.parse_args()
pid = a.id.upper(); props = a.props.split(',') if a.props else [pid]
src = a.src or ('/tmp/seed7' if a.variant in 'MN' else '/tmp/seed6' if a.variant in 'KL' else '/tmp/seed5' if a.variant in 'IJ' else '/tmp/seed4' if a.variant in 'GH' else '/tmp/seed3' if a.variant in 'EF' else '/tmp/seed2' if a.variant in 'CD' else '/tmp/seed')
patch = f'{src}/{a.id}.{a.variant}.patch.diff'; demo = f'{src}/{a.id}.{a.variant}.demo_test.go'; metaf = f'{src}/{a.id}.{a.variant}.meta.json'
kept = f'/verif/seeded/{a.id}-{a.variant}'
if not os.path.exists(patch) and os.path.exists(kept + '/patch.diff'):
    patch, demo, metaf = kept + '/patch.diff', kept + '/seeded_demo_test.go', kept + '/meta.json'
base = tempfile.mkdtemp(prefix='sc.', dir='/tmp'); w, wo = base + '/with', base + '/without'
os.makedirs(w); sh(f'git -C /repo archive HEAD | tar -x -C {w}'); shutil.copytree(w, wo)
rec = {'repo_commit': sh('git -C /repo rev-parse --short HEAD')[1].strip()}
rc, out = sh(f'git init -q . ; git apply --whitespace=nowarn {patch}', cwd=w)
if rc != 0:
    print('PATCH-DOES-NOT-APPLY', out); shutil.rmtree(base); sys.exit(2)
rc, out = sh('go build ./... && go test -vet=off -count=1 ./...', cwd=w)
rec['existing_tests_with_change'] = 'pass' if rc == 0 else 'FAIL: ' + out[-300:]
if os.path.exists(demo):
    shutil.copy(demo, w + '/seeded_demo_test.go'); shutil.copy(demo, wo + '/seeded_demo_test.go')
    rc1, o1 = sh('go test -vet=off -count=1 -run TestSeededDemo .', cwd=w, timeout=900)
    rc2, o2 = sh('go test -vet=off -count=1 -run TestSeededDemo .', cwd=wo, timeout=900)
    rec['demo_with_change'] = 'fails' if rc1 != 0 else 'PASSES (not demonstrated)'
    rec['demo_without_change'] = 'passes' if rc2 == 0 else 'FAILS: ' + o2[-300:]
    os.remove(w + '/seeded_demo_test.go')
rec['checks'] = {}
for p in props:
    rc, out = sh(f'VERIF_REPO={w} /verif/bin/vcheck run {p} --tier {a.tier}', cwd='/verif', timeout=3600)
    sigs = sorted({l.split('sig=')[1].strip() for l in out.splitlines() if 'sig=' in l})
    eng = [l for l in out.splitlines() if 'ENGINE' in l]
    rec['checks'][p] = {'tier': a.tier, 'exit': rc, 'detected': rc == 1, 'signatures': sigs[:8], 'engine': eng[:3]}
shutil.rmtree(base)
print(json.dumps(rec, indent=1))
if a.keep:
    os.makedirs(kept, exist_ok=True)
    if patch != kept + '/patch.diff':
        shutil.copy(patch, kept + '/patch.diff')
        if os.path.exists(demo): shutil.copy(demo, kept + '/seeded_demo_test.go')
    meta = json.load(open(metaf)) if os.path.exists(metaf) else {}
    meta.setdefault('property', pid); meta.setdefault('variant', a.variant)
    runs = meta.get('confirmation_runs', []); runs.append(rec); meta['confirmation_runs'] = runs
    meta['how_confirmed'] = 'tools/seed.py: scratch copies of /repo HEAD outside /repo and /verif; git apply; go build; go test -vet=off -count=1 ./...; demonstration run with and without the change; checks run with VERIF_REPO pointing at the changed copy'
    json.dump(meta, open(kept + '/meta.json', 'w'), indent=1)
