#!/usr/bin/env python3
"""Regenerates /verif/MANIFEST.json from the table below and validates it."""
import json, sys

CHECKS = {
 "C02": dict(level="exploration", design="4/C02",
   technique="bounded-exhaustive input enumeration through the virtual wire into the real FSM (vrt runtime, default schedule) vs independent reference predicate",
   text="Every OPEN body of a finite, explicitly enumerated space (boundary product of all fixed fields x optional-parameter/capability layouts incl. length-octet mutations and truncations x configurations x both directions) is sent to the real, rewritten corebgp FSM over the virtual network and the observed reaction (KEEPALIVE/OnOpenMessage/Established or the single NOTIFICATION+EOF) is compared with an independent RFC-derived acceptability predicate with set-valued admissible reactions. Exhaustive inside the stated alphabets; says nothing about values outside them. A quarter of the bodies are sent 1.5 s after the remote could have sent them (acceptability does not depend on when the OPEN arrives), combined with local hold time 0 and 90.",
   note="trusted: vinstr rewriting (validated by running the repository's tests on the rewritten package), vrt/vnet semantics, refmodel.JudgeOpen; default schedule only"),
 "C08": dict(level="exploration", design="4/C08",
   technique="bounded-exhaustive enumeration of faulty headers / segmentations / states through the virtual wire into the real FSM vs RFC 4271 6.1 reaction table; every case (quick: every 10th) is also replayed against the unrewritten package on the Go runtime over loopback TCP and the transcripts compared (conformance of the virtual runtime)",
   text="Every single-octet marker corruption, every out-of-range length of a boundary set (all 65536 values are partitioned into <19, in range, >4096 with the boundaries and a stride sweep), every unknown type octet, at each of OpenSent/OpenConfirm/Established and both directions, preceded by well-formed messages that must take effect and followed by a well-formed UPDATE that must not, under several TCP segmentations (incl. 1-byte writes); plus every in-range UPDATE length in Established delivered byte-exact and every plugin-returned NOTIFICATION data length 0..4075 reaching the wire verbatim. One real FSM run per case under the deterministic runtime. Headers with several faults (the marker fault dominates), KEEPALIVE-typed messages with bodies, bytes left over by an ended connection, other session configurations (hold 0 on either side, iBGP, a peer advertising capability 6), two peers receiving at once and a header fault while plugin goroutines are writing (schedules within the bound).",
   note="trusted: vinstr/vrt/vnet, wire.ParseStrict; default schedule only; data of (1,1)/(1,2) not judged"),
 "C09": dict(level="exploration", design="4/C09",
   technique="exhaustive enumeration of the (state, message, direction) table and received NOTIFICATION/FIN/RST faults through the virtual wire into the real FSM; every case (quick: every 10th) is also replayed against the unrewritten package on the Go runtime over loopback TCP and the transcripts compared (conformance of the virtual runtime)",
   text="All 3 states x {OPEN, UPDATE, KEEPALIVE} x 2 directions, received NOTIFICATIONs (codes 1-7 x subcodes x data lengths), FIN and RST also in mid-message: each cell is one real FSM run judged against the RFC 4271 8.2.2 / RFC 6608 table (legal progress, FSM error with state subcode and type octet, silent close), OnClose exactly once for Established cells. The table is finite and enumerated completely. Also semantically invalid OPENs in later states, 4096-octet messages, the table on the second session of a peer, other session configurations, a slow OnClose, and stimuli late in a session with running timers and a plugin write in between. The reaction to a NOTIFICATION / FIN / RST in Established is also exercised while plugin goroutines are blocked in WriteUpdate behind a full window (stalled-writer scenarios, all schedules within 1 deviation).",
   note="trusted: vinstr/vrt/vnet; default schedule only"),
 "C14": dict(level="exploration", design="4/C14",
   technique="bounded-exhaustive enumeration of configurations and plugin capability lists; first message of each real connection parsed by an independent strict OPEN parser",
   text="Product of boundary local AS / hold time / router id values with all capability lists up to depth 2 (quick) / 3 (thorough) over a code x length alphabet, totals around the 255-octet limits and unrepresentable lists, both connection directions; the OPEN the real FSM writes is parsed strictly (all four nested lengths) and compared field by field with the configuration. Also the OPEN of a second connection (after another negotiated hold time, with the plugin handing out the same list again or editing its values in place) and router ids in IPv4-mapped form. The judged OPEN is also that of a second connection after a first one that ended in OpenSent or OpenConfirm, by the close of the remote or by its NOTIFICATION (2,4) (then after the hold-down). Scenario two-peers-open: two peers with different AS, hold time and capabilities connected to at the same instant, every schedule within 2 delays run to its end without the happens-before cache, each first message judged against its own peer.",
   note="trusted: vinstr/vrt/vnet, wire.ParseOpenStrict; default schedule except scenario two-peers-open (delay bound 2); seeded change c14-O (pooled OPEN buffer reused before it is written) is NOT detected, see DESIGN 10.2"),
 "C01": dict(level="model_checking", design="4/C01",
   technique="stateless model checking of the implementation: delay-bounded exhaustive schedule exploration with happens-before caching, callback-history automaton on every execution",
   text="The real corebgp (mechanically rewritten onto the vrt scheduler) is executed over the product of connection scripts (8 failure/success scripts on the first inbound and the first outbound connection), identifier dominance, active/passive mode, API tails (Close, DeletePeer, DeletePeer+AddPeer) and trigger points; for each scenario every schedule within the delay bound is enumerated and a monitor automaton checks OnEstablished/OnClose alternation and non-overlap, handler placement, GetCapabilities/OnOpenMessage per connection and session markers per connection. Complete inside the bound and the scenario set, silent outside. Also: concurrent second API calls swept over the steps of DeletePeer/Close, several peers, a duplicate OPEN on one connection, twins of the scenarios under the legacy timer-channel semantics, with hold time 0 and with one plugin callback taking virtual time.",
   note="trusted: vinstr/vrt/vnet; bound 1 (quick) / 2 (thorough) deviations from the canonical schedule"),
 "C07": dict(level="model_checking", design="4/C07",
   technique="stateless model checking of the implementation: delay-bounded exhaustive schedule exploration of scripted two-connection collision scenarios; the 20 forced-collision cases are also run on the Go runtime over loopback TCP against the unrewritten package and the outcomes compared (traces_validated_against_impl)",
   text="For 4 identifier/AS configurations x both arrival orders x 4 scenario shapes the remote's script forces a collision (or a precedence situation) and all schedules within the delay bound (2 quick / 3 thorough) of the two FSMs, manager, readers are enumerated on the real code; the oracle names the connection that must survive per RFC 4271 6.8 / RFC 6286 and requires Cease+EOF on the other, an untouched survivor that establishes and still delivers UPDATEs. Further shapes: the remote resolves the collision itself, a second collision with the other side dominant, a collision after an aborted inbound attempt, a misbehaving connection showing up while a session is Established; identifier pairs far apart and pairs whose order flips under octet reversal; legacy-timer, hold-0 and slow-callback twins.",
   note="trusted: vinstr/vrt/vnet; dominance judged only where the remote's script removes TCP-level ambiguity"),
 "C10": dict(level="model_checking", design="4/C10",
   technique="stateless model checking of the implementation: API call injected at every step index x delay-bounded schedule exploration, vector-clock data-race detection on every execution",
   text="Close/DeletePeer is issued at every step index of the default execution (and at the first quiescent point) of 14 connection scripts covering every FSM state in both directions, collision, damping, active writers, reconnect and a by-stander peer; around each trigger all schedules within the delay bound are enumerated on the real code. Oracles: bounded virtual latency, Serve return value, every library connection closed, Cease before EOF on healthy connections, callback monitor, goroutine-leak rule at a post-return quiescent cut, and a FastTrack-style race detector fed by instrumented field/array/map accesses on every execution. Also Close with a concurrent AddPeer or an arriving connection, bursts of inbound connections, hold-time-0 peers, a plugin whose capabilities cannot be encoded (every dial accepted, no OPEN ever sent, redial after each idle hold time: every one of those connections closed at return), a peer that stopped reading on a bounded-window network (known finding D16), API calls landing inside a slow plugin callback. Two shutdown calls at once (DeletePeer || Close, Close || Close at a swept offset, also with a 300 ms callback in the way) are judged at the return of Close by the callback monitor; goroutines that a serving server without peers keeps are learnt from the tree under test.",
   note="trusted: vinstr/vrt/vnet; race detector scope A5; bound 1 (quick) / 2 (thorough)"),
 "C15": dict(level="exploration", design="4/C15",
   technique="bounded-exhaustive input enumeration of codec values and byte strings vs independent reference encoder / strict parser (white-box through a generated export shim)",
   text="All (code, subcode) x short data and every data length 0..4075 for NOTIFICATION, boundary products of OPEN fields x parameter/capability layouts incl. the 255-octet limits, all byte strings up to length 7 over a protocol alphabet and all single-octet substitutions/length mutations/truncations for the decoders, all add-path tuple lists up to 3 and the full AFI x SAFI grid: round-trip both ways, equality with a reference encoding, strictness against wire.ParseOpenStrict. A wrapper of the export shim that no longer compiles against the tree under test is replaced by its stub; the check then judges what it can still reach, names the stubbed wrappers and reports exhaustive=false.",
   note="trusted: the trivial wrappers in export/zz_verif_export.go.txt, refmodel/codec.go, wire"),
 "C18": dict(level="exploration", design="4/C18",
   technique="bounded-exhaustive input enumeration of the 11 exported attribute decoders vs an RFC-derived reference table",
   text="Per decoder: all 256 flag octets x values (all short values, every length 0..72 and boundary lengths to 4096, every octet of a well-sized value over all 256 values), AS_PATH segment lists up to 3 with every truncation, multiples/non-multiples for set attributes; oracle = (Optional, Transitive, length/value rule, RFC 7606 approach, RFC 4271 subcode) table with set-valued verdicts where two faults coincide.",
   note="trusted: refmodel/attrs.go; D12 (ATOMIC_AGGREGATE Optional bit) is a recorded known finding"),
 "C19": dict(level="exploration", design="4/C19",
   technique="bounded-exhaustive input enumeration of prefix-list and MP splitters vs an independent reference codec",
   text="All IPv4 prefix lists up to 3 / IPv6 up to 2 with every length, add-path ids, every truncation and length-octet corruption through all seven exported entry points; MP_REACH for every next-hop length octet 0..255 x body-length relations x flags, MP_UNREACH, IPv6 next hops of every length: exact (id, length, leading bits) sequences, whole-field consumption, failure conditions and notifications.",
   note="trusted: refmodel/prefix.go"),
 "C03": dict(level="exploration", design="4/C03",
   technique="bounded-exhaustive enumeration of message sequences x TCP segmentations through the virtual wire into the real reader/FSM/handler, plus delay-bounded schedule exploration for short streams",
   text="All sequences of up to 3 (quick) / 4 (thorough) messages over {KEEPALIVE, UPDATE of 0,1,4,23,4077 bytes} crossed with fixed write sizes (incl. 1-byte writes), every partition with up to two cut points from a dense position set, read coalescing on/off and both directions; handler notifications at the j-th UPDATE; the handler log must equal the sent bodies (once, in order, byte-exact), delivered slices are re-compared at the end and must not alias; reader/FSM/handler interleavings within the delay bound for the short streams. Also bulk runs of hundreds of messages, slow and echoing handlers, hold time 0, a handler outlasting the hold time, and two peers receiving split-header streams at the same instant under all schedules within the bound.",
   note="trusted: vinstr/vrt/vnet; segmentation model A3"),
 "C04": dict(level="model_checking", design="4/C04",
   technique="stateless model checking of the implementation: delay-bounded exhaustive schedule exploration of concurrent WriteUpdate callers vs keepalive timer vs teardown, strict frame parser on all written bytes, race detector",
   text="WriteUpdate from inside OnEstablished, from inside the handler and from 1-3 free goroutines, timed to coincide with the keepalive timer and with FIN / received NOTIFICATION / handler NOTIFICATION / Close, followed by reconnection and reuse of the old writers; all schedules within the delay bound on the real code; every byte corebgp wrote is parsed strictly per connection and matched as a multiset and per-goroutine order against the calls' return values. Also a stalled reader on a bounded-window network, a plugin whose OnClose joins its writers, two peers with a writer each, writes from inside the handler after an RST, and a header fault arriving while writers are active. Scenario family stalled-writer: on a bounded-window network the remote stops reading until the writers block inside WriteUpdate, then ends the session (NOTIFICATION, FIN or RST); one second later the connection is closed, OnClose has returned and every blocked call has been released. A trailing fragment is not counted against corebgp where the peer itself cut the connection under a message in flight (next write of the same goroutine refused with EPIPE, nothing written after); net.Buffers on a virtual connection is one vectored write, as on a TCP connection. The free-writer scenarios are also run on connections that reach corebgp as a plain net.Conn (not *net.TCPConn; net.Buffers degrades to one Write per buffer).",
   note="trusted: vinstr/vrt/vnet; Write atomicity assumption A3"),
 "C06": dict(level="exploration", design="4/C06",
   technique="bounded-exhaustive enumeration of (local hold, remote hold, traffic pattern, write pattern, timer semantics) in virtual time on the real FSM, plus delay-bounded schedule exploration around expiry; thorough tier: 48 cases are also run in real time on the Go runtime over loopback TCP and the timelines compared with the virtual ones (conformance of the virtual clock)",
   text="The 8x8 hold-time grid x 7 remote traffic patterns (incl. KEEPALIVE 1 ns before and exactly at expiry) x 3 local write patterns x both Go timer-channel semantics, each run for 3 hold times of virtual time (10x65535 s for hold 0) with time-stamped wire observations: negotiated value, no early expiry, expiry with (4,0)+EOF after silence, keepalive/UPDATE cadence <= hold/3 + 1 s, hold 0 never expires and sends no periodic KEEPALIVEs. Also second sessions after a session with another hold time, nil handlers, a slow handler around expiry, and one WriteUpdate at every step of the FSM's keepalive path. Traffic pair-late: a message 0.9 s / 0.5 s / 1 ns after the previous one, then silence of H-1ns. Scenario refused-write: WriteUpdate with bodies over 4077 octets once a second; while the session is up the connection is never silent for longer than hold/3 + 1 s (raw writes).",
   note="trusted: vinstr/vrt virtual clock; zero-time computation A4"),
 "C16": dict(level="exploration", design="4/C16",
   technique="bounded-exhaustive input enumeration of UpdateDecoder.Decode vs an independent reference partitioner",
   text="All byte strings up to length 7 (quick) / 9 (thorough) over a 12-symbol protocol alphabet, a grammar-generated set with length-field mutations, 4077-byte bodies and bodies above 65535 bytes for all boundary pairs of the two length fields; recorded callback arguments must equal the reference partition (withdrawn, each attribute with type/flags/value, NLRI), duplicate suppression, MP duplicate abort, overrun rules, no callback on message-level overrun, no panic. Also pairs of bodies decoded by one decoder at the same time (the inner one inside a callback of the outer one).",
   note="trusted: refmodel/update.go"),
 "C17": dict(level="exploration", design="4/C17",
   technique="bounded-exhaustive enumeration of UPDATE bodies x callback behaviours x error trees vs a reference RFC 7606 classifier",
   text="The C16 inputs with nil callbacks (nil-vs-error boundary), the grammar set crossed with 8 callback behaviours on the first three invocations, and all error trees up to 6 (quick) / 7 (thorough) nodes for UpdateNotificationFromErr: nil iff consistent, mandatory attributes present and callbacks nil; every callback error kept; decoding stops at the first Notification-class event; strongest class as prescribed; severity walk equals the reference.",
   note="trusted: refmodel/update.go"),
 "C11": dict(level="fault_enumeration", design="4/C11",
   technique="exhaustive enumeration of fault histories up to a length, each executed on the real FSM in virtual time; delay-bounded schedule exploration for short histories",
   text="All histories of length <=3 (quick) / <=4 (thorough) over 12 transport-level faults (refusal, stalled connect, FIN/RST/Cease at three handshake stages, inbound session then FIN) x three (idle-hold, connect-retry) settings x active/passive x both timer semantics, each followed by a well-behaved remote: re-establishment within idle-hold + connect-retry + 1 s of the last fault, idle-hold spacing of refused attempts, redial at connect-retry expiry, immediate redial after an inbound session, no dial by passive peers; dial attempts observed through WithDialerControl in virtual time.",
   note="trusted: vinstr/vrt virtual clock, vnet dial scripts"),
 "C12": dict(level="fault_enumeration", design="4/C12",
   technique="exhaustive enumeration of error / non-damping event / elapsed-time histories on the real code in virtual time vs a reference damping automaton; delay-bounded schedule exploration incl. a two-connection race",
   text="Every one of 46 protocol-error kinds alone and after an earlier error with timings {asap, 299 s, 301 s}, all histories up to length 4 (quick) / 5 (thorough) over a reduced alphabet with non-damping events (Cease, FIN, DeletePeer+AddPeer), chains of 5-8 errors (doubling, cap, amnesia), active and passive; the hold-down is measured by the absence/presence of dial attempts and by inbound probes 1 ns after the error, mid-way and 1 ns before release, and compared with the reference automaton. Schedules: single-error histories and a protocol error racing with the other connection becoming Established (finds D15, recorded as known finding). Also every Cease subcode at every state (never damping), NOTIFICATIONs riding behind another message with FIN right behind, protocol errors whose NOTIFICATION cannot be written, a connection arriving at the instant of the error, and a busy-manager scenario (error handled while the manager waits for a slow callback and a third connection knocks). Received NOTIFICATIONs also carry data octets (a Cease whose data reads like another error, a protocol error whose data reads like a Cease): damping depends on the code only. Every inbound dial of the driver waits for quiescence at its instant.",
   note="trusted: vinstr/vrt virtual clock; refDamp automaton (20 lines)"),
 "C13": dict(level="exploration", design="4/C13",
   technique="exhaustive enumeration of the (peer set, peer state, source, destination) grid on the real server over the virtual network; delay-bounded schedule exploration for the configured source",
   text="384 cells: 4 peer sets x 10 states of the peer at arrival x 4 sources x 3 destinations (three listeners incl. a wildcard), each judged against the admission predicate of the property: OPEN received iff admissible, otherwise EOF with zero bytes written, no callback for it, and the existing session still delivers a probe UPDATE. Also passive peers with a (specified or unspecified) local address, a wildcard-only listener with an earlier connection, bursts of simultaneous connections, a connection arriving while the peer is being deleted, a hold-down whose NOTIFICATION could not be written; schedules within the bound for the configured source. Grid dimension remote capabilities: the OPEN with which the peer built the existing connection carried graceful restart (restart bit set) or a set of other capabilities; admission does not depend on them.",
   note="trusted: vinstr/vrt/vnet (real net.TCPAddr endpoints)"),
 "C20": dict(level="model_checking", design="4/C20",
   technique="exhaustive validation grid and operation sequences vs a reference map; stateless model checking of concurrent registry clients with linearizability checking (porcupine) of every explored history",
   text="28 800 configurations against the rejection predicate; all operation sequences up to length 5/6 in three server phases against a map; 2-3 concurrent clients on colliding keys with Serve/Close interleaved: every schedule within the delay bound is executed on the real code and each complete call/return history is checked for linearizability against the map model, with the race detector on; lifecycle scenarios (dial only after Serve, start on add, stop on delete, Serve after Close). Also passive peers after an inbound session, IPv6 peers with local address and non-default ports in both directions (dial target and source), and the BGP Identifier announced for every accepted router-id form.",
   note="trusted: vinstr/vrt, porcupine v1.3.0, refMap"),
 "C05": dict(level="exploration", design="4/C05",
   technique="bounded-exhaustive enumeration of hostile byte streams at every FSM state, of byte strings into every exported decoder, and of API call sequences (with delay-bounded schedules) on the real code, each followed by a liveness probe",
   text="Every type octet / boundary length / marker corruption / truncation+FIN / OPEN body of G02 / short UPDATE body (through a plugin wiring all typed decoders) at each state and direction, followed by a second peer that must still establish, Close and Serve that must return and an empty set of library goroutines; all byte strings up to length 2 (3) over all 256 values into each of 23 exported decoding entry points plus lengths up to 70000; all API sequences up to length 4 (5) incl. repeated Serve under all schedules within delay bound 1. Also the UPDATE body sets of C16 into UpdateDecoder (returns-at-all oracle), the matrix of first-connection scripts of C01 run to the end of their reconnections, plugins that couple their callbacks, inbound connections and a boundary-option peer as API operations. Wire cases are also run with a remote that neither reads on nor hangs up until Close has returned; the stalled-writer scenarios of C04 are run as wedge scenarios.",
   note="trusted: vinstr/vrt/vnet; panic attribution by stack frames"),
}

NOT_YET = "check not built yet (framework under construction; see DESIGN.md section 8)"

def main():
    props = [json.loads(l) for l in open('/verif/properties.jsonl')]
    m = {
      "version": 1,
      "setup_cmd": "./setup.sh",
      "hooks": {
        "guard": "verif",
        "enable": "no source hooks: every check rewrites the current /repo tree at build time (cmd/vinstr: go/chan/select/close/sync/time/context/net -> vrt runtime, field accesses -> race detector) and compiles it with go build -overlay; /repo is never written",
        "baseline_off_cmd": "cd /repo && go test -vet=off -count=1 ./...",
        "source_commits": [],
        "add_only": True
      },
      "engines": [
        {"name": "vrt", "path": "/verif/vrt", "serves_properties": sorted(CHECKS), "kind_free_text": "hand-written stateless model checker for Go: deterministic user-space runtime (virtual clock, in-memory network), replay-based delay-bounded DFS with happens-before state caching, vector-clock race detector; bound to the code by the source-to-source rewriter cmd/vinstr"},
      ],
      "checks": [],
      "not_applicable": [],
      "notes": "exit status 3 = engine failure (never a verdict); VERIF_REPO=<dir> points the checks at an alternative tree (mutation experiments)"
    }
    for p in props:
        pid = p['id']
        if pid in CHECKS:
            c = CHECKS[pid]
            m["checks"].append({
              "property_id": pid,
              "quick_cmd": f"./bin/vcheck run {pid} --tier quick",
              "thorough_cmd": f"./bin/vcheck run {pid} --tier thorough",
              "evidence_file": f"/verif/evidence/{pid}.json",
              "replay_cmd_template": "./bin/vcheck replay {path}",
              "engine": "vrt",
              "level_claimed": {"category": c["level"], "text": c["text"], "design_ref": c["design"]},
              "level_note": c["note"],
              "technique": c["technique"],
            })
        else:
            m["not_applicable"].append({"property_id": pid, "reason": NOT_YET})
    json.dump(m, open('/verif/MANIFEST.json', 'w'), indent=1)
    try:
        import jsonschema
        jsonschema.validate(m, json.load(open('/root/.vp/MANIFEST.schema.json')))
        print("MANIFEST valid:", len(m["checks"]), "checks,", len(m["not_applicable"]), "not applicable")
    except ImportError:
        print("jsonschema not available; not validated")

main()
