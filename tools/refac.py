#!/usr/bin/env python3
"""usage: tools/refac.py <id> <variant> [--props C01,C02,...] [--tier quick|thorough] [--src dir]
Runs the quick tier of every check (or the given ones) against a behaviour-preserving refactoring
delivered under /tmp/refac/ (kept copy: /verif/refactored/<id>-<variant>/): scratch copy of /repo HEAD outside
/repo and /verif, git apply, go build, go vet, the repository's tests (also with -race), then the checks via
VERIF_REPO. Any exit status other than 0 is a candidate false alarm (or an engine limitation, exit 3)."""
import json, os, subprocess, sys, tempfile, shutil, argparse
ENV = dict(os.environ, GOFLAGS='-mod=mod', GOPROXY='off', GOSUMDB='off', GOTOOLCHAIN='local', VERIF_NO_CONFORMANCE='1')
def sh(cmd, cwd=None, timeout=3600):
    p = subprocess.run(cmd, shell=True, cwd=cwd, env=ENV, stdout=subprocess.PIPE, stderr=subprocess.STDOUT, timeout=timeout)
    return p.returncode, p.stdout.decode(errors='replace')
ap = argparse.ArgumentParser(); ap.add_argument('id'); ap.add_argument('variant'); ap.add_argument('--props'); ap.add_argument('--src', default='/tmp/refac'); ap.add_argument('--tier', default='quick')
a = ap.parse_args()
allp = ['C%02d' % i for i in range(1, 21)]
props = a.props.split(',') if a.props else allp
kept = f'/verif/refactored/{a.id}-{a.variant}'
patch = f'{a.src}/{a.id}.{a.variant}.patch.diff'; metaf = f'{a.src}/{a.id}.{a.variant}.meta.json'
if not os.path.exists(patch):
    patch, metaf = kept + '/patch.diff', kept + '/meta.json'
base = tempfile.mkdtemp(prefix='rf.', dir='/tmp'); w = base + '/with'
os.makedirs(w); sh(f'git -C /repo archive HEAD | tar -x -C {w}')
rec = {'tier': a.tier, 'repo_commit': sh('git -C /repo rev-parse --short HEAD')[1].strip()}
rc, out = sh(f'git init -q . ; git apply --whitespace=nowarn {patch}', cwd=w)
if rc != 0:
    print('PATCH-DOES-NOT-APPLY', out); shutil.rmtree(base); sys.exit(2)
rc, out = sh('go build ./... && go vet . && go test -vet=off -count=1 ./...', cwd=w)
rec['build_vet_tests'] = 'pass' if rc == 0 else 'FAIL: ' + out[-400:]
rc, out = sh('go test -race -vet=off -count=1 .', cwd=w, timeout=1800)
rec['race_tests'] = 'pass' if rc == 0 else 'FAIL: ' + out[-400:]
rec['checks'] = {}
for p in props:
    rc, out = sh(f'VERIF_REPO={w} /verif/bin/vcheck run {p} --tier {a.tier}', cwd='/verif', timeout=7200)
    sigs = sorted({l.split('sig=')[1].strip() for l in out.splitlines() if 'sig=' in l})
    eng = [l[:200] for l in out.splitlines() if 'ENGINE' in l]
    msgs = [l.strip()[:300] for l in out.splitlines() if l.startswith('  ') and 'rule=' not in l][:3]
    rec['checks'][p] = {'exit': rc, 'signatures': sigs[:6], 'engine': eng[:3], 'messages': msgs}
shutil.rmtree(base)
os.makedirs(kept, exist_ok=True)
if patch != kept + '/patch.diff':
    shutil.copy(patch, kept + '/patch.diff')
meta = json.load(open(metaf)) if os.path.exists(metaf) else {}
meta.setdefault('runs', []).append(rec)
json.dump(meta, open(kept + '/meta.json', 'w'), indent=1)
bad = {p: v for p, v in rec['checks'].items() if v['exit'] != 0}
print(f"{a.id} {a.variant}: build/tests {rec['build_vet_tests'][:40]} race {rec['race_tests'][:40]} | non-zero: " + (json.dumps(bad) if bad else 'none'))
