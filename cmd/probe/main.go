package main

import (
	"fmt"
	"net"
	"net/netip"
	"time"

	"github.com/jwhited/corebgp"

	"corebgpverif/vnet"
	"corebgpverif/vrt"
	"corebgpverif/wire"
	"corebgpverif/world"
)

func main() {
	var w *world.World
	t0 := time.Now()
	e := vrt.Run(vrt.Config{Horizon: int64(600 * time.Second), Race: true, Trace: true}, func() {
		w = world.New("10.0.0.1")
		s := w.NewServer("10.0.0.1")
		pl := &world.Plugin{W: w, Peer: "P1", Marker: true}
		w.NW.OnDial("10.0.0.2:179", func(att int, from *net.TCPAddr) vnet.DialOutcome {
			return vnet.DialOutcome{Kind: vnet.DialAccept, Serve: func(c *vnet.Conn) {
				r := w.NewRemote(c, "P1")
				defer r.Finish()
				if _, ok := r.Expect(wire.TypeOpen); !ok {
					return
				}
				r.Send(wire.Open(65002, 90, 0x0a000002))
				if _, ok := r.Expect(wire.TypeKeepalive); !ok {
					return
				}
				r.Send(wire.Keepalive())
				r.Expect(wire.TypeUpdate)
				r.Send(wire.Update([]byte{0, 0, 0, 0}))
				r.Drain()
			}}
		})
		err := s.AddPeer(corebgp.PeerConfig{RemoteAddress: netip.MustParseAddr("10.0.0.2"), LocalAS: 65001, RemoteAS: 65002}, pl, corebgp.WithDialerControl(w.DialControl("P1")))
		if err != nil {
			panic(err)
		}
		w.Serve("10.0.0.1:179")
		w.WaitCount("Handler", "exit", "P1", 1)
		w.Close()
		w.WaitServeDone()
	})
	fmt.Println("reason:", e.Reason(), "steps:", e.Steps(), "points:", len(e.Points()), "maindone:", e.MainDone(), "wall:", time.Since(t0))
	if p := e.Panic(); p != nil {
		fmt.Println("PANIC", p.G, p.Value, "\n", p.Stack)
	}
	for _, ev := range w.Log {
		fmt.Println(ev)
	}
	for _, r := range e.Races() {
		fmt.Println("RACE", r)
	}
	for _, g := range e.LiveLib() {
		fmt.Println("LIVE", g.Name(), g.PendingSite())
	}
	e.Finish()
}
