// Command vcheck is the driver registered in MANIFEST.json: it rewrites and
// builds the current /repo tree, runs the shards of a property check in
// parallel, aggregates their results into /verif/evidence/<id>.json and
// prints VIOLATION / KNOWN-FINDING lines. Exit status: 0 held, 1 violation,
// 3 engine failure.
package main

import (
	"bytes"
	"crypto/sha256"
	"encoding/hex"
	"encoding/json"
	"fmt"
	"io/fs"
	"os"
	"os/exec"
	"path/filepath"
	"regexp"
	"sort"
	"strconv"
	"strings"
	"sync"
	"time"

	"corebgpverif/harness"
)

var root = "/verif"

func env() []string {
	return append(os.Environ(), "GOFLAGS=-mod=mod", "GOPROXY=off", "GOSUMDB=off", "GOTOOLCHAIN=local")
}

func engineFail(f string, a ...any) {
	fmt.Fprintf(os.Stderr, "ENGINE-ERROR "+f+"\n", a...)
	os.Exit(3)
}

func repoDir() string {
	if r := os.Getenv("VERIF_REPO"); r != "" {
		return r
	}
	return "/repo"
}

func hashTree(repo string, conc, shim bool) string {
	h := sha256.New()
	var files []string
	filepath.WalkDir(repo, func(p string, d fs.DirEntry, err error) error {
		if err != nil {
			return nil
		}
		n := d.Name()
		if d.IsDir() {
			if p != repo && (strings.HasPrefix(n, ".") || n == "testdata") {
				return filepath.SkipDir
			}
			return nil
		}
		if strings.HasSuffix(n, "_test.go") {
			return nil
		}
		if strings.HasSuffix(n, ".go") || n == "go.mod" || n == "go.sum" {
			files = append(files, p)
		}
		return nil
	})
	filepath.WalkDir(root, func(p string, d fs.DirEntry, err error) error {
		if err != nil {
			return nil
		}
		if d.IsDir() {
			b := d.Name()
			if b == ".work" || b == ".git" || b == "bin" || b == "evidence" || b == "replays" || b == "seeded" || b == "mutants" {
				return filepath.SkipDir
			}
			return nil
		}
		if strings.HasSuffix(p, ".go") || strings.HasSuffix(p, "go.mod") || strings.HasSuffix(p, ".go.txt") {
			files = append(files, p)
		}
		return nil
	})
	sort.Strings(files)
	for _, f := range files {
		b, _ := os.ReadFile(f)
		fmt.Fprintf(h, "%s %d\n", f, len(b))
		h.Write(b)
	}
	fmt.Fprintf(h, "conc=%v shim=%v", conc, shim)
	return hex.EncodeToString(h.Sum(nil))[:16]
}

func run(dir string, name string, args ...string) (string, error) {
	cmd := exec.Command(name, args...)
	cmd.Dir = dir
	cmd.Env = env()
	var buf bytes.Buffer
	cmd.Stdout, cmd.Stderr = &buf, &buf
	err := cmd.Run()
	return buf.String(), err
}

// shimProps are the checks that need the generated export shim (white-box
// access to unexported codecs). Only their worker is built with it, so a tree
// in which an unexported signature changed breaks at most these checks.
var shimProps = map[string]bool{"C15": true}

// build returns the path of the worker binary for the current tree.
func build(conc, shim bool) string {
	repo := repoDir()
	key := hashTree(repo, conc, shim)
	dir := filepath.Join(root, ".work", key)
	bin := filepath.Join(dir, "worker")
	if _, err := os.Stat(bin); err == nil {
		now := time.Now()
		os.Chtimes(dir, now, now)
		return bin
	}
	os.MkdirAll(dir, 0o755)
	vinstr := filepath.Join(root, "bin", "vinstr")
	if _, err := os.Stat(vinstr); err != nil {
		if out, err := run(root, "go", "build", "-o", vinstr, "./cmd/vinstr"); err != nil {
			engineFail("building vinstr: %v\n%s", err, out)
		}
	}
	args := []string{"-repo", repo, "-out", dir}
	stubbed := map[string]bool{}
	shimFile := filepath.Join(dir, "zz_verif_export.go.txt")
	var shimUnits []shimUnit
	if shim {
		shimUnits = renderShim(shimFile, stubbed)
		args = append(args, "-export", shimFile)
	}
	if !conc {
		args = append(args, "-conc=false")
	}
	if out, err := run(root, vinstr, args...); err != nil {
		fmt.Fprint(os.Stderr, out)
		os.RemoveAll(dir)
		engineFail("vinstr failed on %s: %v", repo, err)
	}
	ov := filepath.Join(dir, "overlay.json")
	if repo != "/repo" {
		// overlay keys must name the files as the build sees them: the module is replaced by /repo
		b, _ := os.ReadFile(ov)
		var m map[string]map[string]string
		json.Unmarshal(b, &m)
		n := map[string]string{}
		// every non-test go file of the alternative tree replaces its /repo counterpart
		ents, _ := os.ReadDir(repo)
		for _, e := range ents {
			if strings.HasSuffix(e.Name(), ".go") && !strings.HasSuffix(e.Name(), "_test.go") {
				n[filepath.Join("/repo", e.Name())] = filepath.Join(repo, e.Name())
			}
		}
		for k, v := range m["Replace"] {
			n[filepath.Join("/repo", filepath.Base(k))] = v
		}
		b, _ = json.MarshalIndent(map[string]any{"Replace": n}, "", " ")
		os.WriteFile(ov, b, 0o644)
	}
	bargs := []string{"build", "-overlay", ov, "-o", bin}
	if shim {
		bargs = append(bargs, "-tags", "verifshim")
	}
	bargs = append(bargs, "./cmd/worker")
	for {
		out, err := run(root, "go", bargs...)
		if err == nil {
			break
		}
		// a wrapper of the export shim that no longer fits the tree (an unexported name or signature
		// changed) is replaced by its stub; the check then skips what it cannot reach
		progress := false
		if shim {
			for _, m := range regexp.MustCompile(`zz_verif_export\.go(?:\.txt)?:(\d+)`).FindAllStringSubmatch(out, -1) {
				ln, _ := strconv.Atoi(m[1])
				for _, u := range shimUnits {
					if ln >= u.from && ln <= u.to && !stubbed[u.name] {
						stubbed[u.name] = true
						progress = true
						if u.name == "openconv" {
							stubbed["decodeOpen"], stubbed["encodeOpen"] = true, true
						}
					}
				}
			}
		}
		if !progress {
			fmt.Fprint(os.Stderr, out)
			os.RemoveAll(dir)
			fmt.Fprintln(os.Stderr, "ENGINE-BUILD the (rewritten) tree does not compile")
			os.Exit(3)
		}
		shimUnits = renderShim(shimFile, stubbed)
	}
	if len(stubbed) > 0 {
		var names []string
		for n := range stubbed {
			names = append(names, n)
		}
		sort.Strings(names)
		fmt.Fprintf(os.Stderr, "NOTE white-box wrappers not bindable to this tree, replaced by stubs: %s\n", strings.Join(names, ", "))
	}
	prune(filepath.Join(root, ".work"), 6)
	return bin
}

type shimUnit struct {
	name     string
	from, to int // line range in the rendered file
}

// renderShim writes export/zz_verif_export.go.txt to path with the units named in stubbed rendered from
// their stub lines, and returns the line range of every unit in the rendered file.
func renderShim(path string, stubbed map[string]bool) []shimUnit {
	b, err := os.ReadFile(filepath.Join(root, "export", "zz_verif_export.go.txt"))
	if err != nil {
		engineFail("export shim: %v", err)
	}
	var out []string
	var units []shimUnit
	cur, inStub := "", false
	for _, l := range strings.Split(string(b), "\n") {
		f := strings.Fields(l)
		switch {
		case len(f) == 2 && f[0] == "//unit":
			cur, inStub = f[1], false
			units = append(units, shimUnit{name: cur, from: len(out) + 1})
			out = append(out, "// unit "+cur)
		case len(f) == 2 && f[0] == "//stub":
			inStub = true
			out = append(out, "")
		case len(f) == 2 && f[0] == "//end":
			units[len(units)-1].to = len(out) + 1
			cur, inStub = "", false
			out = append(out, "")
		case cur == "":
			out = append(out, l)
		case inStub:
			if stubbed[cur] && strings.HasPrefix(l, "//| ") {
				out = append(out, l[4:])
			} else {
				out = append(out, "")
			}
		default:
			if stubbed[cur] {
				out = append(out, "")
			} else {
				out = append(out, l)
			}
		}
	}
	var names []string
	for n := range stubbed {
		names = append(names, n)
	}
	sort.Strings(names)
	out = append(out, fmt.Sprintf("// VerifStubbed names the wrappers rendered as stubs.\nvar VerifStubbed = %#v", names))
	if err := os.WriteFile(path, []byte(strings.Join(out, "\n")+"\n"), 0o644); err != nil {
		engineFail("export shim: %v", err)
	}
	return units
}

func prune(dir string, keep int) {
	ents, _ := os.ReadDir(dir)
	type de struct {
		p string
		t time.Time
	}
	var ds []de
	for _, e := range ents {
		if !e.IsDir() || len(e.Name()) != 16 {
			continue
		}
		if i, err := e.Info(); err == nil {
			ds = append(ds, de{filepath.Join(dir, e.Name()), i.ModTime()})
		}
	}
	sort.Slice(ds, func(i, j int) bool { return ds[i].t.After(ds[j].t) })
	for i := keep; i < len(ds); i++ {
		os.RemoveAll(ds[i].p)
	}
}

type meta struct {
	Level     string   `json:"level"`
	Rule      string   `json:"rule"`
	Assume    []string `json:"assume"`
	NeedsConc bool     `json:"needs_conc"`
	Shards    int      `json:"shards"`
	QuickS    int      `json:"quick_budget_s"`
	ThoroughS int      `json:"thorough_budget_s"`
}

func main() {
	if len(os.Args) < 2 {
		fmt.Fprintln(os.Stderr, "usage: vcheck run <property> [--tier quick|thorough] | vcheck replay <path> | vcheck build")
		os.Exit(3)
	}
	if r := os.Getenv("VERIF_ROOT"); r != "" {
		root = r
	}
	harness.Root = root
	switch os.Args[1] {
	case "build":
		build(true, false)
		build(false, false)
		build(false, true)
	case "replay":
		if len(os.Args) < 3 {
			engineFail("replay needs a path")
		}
		bin := build(true, false)
		if b, err := os.ReadFile(os.Args[2]); err == nil {
			for p := range shimProps {
				if strings.Contains(string(b), "\"property\": \""+p+"\"") {
					bin = build(false, true)
				}
			}
		}
		cmd := exec.Command(bin, "replay", os.Args[2])
		cmd.Env = append(env(), "VERIF_ROOT="+root)
		cmd.Stdout, cmd.Stderr = os.Stdout, os.Stderr
		if err := cmd.Run(); err != nil {
			if ee, ok := err.(*exec.ExitError); ok {
				os.Exit(ee.ExitCode())
			}
			engineFail("%v", err)
		}
	case "run":
		if len(os.Args) < 3 {
			engineFail("run needs a property")
		}
		prop := os.Args[2]
		tier := os.Getenv("VERIF_TIER")
		for i := 3; i < len(os.Args); i++ {
			if os.Args[i] == "--tier" && i+1 < len(os.Args) {
				tier = os.Args[i+1]
			}
		}
		if tier == "" {
			tier = "quick"
		}
		seed, _ := strconv.ParseInt(os.Getenv("VERIF_SEED"), 10, 64)
		os.Exit(runCheck(prop, tier, seed))
	default:
		engineFail("unknown command %s", os.Args[1])
	}
}

// conformFamilies: per check, the conformance families that are run on the real runtime as well, with
// the stride over the family's thorough-tier case list (quick: 10 times sparser; a family with
// thoroughOnly is skipped in the quick tier because it runs in real seconds).
type conformFamily struct {
	name         string
	stride       int
	thoroughOnly bool
	sameInQuick  bool // small family: the quick tier runs all of it too
	par          int
}

var conformProps = map[string][]conformFamily{
	"C09": {{name: "C09", stride: 1, par: 6}},
	"C08": {{name: "C08", stride: 1, par: 6}},
	"C06": {{name: "C06-time", stride: 1, thoroughOnly: true, par: 64}},
	"C07": {{name: "C07-collision", stride: 1, par: 32, sameInQuick: true}},
}

type conformResult struct {
	Family        string           `json:"family"`
	Cases         int              `json:"cases"`
	Agreed        int              `json:"agreed"`
	Stride        int              `json:"stride"`
	Retried       int              `json:"retried"`
	Disagreements []map[string]any `json:"disagreements"`
	What          string           `json:"what"`
	WallS         float64          `json:"wall_s"`
}

type conformRecord struct {
	Index int             `json:"index"`
	Case  json.RawMessage `json:"case"`
	Model json.RawMessage `json:"model"`
	Real  json.RawMessage `json:"real,omitempty"`
	Agree bool            `json:"agree"`
	Why   string          `json:"why,omitempty"`
}

// conformance runs the model interpreter (rewritten corebgp under vrt, conc binary) and the real
// interpreter (unrewritten corebgp, Go runtime, loopback TCP, seq binary) on the same cases; the real
// side compares. A disagreement is retried twice, one session at a time (load can make a real session
// miss a deadline); what remains is reported in the evidence. It never changes the verdict.
func conformance(f conformFamily, tier string, stride int) conformResult {
	t0 := time.Now()
	res := conformResult{Family: f.name, Stride: stride, What: "every stride-th case of the family, interpreted by the rewritten package under vrt/vnet (virtual goroutines, TCP and time) and by the unrewritten package on the Go runtime over loopback TCP in real time; wire families compare the transcripts for equality (OPEN sent, messages after the stimulus, close, deliveries, OnEstablished/OnClose counts), the time family compares the timelines of what corebgp sends with a tolerance of 0.25 s + 3 %"}
	concBin, seqBin := build(true, false), build(false, false)
	tmp, _ := os.MkdirTemp(filepath.Join(root, ".work"), "conf-")
	defer os.RemoveAll(tmp)
	const n = 16
	runReal := func(in, out string, par int) []conformRecord {
		cmd := exec.Command(seqBin, "conform-real", f.name, "-in", in, "-out", out, "-par", strconv.Itoa(par))
		cmd.Env = append(env(), "VERIF_ROOT="+root)
		if o, err := cmd.CombinedOutput(); err != nil {
			fmt.Fprintf(os.Stderr, "conformance: real run failed: %v\n%s\n", err, o)
			return nil
		}
		var rr []conformRecord
		b, _ := os.ReadFile(out)
		json.Unmarshal(b, &rr)
		return rr
	}
	var mu sync.Mutex
	var pending []conformRecord
	var wg sync.WaitGroup
	sem := make(chan struct{}, 8)
	for i := 0; i < n; i++ {
		wg.Add(1)
		go func(i int) {
			defer wg.Done()
			mf := filepath.Join(tmp, fmt.Sprintf("model%d.json", i))
			cmd := exec.Command(concBin, "conform-model", f.name, "-tier", tier, "-stride", strconv.Itoa(stride), "-shard", strconv.Itoa(i), "-of", strconv.Itoa(n), "-out", mf)
			cmd.Env = append(env(), "GOMAXPROCS=1", "VERIF_ROOT="+root)
			if o, err := cmd.CombinedOutput(); err != nil {
				fmt.Fprintf(os.Stderr, "conformance: model run failed: %v\n%s\n", err, o)
				return
			}
			var mm []conformRecord
			b, _ := os.ReadFile(mf)
			json.Unmarshal(b, &mm)
			if len(mm) == 0 {
				return
			}
			sem <- struct{}{}
			rr := runReal(mf, filepath.Join(tmp, fmt.Sprintf("real%d.json", i)), f.par)
			<-sem
			done := map[int]conformRecord{}
			for _, r := range rr {
				done[r.Index] = r
			}
			mu.Lock()
			defer mu.Unlock()
			for _, m := range mm {
				res.Cases++
				if r, ok := done[m.Index]; ok && r.Agree {
					res.Agreed++
				} else {
					pending = append(pending, m)
				}
			}
		}(i)
	}
	wg.Wait()
	for round := 0; round < 2 && len(pending) > 0; round++ {
		res.Retried += len(pending)
		in := filepath.Join(tmp, fmt.Sprintf("retry%d.json", round))
		b, _ := json.Marshal(pending)
		os.WriteFile(in, b, 0o644)
		par := 1
		if f.thoroughOnly {
			par = 4 // real-time cases: still few at a time, but not one after the other
		}
		rr := runReal(in, in+".out", par)
		done := map[int]conformRecord{}
		for _, r := range rr {
			done[r.Index] = r
		}
		var still []conformRecord
		for _, m := range pending {
			r, ok := done[m.Index]
			if ok && r.Agree {
				res.Agreed++
				continue
			}
			still = append(still, m)
			if round == 1 && len(res.Disagreements) < 20 {
				res.Disagreements = append(res.Disagreements, map[string]any{"index": m.Index, "case": m.Case, "model": m.Model, "real": r.Real, "why": r.Why})
			}
		}
		pending = still
	}
	if len(pending) > len(res.Disagreements) {
		res.Disagreements = append(res.Disagreements, map[string]any{"more": len(pending) - len(res.Disagreements)})
	}
	res.WallS = time.Since(t0).Seconds()
	return res
}

func runCheck(prop, tier string, seed int64) int {
	t0 := time.Now()
	var bin string
	if shimProps[prop] {
		bin = build(false, true)
	} else {
		bin = build(true, false)
	}
	out, err := exec.Command(bin, "meta", prop).Output()
	if err != nil {
		engineFail("meta %s: %v", prop, err)
	}
	var m meta
	if err := json.Unmarshal(out, &m); err != nil {
		engineFail("meta %s: %v (%s)", prop, err, out)
	}
	if !m.NeedsConc && !shimProps[prop] {
		bin = build(false, false)
	}
	n := m.Shards
	if n <= 0 {
		n = 16
	}
	budget := m.QuickS
	if tier == "thorough" {
		budget = m.ThoroughS
	}
	if budget <= 0 {
		budget = 60
	}
	tmp, _ := os.MkdirTemp(filepath.Join(root, ".work"), "run-")
	defer os.RemoveAll(tmp)
	results := make([]*harness.ShardResult, n)
	errs := make([]string, n)
	var wg sync.WaitGroup
	for i := 0; i < n; i++ {
		wg.Add(1)
		go func(i int) {
			defer wg.Done()
			of := filepath.Join(tmp, fmt.Sprintf("shard%d.json", i))
			cmd := exec.Command(bin, "run", prop, "-tier", tier, "-shard", strconv.Itoa(i), "-of", strconv.Itoa(n),
				"-seed", strconv.FormatInt(seed, 10), "-budget", fmt.Sprintf("%ds", budget), "-out", of)
			cmd.Env = append(env(), "GOMAXPROCS=1", "VERIF_ROOT="+root, "GOMEMLIMIT=3GiB")
			var buf bytes.Buffer
			cmd.Stdout, cmd.Stderr = &buf, &buf
			if err := cmd.Run(); err != nil {
				s := buf.String()
				if len(s) > 4000 {
					s = s[:2000] + "\n...\n" + s[len(s)-2000:]
				}
				errs[i] = fmt.Sprintf("shard %d: %v\n%s", i, err, s)
				return
			}
			b, err := os.ReadFile(of)
			if err != nil {
				errs[i] = fmt.Sprintf("shard %d: %v", i, err)
				return
			}
			var r harness.ShardResult
			if err := json.Unmarshal(b, &r); err != nil {
				errs[i] = fmt.Sprintf("shard %d: %v", i, err)
				return
			}
			results[i] = &r
		}(i)
	}
	wg.Wait()
	for _, e := range errs {
		if e != "" {
			fmt.Fprintln(os.Stderr, "ENGINE-ERROR", e)
			return 3
		}
	}
	// aggregate
	agg := harness.ShardResult{Property: prop, Exhaustive: true, Known: map[string]int{}, Extra: map[string]any{}}
	for _, r := range results {
		agg.Evaluations += r.Evaluations
		agg.DistinctNontrivial += r.DistinctNontrivial
		agg.States += r.States
		agg.Transitions += r.Transitions
		agg.Executions += r.Executions
		agg.Scenarios += r.Scenarios
		agg.TracesValidated += r.TracesValidated
		agg.CapHits += r.CapHits
		agg.Outcomes += r.Outcomes
		agg.Exhaustive = agg.Exhaustive && r.Exhaustive
		if len(agg.Samples) < 6 {
			for _, s := range r.Samples {
				if len(agg.Samples) < 6 {
					agg.Samples = append(agg.Samples, s)
				}
			}
		}
		agg.Violations = append(agg.Violations, r.Violations...)
		for k, v := range r.Known {
			agg.Known[k] += v
		}
		for _, nt := range r.Notes {
			if len(agg.Notes) < 40 {
				agg.Notes = append(agg.Notes, nt)
			}
		}
		for k, v := range r.Extra {
			if f, ok := v.(float64); ok {
				if old, ok := agg.Extra[k].(float64); ok {
					if strings.HasPrefix(k, "min_") {
						if f < old {
							agg.Extra[k] = f
						}
					} else {
						agg.Extra[k] = old + f
					}
				} else {
					agg.Extra[k] = f
				}
			} else if _, ok := agg.Extra[k]; !ok {
				agg.Extra[k] = v
			}
		}
	}
	wall := time.Since(t0).Seconds()
	cov := map[string]any{
		"evaluations":         agg.Evaluations,
		"distinct_nontrivial": agg.DistinctNontrivial,
		"rule":                m.Rule,
		"samples":             agg.Samples,
		"exhaustive":          agg.Exhaustive,
		"shards":              n,
	}
	if agg.Executions > 0 {
		cov["executions"] = agg.Executions
		cov["scenarios"] = agg.Scenarios
		cov["states"] = agg.States
		cov["transitions"] = agg.Transitions
		cov["traces_validated_against_impl"] = agg.TracesValidated
		cov["cap_hits"] = agg.CapHits
		cov["distinct_outcomes"] = agg.Outcomes
	}
	for k, v := range agg.Extra {
		cov[k] = v
	}
	if fams, ok := conformProps[prop]; ok && len(agg.Violations) == 0 && os.Getenv("VERIF_NO_CONFORMANCE") == "" {
		// the same cases on the real runtime over loopback TCP (DESIGN.md 3.6)
		validated := int64(0)
		var crs []conformResult
		for _, f := range fams {
			stride := f.stride
			if tier != "thorough" {
				if f.thoroughOnly {
					continue
				}
				if !f.sameInQuick {
					stride *= 10
				}
			}
			cr := conformance(f, tier, stride)
			crs = append(crs, cr)
			validated += int64(cr.Agreed)
			fmt.Printf("CONFORMANCE property=%s family=%s cases=%d agreed=%d disagreements=%d retried=%d wall=%.1fs\n", prop, f.name, cr.Cases, cr.Agreed, cr.Cases-cr.Agreed, cr.Retried, cr.WallS)
		}
		if len(crs) > 0 {
			cov["traces_validated_against_impl"] = validated
			cov["conformance"] = crs
		}
	}
	if len(agg.Notes) > 0 {
		cov["notes"] = agg.Notes
	}
	known := []string{}
	for k := range agg.Known {
		known = append(known, k)
	}
	sort.Strings(known)
	cov["known_findings_hit"] = agg.Known
	ev := map[string]any{
		"property_id": prop,
		"tier":        tier,
		"seed":        seed,
		"level":       m.Level,
		"coverage":    cov,
		"assumptions": m.Assume,
		"wall_s":      wall,
		"violations":  len(agg.Violations),
	}
	os.MkdirAll(filepath.Join(root, "evidence"), 0o755)
	b, _ := json.MarshalIndent(ev, "", " ")
	if err := os.WriteFile(filepath.Join(root, "evidence", prop+".json"), b, 0o644); err != nil {
		engineFail("%v", err)
	}
	findings := harness.LoadFindings()
	for _, id := range known {
		what := id
		for _, f := range findings {
			if f.ID == id {
				what = f.ID + ": " + f.What
			}
		}
		fmt.Printf("KNOWN-FINDING: property=%s %s (%d cases)\n", prop, what, agg.Known[id])
	}
	fmt.Printf("%s %s: evaluations=%d distinct_nontrivial=%d executions=%d states=%d transitions=%d exhaustive=%v wall=%.1fs\n",
		prop, tier, agg.Evaluations, agg.DistinctNontrivial, agg.Executions, agg.States, agg.Transitions, agg.Exhaustive, wall)
	if len(agg.Violations) > 0 {
		seen := map[string]bool{}
		for _, v := range agg.Violations {
			if seen[v.Sig] {
				continue
			}
			seen[v.Sig] = true
			fmt.Printf("VIOLATION property=%s replay=%s\n  rule=%s sig=%s\n  %s\n", prop, v.Replay, v.Rule, v.Sig, v.Message)
		}
		return 1
	}
	return 0
}
