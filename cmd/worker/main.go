// Command worker runs one shard of one property check. It is compiled by
// vcheck with `go build -overlay` against the current /repo tree.
package main

import (
	"encoding/json"
	"flag"
	"fmt"
	"os"
	"sync"
	"time"

	"corebgpverif/harness"
	"corebgpverif/props"
)

func main() {
	if len(os.Args) < 3 {
		fmt.Fprintln(os.Stderr, "usage: worker run|replay|meta <property|path> [flags]")
		os.Exit(3)
	}
	if r := os.Getenv("VERIF_ROOT"); r != "" {
		harness.Root = r
	}
	cmd, arg := os.Args[1], os.Args[2]
	fs := flag.NewFlagSet("worker", flag.ExitOnError)
	tier := fs.String("tier", "quick", "quick|thorough")
	shard := fs.Int("shard", 0, "shard index")
	of := fs.Int("of", 1, "number of shards")
	seed := fs.Int64("seed", 0, "seed (permutes shard order only)")
	budget := fs.Duration("budget", 0, "internal time budget")
	out := fs.String("out", "", "result file")
	stride := fs.Int("stride", 1, "conformance: every n-th case")
	par := fs.Int("par", 8, "conformance: concurrent real sessions")
	in := fs.String("in", "", "conformance: file written by conform-model")
	fs.Parse(os.Args[3:])
	switch cmd {
	case "list":
		for _, p := range harness.Properties() {
			fmt.Println(p)
		}
	case "meta":
		ch := harness.Lookup(arg)
		if ch == nil {
			fmt.Fprintln(os.Stderr, "ENGINE-ERROR unknown property", arg)
			os.Exit(3)
		}
		b, _ := json.Marshal(map[string]any{"level": ch.Level, "rule": ch.Rule, "assume": ch.Assume, "needs_conc": ch.NeedsConc,
			"shards": ch.Shards, "quick_budget_s": ch.QuickS, "thorough_budget_s": ch.ThoroughS})
		os.Stdout.Write(b)
	case "run":
		ch := harness.Lookup(arg)
		if ch == nil {
			fmt.Fprintln(os.Stderr, "ENGINE-ERROR unknown property", arg)
			os.Exit(3)
		}
		c := harness.NewCtx(arg, *tier, *shard, *of, *seed, *budget)
		t0 := time.Now()
		ch.Run(c)
		c.Res.WallS = time.Since(t0).Seconds()
		b, _ := json.Marshal(c.Res)
		if *out != "" {
			if err := os.WriteFile(*out, b, 0o644); err != nil {
				fmt.Fprintln(os.Stderr, "ENGINE-ERROR", err)
				os.Exit(3)
			}
		} else {
			os.Stdout.Write(b)
			fmt.Println()
		}
	case "conform-model":
		// enumerate the cases of a conformance family, run this shard's share under vrt
		recs := props.ConformModel(arg, *tier, *stride, *shard, *of)
		b, _ := json.Marshal(recs)
		if err := os.WriteFile(*out, b, 0o644); err != nil {
			fmt.Fprintln(os.Stderr, "ENGINE-ERROR", err)
			os.Exit(3)
		}
	case "conform-real":
		// -in is a file written by conform-model; run every case on the real runtime and compare
		b, err := os.ReadFile(*in)
		if err != nil {
			fmt.Fprintln(os.Stderr, "ENGINE-ERROR", err)
			os.Exit(3)
		}
		var recs []props.ConformRecord
		if err := json.Unmarshal(b, &recs); err != nil {
			fmt.Fprintln(os.Stderr, "ENGINE-ERROR", err)
			os.Exit(3)
		}
		sem := make(chan struct{}, *par)
		var wg sync.WaitGroup
		for i := range recs {
			wg.Add(1)
			sem <- struct{}{}
			go func(i int) {
				defer wg.Done()
				props.ConformReal(arg, &recs[i])
				<-sem
			}(i)
		}
		wg.Wait()
		ob, _ := json.Marshal(recs)
		if err := os.WriteFile(*out, ob, 0o644); err != nil {
			fmt.Fprintln(os.Stderr, "ENGINE-ERROR", err)
			os.Exit(3)
		}
	case "replay":
		b, err := os.ReadFile(arg)
		if err != nil {
			fmt.Fprintln(os.Stderr, "ENGINE-ERROR", err)
			os.Exit(3)
		}
		var rf struct {
			Property string          `json:"property"`
			Tier     string          `json:"tier"`
			Replay   json.RawMessage `json:"replay"`
		}
		if err := json.Unmarshal(b, &rf); err != nil {
			fmt.Fprintln(os.Stderr, "ENGINE-ERROR", err)
			os.Exit(3)
		}
		ch := harness.Lookup(rf.Property)
		if ch == nil || ch.Replay == nil {
			fmt.Fprintln(os.Stderr, "ENGINE-ERROR no replay for", rf.Property)
			os.Exit(3)
		}
		c := harness.NewCtx(rf.Property, rf.Tier, 0, 1, 0, 0)
		ch.Replay(c, rf.Replay)
		for _, v := range c.Res.Violations {
			fmt.Printf("VIOLATION property=%s replay=%s\n  rule=%s %s\n", v.Property, v.Replay, v.Rule, v.Message)
		}
		for id, n := range c.Res.Known {
			fmt.Printf("KNOWN-FINDING: property=%s %s (%d)\n", rf.Property, id, n)
		}
		if c.Failed() {
			os.Exit(1)
		}
		fmt.Println("replay: property held on the recorded case")
	}
}
