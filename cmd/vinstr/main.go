// Command vinstr rewrites the non-test files of the corebgp package in the
// current working tree so that goroutine spawns, channel operations, select,
// close, make(chan), map ranges and the sync/time/context/net imports are
// served by the vrt runtime, and field/array/map accesses are reported to its
// race detector. It writes the rewritten files plus an overlay.json for
// `go build -overlay`. /repo itself is never written. See DESIGN.md 3.1.
package main

import (
	"bytes"
	"encoding/json"
	"flag"
	"fmt"
	"go/ast"
	"go/parser"
	"go/printer"
	"go/token"
	"go/types"
	"os"
	"path/filepath"
	"strconv"
	"strings"

	"golang.org/x/tools/go/ast/astutil"
	"golang.org/x/tools/go/packages"
)

const vrtPath = "corebgpverif/vrt"

var shimOf = map[string]string{
	"sync":         "corebgpverif/shim/sync",
	"time":         "corebgpverif/shim/time",
	"context":      "corebgpverif/shim/context",
	"net":          "corebgpverif/shim/net",
	"sync/atomic":  "corebgpverif/shim/atomic",
	"math/rand":    "corebgpverif/shim/rand",
	"math/rand/v2": "corebgpverif/shim/randv2",
}

func fatalf(code int, f string, a ...any) {
	fmt.Fprintf(os.Stderr, f+"\n", a...)
	os.Exit(code)
}

type accessMode int

const (
	modeNone accessMode = iota
	modeSkip
	modeWrite
)

type rewriter struct {
	fset     *token.FileSet
	info     *types.Info
	pkg      *types.Package
	file     string
	race     bool
	n        int
	changed  bool
	needVrt  bool
	skipComm map[ast.Node]bool          // comm statements/expressions of select clauses
	mode     map[ast.Expr]accessMode    // marks for candidate access expressions
	wrap     map[ast.Expr]bool          // expressions decided (in pre) to be wrapped
	wrapID   map[*ast.Ident]bool        // uses of package-level variables decided to be wrapped
	siteOf   map[ast.Node]*ast.BasicLit // sites computed on the original tree
	isClose  map[*ast.CallExpr]bool
	makeElem map[*ast.CallExpr]ast.Expr
	delMap   map[*ast.CallExpr]bool
	lenMap   map[*ast.CallExpr]bool
	lenChan  map[*ast.CallExpr]bool
	makeConv map[*ast.CallExpr]ast.Expr // make of a named channel type: the type to convert back to
	selBlock map[*ast.BlockStmt]bool    // blocks produced from select statements
	rangeK   map[*ast.RangeStmt]string  // "map" | "chan"
	mapIdx   map[*ast.IndexExpr]bool    // index into instrumented map
	errs     []string
	// sharedLoopVars: the module's language version is below go1.22, so the variables of a
	// range statement are shared by all iterations (closures capturing them see the last value)
	sharedLoopVars bool
}

func (r *rewriter) site(n ast.Node) *ast.BasicLit {
	if s, ok := r.siteOf[n]; ok {
		return s
	}
	p := r.fset.Position(n.Pos())
	return &ast.BasicLit{Kind: token.STRING, Value: strconv.Quote(filepath.Base(p.Filename) + ":" + strconv.Itoa(p.Line))}
}

func (r *rewriter) tmp(prefix string) *ast.Ident {
	r.n++
	return ast.NewIdent(fmt.Sprintf("_v%s%d", prefix, r.n))
}

func vrtSel(name string) ast.Expr {
	return &ast.SelectorExpr{X: ast.NewIdent("vrt"), Sel: ast.NewIdent(name)}
}

func call(fun ast.Expr, args ...ast.Expr) *ast.CallExpr {
	return &ast.CallExpr{Fun: fun, Args: args}
}

func define(lhs ast.Expr, rhs ast.Expr) *ast.AssignStmt {
	return &ast.AssignStmt{Lhs: []ast.Expr{lhs}, Tok: token.DEFINE, Rhs: []ast.Expr{rhs}}
}

func assign(lhs ast.Expr, rhs ast.Expr) *ast.AssignStmt {
	return &ast.AssignStmt{Lhs: []ast.Expr{lhs}, Tok: token.ASSIGN, Rhs: []ast.Expr{rhs}}
}

func unparen(e ast.Expr) ast.Expr {
	for {
		p, ok := e.(*ast.ParenExpr)
		if !ok {
			return e
		}
		e = p.X
	}
}

func (r *rewriter) unsupported(n ast.Node, what string) {
	p := r.fset.Position(n.Pos())
	r.errs = append(r.errs, fmt.Sprintf("ENGINE-UNSUPPORTED %s:%d %s", filepath.Base(p.Filename), p.Line, what))
}

// ownField reports whether sel is an addressable field selection on a struct
// declared in the package under rewrite.
func (r *rewriter) ownField(e ast.Expr) bool {
	sel, ok := unparen(e).(*ast.SelectorExpr)
	if !ok {
		return false
	}
	s := r.info.Selections[sel]
	if s == nil || s.Kind() != types.FieldVal {
		return false
	}
	if s.Obj().Pkg() != r.pkg {
		return false
	}
	tv, ok := r.info.Types[sel]
	return ok && tv.Addressable()
}

func isArray(t types.Type) bool {
	if t == nil {
		return false
	}
	_, ok := t.Underlying().(*types.Array)
	return ok
}

func isMap(t types.Type) bool {
	if t == nil {
		return false
	}
	_, ok := t.Underlying().(*types.Map)
	return ok
}

func isChan(t types.Type) bool {
	if t == nil {
		return false
	}
	_, ok := t.Underlying().(*types.Chan)
	return ok
}

func isPointer(t types.Type) bool {
	if t == nil {
		return false
	}
	_, ok := t.Underlying().(*types.Pointer)
	return ok
}

func (r *rewriter) mark(e ast.Expr, m accessMode) {
	e = unparen(e)
	if cur, ok := r.mode[e]; ok && cur == modeSkip {
		return
	}
	r.mode[e] = m
}

func (r *rewriter) builtin(c *ast.CallExpr, name string) bool {
	id, ok := unparen(c.Fun).(*ast.Ident)
	if !ok || id.Name != name {
		return false
	}
	_, isB := r.info.Uses[id].(*types.Builtin)
	return isB
}

// pre runs on the original tree (parents before children) and records every
// type-derived decision.
func (r *rewriter) pre(c *astutil.Cursor) bool {
	if n := c.Node(); n != nil && n.Pos().IsValid() {
		switch n.(type) {
		case *ast.SelectorExpr, *ast.IndexExpr, *ast.GoStmt, *ast.SendStmt, *ast.UnaryExpr, *ast.CallExpr, *ast.SelectStmt, *ast.RangeStmt:
			// positions are taken from the original tree: children may have been replaced by position-less nodes later
			p := r.fset.Position(n.Pos())
			r.siteOf[n] = &ast.BasicLit{Kind: token.STRING, Value: strconv.Quote(filepath.Base(p.Filename) + ":" + strconv.Itoa(p.Line))}
		}
	}
	switch n := c.Node().(type) {
	case *ast.SelectStmt:
		for _, cl := range n.Body.List {
			cc := cl.(*ast.CommClause)
			if cc.Comm == nil {
				continue
			}
			r.skipComm[cc.Comm] = true
			switch s := cc.Comm.(type) {
			case *ast.ExprStmt:
				r.skipComm[unparen(s.X)] = true
			case *ast.AssignStmt:
				r.skipComm[unparen(s.Rhs[0])] = true
				if s.Tok == token.ASSIGN {
					for _, l := range s.Lhs {
						r.mark(l, modeWrite)
					}
				}
			}
		}
	case *ast.AssignStmt:
		if n.Tok != token.DEFINE {
			for _, l := range n.Lhs {
				r.mark(l, modeWrite)
			}
		}
	case *ast.IncDecStmt:
		r.mark(n.X, modeWrite)
	case *ast.UnaryExpr:
		if n.Op == token.AND {
			r.mark(n.X, modeSkip)
		}
	case *ast.RangeStmt:
		if n.Key != nil {
			r.mark(n.Key, modeSkip)
		}
		if n.Value != nil {
			r.mark(n.Value, modeSkip)
		}
		t := r.info.TypeOf(n.X)
		switch {
		case isMap(t):
			r.rangeK[n] = "map"
		case isChan(t):
			r.rangeK[n] = "chan"
		case isArray(t):
			r.mark(n.X, modeSkip)
		}
	case *ast.SliceExpr:
		if isArray(r.info.TypeOf(n.X)) {
			r.mark(n.X, modeSkip)
		}
	case *ast.CallExpr:
		switch {
		case r.builtin(n, "close"):
			r.isClose[n] = true
		case r.builtin(n, "make"):
			if ct, ok := unparen(n.Args[0]).(*ast.ChanType); ok {
				if ct.Dir != ast.SEND|ast.RECV {
					r.unsupported(n, "make of directional channel")
				}
				r.makeElem[n] = ct.Value
			} else if t := r.info.TypeOf(n.Args[0]); isChan(t) {
				ct := t.Underlying().(*types.Chan)
				if ct.Dir() != types.SendRecv {
					r.unsupported(n, "make of directional channel")
				}
				el, err := parser.ParseExpr(types.TypeString(ct.Elem(), func(p *types.Package) string {
					if p == r.pkg {
						return ""
					}
					return p.Name()
				}))
				if err != nil {
					r.unsupported(n, "make of named channel type with an element type the rewriter cannot print")
				} else {
					r.makeElem[n] = el
					r.makeConv[n] = n.Args[0]
				}
			}
		case r.builtin(n, "delete"):
			if r.ownField(n.Args[0]) {
				r.delMap[n] = true
			}
		case r.builtin(n, "len"), r.builtin(n, "cap"):
			if isChan(r.info.TypeOf(n.Args[0])) && r.builtin(n, "len") {
				r.lenChan[n] = true // cap(ch) needs no help: the real channel has the real capacity
			}
			if isMap(r.info.TypeOf(n.Args[0])) && r.ownField(n.Args[0]) {
				r.lenMap[n] = true
			}
			if isArray(r.info.TypeOf(n.Args[0])) {
				r.mark(n.Args[0], modeSkip)
			}
		}
		// method call through an addressable non-pointer field: implicit &
		if fs, ok := unparen(n.Fun).(*ast.SelectorExpr); ok {
			if s := r.info.Selections[fs]; s != nil && s.Kind() == types.MethodVal {
				if !isPointer(r.info.TypeOf(fs.X)) {
					r.mark(fs.X, modeSkip)
				}
			}
		}
	case *ast.Ident:
		// a use of a package-level variable of the package under rewrite: a shared location like a field
		// (a counter, a cache, a lazily built table, a scratch slice header hoisted to package scope)
		if r.race && r.mode[n] != modeSkip {
			if v, ok := r.info.Uses[n].(*types.Var); ok && !v.IsField() && v.Pkg() == r.pkg && v.Parent() == r.pkg.Scope() {
				if tv, ok := r.info.Types[n]; ok && tv.Addressable() {
					r.wrapID[n] = true
				}
			}
		}
	case *ast.SelectorExpr:
		s := r.info.Selections[n]
		if s != nil && s.Kind() == types.FieldVal {
			// a.b.c with b a struct value: one location, wrap only the outermost
			if !isPointer(r.info.TypeOf(n.X)) {
				if _, inner := unparen(n.X).(*ast.Ident); inner && r.ownField(n) {
					r.mark(n.X, modeSkip) // g.f with g a package-level struct value: the field is the location
				}
				if _, inner := unparen(n.X).(*ast.SelectorExpr); inner {
					r.mark(n.X, modeSkip)
				}
				if _, inner := unparen(n.X).(*ast.IndexExpr); inner {
					r.mark(n.X, modeSkip)
				}
			}
		}
		if s != nil && s.Kind() == types.MethodVal && !isPointer(r.info.TypeOf(n.X)) {
			r.mark(n.X, modeSkip) // method value binds &x.f
		}
		if r.race && r.ownField(n) && r.mode[n] != modeSkip {
			r.wrap[n] = true
		}
	case *ast.IndexExpr:
		xt := r.info.TypeOf(n.X)
		if isArray(xt) && r.ownField(n.X) {
			// wrap the element, not the array
			m := r.mode[n]
			r.mark(n.X, modeSkip)
			if r.race && m != modeSkip {
				if tv, ok := r.info.Types[n]; ok && tv.Addressable() {
					r.wrap[n] = true
				}
			}
		} else if isMap(xt) && r.ownField(n.X) && r.race {
			r.mapIdx[n] = true
		}
	case *ast.GoStmt:
		// nothing to record
	case *ast.FuncLit, *ast.FuncDecl:
	}
	return true
}

func (r *rewriter) wrapAccess(e ast.Expr, write bool) ast.Expr {
	fn := "R"
	if write {
		fn = "W"
	}
	r.needVrt = true
	r.changed = true
	return &ast.StarExpr{X: call(vrtSel(fn), &ast.UnaryExpr{Op: token.AND, X: e}, r.site(e))}
}

// post runs after the children of a node were rewritten.
func (r *rewriter) post(c *astutil.Cursor) bool {
	switch n := c.Node().(type) {
	case *ast.Ident:
		if r.wrapID[n] {
			if _, isSel := c.Parent().(*ast.SelectorExpr); isSel && c.Name() == "Sel" {
				return true
			}
			c.Replace(r.wrapAccess(n, r.mode[n] == modeWrite))
		}
	case *ast.SelectorExpr:
		if r.wrap[n] {
			c.Replace(r.wrapAccess(n, r.mode[n] == modeWrite))
		}
	case *ast.IndexExpr:
		if r.wrap[n] {
			c.Replace(r.wrapAccess(n, r.mode[n] == modeWrite))
		} else if r.mapIdx[n] {
			fn := "MapR"
			if r.mode[n] == modeWrite {
				fn = "MapW"
			}
			n.X = call(vrtSel(fn), n.X, r.site(n))
			r.needVrt, r.changed = true, true
		}
	case *ast.GoStmt:
		c.Replace(r.rewriteGo(n))
	case *ast.SendStmt:
		if r.skipComm[n] {
			return true
		}
		s := r.tmp("s")
		c.Replace(&ast.BlockStmt{List: []ast.Stmt{
			define(s, call(vrtSel("NewSend"), n.Chan)),
			assign(&ast.SelectorExpr{X: s, Sel: ast.NewIdent("V")}, n.Value),
			&ast.ExprStmt{X: call(&ast.SelectorExpr{X: s, Sel: ast.NewIdent("Do")}, r.site(n))},
		}})
		r.needVrt, r.changed = true, true
	case *ast.UnaryExpr:
		if n.Op != token.ARROW || r.skipComm[n] {
			return true
		}
		fn := "Recv"
		switch p := c.Parent().(type) {
		case *ast.AssignStmt:
			if len(p.Lhs) == 2 && len(p.Rhs) == 1 {
				fn = "Recv2"
			}
		case *ast.ValueSpec:
			if len(p.Names) == 2 && len(p.Values) == 1 {
				fn = "Recv2"
			}
		}
		c.Replace(call(vrtSel(fn), n.X, r.site(n)))
		r.needVrt, r.changed = true, true
	case *ast.CallExpr:
		switch {
		case r.isClose[n]:
			c.Replace(call(vrtSel("Close"), n.Args[0], r.site(n)))
			r.needVrt, r.changed = true, true
		case r.makeElem[n] != nil:
			var size ast.Expr = &ast.BasicLit{Kind: token.INT, Value: "0"}
			if len(n.Args) > 1 {
				size = n.Args[1]
			}
			var mk ast.Expr = call(&ast.IndexExpr{X: vrtSel("MakeChan"), Index: r.makeElem[n]}, size, r.site(n))
			if conv := r.makeConv[n]; conv != nil {
				mk = call(&ast.ParenExpr{X: conv}, mk)
			}
			c.Replace(mk)
			r.needVrt, r.changed = true, true
		case r.lenChan[n]:
			c.Replace(call(vrtSel("ChanLen"), n.Args[0], r.site(n)))
			r.needVrt, r.changed = true, true
		case r.delMap[n] && r.race:
			n.Args[0] = call(vrtSel("MapW"), n.Args[0], r.site(n))
			r.needVrt, r.changed = true, true
		case r.lenMap[n] && r.race:
			n.Args[0] = call(vrtSel("MapR"), n.Args[0], r.site(n))
			r.needVrt, r.changed = true, true
		}
	case *ast.SelectStmt:
		c.Replace(r.rewriteSelect(n))
	case *ast.LabeledStmt:
		// L: select {...}  ->  { temporaries; L: switch ... } so that "break L" keeps its meaning
		if b, ok := n.Stmt.(*ast.BlockStmt); ok && r.selBlock[b] {
			last := len(b.List) - 1
			b.List[last] = &ast.LabeledStmt{Label: n.Label, Stmt: b.List[last]}
			c.Replace(b)
		}
	case *ast.RangeStmt:
		switch r.rangeK[n] {
		case "map":
			c.Replace(r.rewriteMapRange(n))
		case "chan":
			c.Replace(r.rewriteChanRange(n))
		}
	case *ast.ImportSpec:
		p, _ := strconv.Unquote(n.Path.Value)
		if sh, ok := shimOf[p]; ok {
			if n.Name == nil {
				name := p[strings.LastIndexByte(p, '/')+1:]
				if p == "math/rand/v2" {
					name = "rand"
				}
				n.Name = ast.NewIdent(name)
			}
			n.Path = &ast.BasicLit{Kind: token.STRING, Value: strconv.Quote(sh)}
			n.EndPos = 0
			r.changed = true
		}
	}
	return true
}

func (r *rewriter) rewriteGo(n *ast.GoStmt) ast.Stmt {
	r.needVrt, r.changed = true, true
	var pre []ast.Stmt
	f := r.tmp("f")
	pre = append(pre, define(f, n.Call.Fun))
	var args []ast.Expr
	for _, a := range n.Call.Args {
		tv := r.info.Types[a]
		if tv.Value != nil || tv.IsNil() || tv.IsType() {
			args = append(args, a)
			continue
		}
		t := r.tmp("a")
		pre = append(pre, define(t, a))
		args = append(args, t)
	}
	inner := &ast.CallExpr{Fun: f, Args: args, Ellipsis: n.Call.Ellipsis}
	if n.Call.Ellipsis != token.NoPos {
		inner.Ellipsis = 1
	}
	lit := &ast.FuncLit{Type: &ast.FuncType{Params: &ast.FieldList{}}, Body: &ast.BlockStmt{List: []ast.Stmt{&ast.ExprStmt{X: inner}}}}
	pre = append(pre, &ast.ExprStmt{X: call(vrtSel("Go"), r.site(n), lit)})
	return &ast.BlockStmt{List: pre}
}

func (r *rewriter) rewriteSelect(n *ast.SelectStmt) ast.Stmt {
	r.needVrt, r.changed = true, true
	var pre []ast.Stmt
	var cases []ast.Expr
	var clauses []ast.Stmt
	vi, vv, vok := r.tmp("i"), r.tmp("v"), r.tmp("ok")
	hasDefault := false
	var defBody []ast.Stmt
	idx := 0
	for _, cl := range n.Body.List {
		cc := cl.(*ast.CommClause)
		if cc.Comm == nil {
			hasDefault = true
			defBody = cc.Body
			continue
		}
		var head []ast.Stmt
		switch s := cc.Comm.(type) {
		case *ast.SendStmt:
			t := r.tmp("s")
			pre = append(pre, define(t, call(vrtSel("NewSend"), s.Chan)))
			pre = append(pre, assign(&ast.SelectorExpr{X: t, Sel: ast.NewIdent("V")}, s.Value))
			cases = append(cases, call(&ast.SelectorExpr{X: t, Sel: ast.NewIdent("Case")}))
		case *ast.ExprStmt:
			u := unparen(s.X).(*ast.UnaryExpr)
			t := r.tmp("c")
			pre = append(pre, define(t, u.X))
			cases = append(cases, call(vrtSel("RecvCase"), t))
		case *ast.AssignStmt:
			u := unparen(s.Rhs[0]).(*ast.UnaryExpr)
			t := r.tmp("c")
			pre = append(pre, define(t, u.X))
			cases = append(cases, call(vrtSel("RecvCase"), t))
			rhs := []ast.Expr{call(vrtSel("As"), t, vv)}
			if len(s.Lhs) == 2 {
				rhs = append(rhs, vok)
			}
			head = append(head, &ast.AssignStmt{Lhs: s.Lhs, Tok: s.Tok, Rhs: rhs})
		default:
			r.unsupported(cc, "select communication form")
		}
		clauses = append(clauses, &ast.CaseClause{
			List: []ast.Expr{&ast.BasicLit{Kind: token.INT, Value: strconv.Itoa(idx)}},
			Body: append(head, cc.Body...),
		})
		idx++
	}
	if hasDefault {
		clauses = append(clauses, &ast.CaseClause{
			List: []ast.Expr{&ast.BasicLit{Kind: token.INT, Value: strconv.Itoa(idx)}},
			Body: defBody,
		})
	}
	clauses = append(clauses, &ast.CaseClause{Body: []ast.Stmt{
		&ast.ExprStmt{X: call(ast.NewIdent("panic"), &ast.BasicLit{Kind: token.STRING, Value: `"vrt: impossible select index"`})},
	}})
	hd := "false"
	if hasDefault {
		hd = "true"
	}
	args := append([]ast.Expr{r.site(n), ast.NewIdent(hd)}, cases...)
	pre = append(pre,
		&ast.AssignStmt{Lhs: []ast.Expr{vi, vv, vok}, Tok: token.DEFINE, Rhs: []ast.Expr{call(vrtSel("Select"), args...)}},
		&ast.AssignStmt{Lhs: []ast.Expr{ast.NewIdent("_"), ast.NewIdent("_")}, Tok: token.ASSIGN, Rhs: []ast.Expr{vv, vok}},
		&ast.SwitchStmt{Tag: vi, Body: &ast.BlockStmt{List: clauses}},
	)
	blk := &ast.BlockStmt{List: pre}
	r.selBlock[blk] = true
	return blk
}

func isBlank(e ast.Expr) bool {
	id, ok := e.(*ast.Ident)
	return e == nil || ok && id.Name == "_"
}

func (r *rewriter) rewriteMapRange(n *ast.RangeStmt) ast.Stmt {
	r.needVrt, r.changed = true, true
	m := r.tmp("m")
	k := r.tmp("k")
	x := n.X
	if r.race && r.ownField(n.X) {
		// n.X was possibly wrapped already (read of the field); add the map read
		x = call(vrtSel("MapR"), x, r.site(n))
	}
	var head []ast.Stmt
	ok := r.tmp("ok")
	val := r.tmp("e")
	head = append(head, &ast.AssignStmt{Lhs: []ast.Expr{val, ok}, Tok: token.DEFINE, Rhs: []ast.Expr{&ast.IndexExpr{X: m, Index: k}}})
	head = append(head, &ast.IfStmt{Cond: &ast.UnaryExpr{Op: token.NOT, X: ok}, Body: &ast.BlockStmt{List: []ast.Stmt{&ast.BranchStmt{Tok: token.CONTINUE}}}})
	head = append(head, assign(ast.NewIdent("_"), val))
	if !isBlank(n.Key) {
		head = append(head, &ast.AssignStmt{Lhs: []ast.Expr{n.Key}, Tok: n.Tok, Rhs: []ast.Expr{k}})
	}
	if !isBlank(n.Value) {
		head = append(head, &ast.AssignStmt{Lhs: []ast.Expr{n.Value}, Tok: n.Tok, Rhs: []ast.Expr{val}})
	}
	loop := &ast.RangeStmt{Key: ast.NewIdent("_"), Value: k, Tok: token.DEFINE, X: call(vrtSel("MapOrder"), m, r.site(n)),
		Body: &ast.BlockStmt{List: append(head, n.Body.List...)}}
	pre := []ast.Stmt{define(m, x)}
	if n.Tok == token.DEFINE && r.sharedLoopVars {
		// go < 1.22: one variable for the whole loop, declared outside and assigned per iteration
		for i, st := range head {
			as, ok := st.(*ast.AssignStmt)
			if !ok || as.Tok != token.DEFINE || i < 3 {
				continue
			}
			as.Tok = token.ASSIGN
			zero := "ZeroVal"
			if as.Lhs[0] == n.Key {
				zero = "ZeroKey"
			}
			pre = append(pre, define(as.Lhs[0], call(vrtSel(zero), m)), assign(ast.NewIdent("_"), as.Lhs[0]))
		}
	}
	return &ast.BlockStmt{List: append(pre, loop)}
}

func (r *rewriter) rewriteChanRange(n *ast.RangeStmt) ast.Stmt {
	r.needVrt, r.changed = true, true
	ch := r.tmp("c")
	v, ok := r.tmp("e"), r.tmp("ok")
	head := []ast.Stmt{
		&ast.AssignStmt{Lhs: []ast.Expr{v, ok}, Tok: token.DEFINE, Rhs: []ast.Expr{call(vrtSel("Recv2"), ch, r.site(n))}},
		&ast.IfStmt{Cond: &ast.UnaryExpr{Op: token.NOT, X: ok}, Body: &ast.BlockStmt{List: []ast.Stmt{&ast.BranchStmt{Tok: token.BREAK}}}},
		assign(ast.NewIdent("_"), v),
	}
	if !isBlank(n.Key) {
		head = append(head, &ast.AssignStmt{Lhs: []ast.Expr{n.Key}, Tok: n.Tok, Rhs: []ast.Expr{v}})
	}
	loop := &ast.ForStmt{Body: &ast.BlockStmt{List: append(head, n.Body.List...)}}
	return &ast.BlockStmt{List: []ast.Stmt{define(ch, n.X), loop}}
}

func buildHeader(src []byte) string {
	// keep build constraints that precede the package clause
	var keep []string
	for _, line := range strings.Split(string(src), "\n") {
		t := strings.TrimSpace(line)
		if strings.HasPrefix(t, "package ") {
			break
		}
		if strings.HasPrefix(t, "//go:build") || strings.HasPrefix(t, "// +build") {
			keep = append(keep, t)
		}
	}
	if len(keep) == 0 {
		return ""
	}
	return strings.Join(keep, "\n") + "\n\n"
}

func main() {
	repo := flag.String("repo", "/repo", "directory of the corebgp module")
	out := flag.String("out", "", "output directory for rewritten files and overlay.json")
	race := flag.Bool("race", true, "instrument field/array/map accesses for the race detector")
	conc := flag.Bool("conc", true, "rewrite concurrency constructs and imports (false: only add the export shim)")
	exportFile := flag.String("export", "", "file to add to the package as zz_verif_export.go")
	flag.Parse()
	if *out == "" {
		fatalf(3, "ENGINE-ERROR vinstr: -out required")
	}
	if abs, err := filepath.Abs(*out); err == nil {
		*out = abs
	}
	if err := os.MkdirAll(*out, 0o755); err != nil {
		fatalf(3, "ENGINE-ERROR %v", err)
	}
	overlay := map[string]string{}
	if *exportFile != "" {
		overlay[filepath.Join(*repo, "zz_verif_export.go")] = *exportFile
	}
	if *conc {
		cfg := &packages.Config{
			Mode: packages.NeedName | packages.NeedFiles | packages.NeedCompiledGoFiles | packages.NeedSyntax | packages.NeedTypes | packages.NeedTypesInfo | packages.NeedImports | packages.NeedDeps | packages.NeedModule,
			Dir:  *repo,
			Env:  append(os.Environ(), "GOFLAGS=-mod=mod", "GOPROXY=off", "GOSUMDB=off", "GOTOOLCHAIN=local"),
		}
		pkgs, err := packages.Load(cfg, ".")
		if err != nil {
			fatalf(3, "ENGINE-ERROR load: %v", err)
		}
		if len(pkgs) != 1 {
			fatalf(3, "ENGINE-ERROR load: %d packages", len(pkgs))
		}
		pkg := pkgs[0]
		if len(pkg.Errors) > 0 {
			for _, e := range pkg.Errors {
				fmt.Fprintln(os.Stderr, "ENGINE-BUILD", e)
			}
			os.Exit(3)
		}
		shared := false
		if pkg.Module != nil && pkg.Module.GoVersion != "" {
			var maj, min int
			fmt.Sscanf(pkg.Module.GoVersion, "%d.%d", &maj, &min)
			shared = maj == 1 && min < 22
		}
		nsel, nchan := 0, 0
		for i, f := range pkg.Syntax {
			name := pkg.CompiledGoFiles[i]
			src, err := os.ReadFile(name)
			if err != nil {
				fatalf(3, "ENGINE-ERROR %v", err)
			}
			r := &rewriter{fset: pkg.Fset, info: pkg.TypesInfo, pkg: pkg.Types, file: name, race: *race, sharedLoopVars: shared,
				skipComm: map[ast.Node]bool{}, mode: map[ast.Expr]accessMode{}, wrap: map[ast.Expr]bool{}, siteOf: map[ast.Node]*ast.BasicLit{},
				isClose: map[*ast.CallExpr]bool{}, makeElem: map[*ast.CallExpr]ast.Expr{}, delMap: map[*ast.CallExpr]bool{},
				lenMap: map[*ast.CallExpr]bool{}, lenChan: map[*ast.CallExpr]bool{}, makeConv: map[*ast.CallExpr]ast.Expr{}, selBlock: map[*ast.BlockStmt]bool{}, wrapID: map[*ast.Ident]bool{}, rangeK: map[*ast.RangeStmt]string{}, mapIdx: map[*ast.IndexExpr]bool{}}
			res := astutil.Apply(f, r.pre, r.post).(*ast.File)
			if len(r.errs) > 0 {
				for _, e := range r.errs {
					fmt.Fprintln(os.Stderr, e)
				}
				os.Exit(3)
			}
			if !r.changed {
				continue
			}
			nsel += len(r.wrap)
			nchan += r.n
			if r.needVrt {
				astutil.AddImport(pkg.Fset, res, vrtPath)
			}
			for _, cg := range res.Comments {
				for _, cm := range cg.List {
					if strings.HasPrefix(cm.Text, "//go:") && !strings.HasPrefix(cm.Text, "//go:build") {
						fatalf(3, "ENGINE-UNSUPPORTED %s: compiler directive %s in a file that needs rewriting", filepath.Base(name), cm.Text)
					}
				}
			}
			res.Comments = nil
			res.Doc = nil
			ast.Inspect(res, func(n ast.Node) bool {
				switch d := n.(type) {
				case *ast.FuncDecl:
					d.Doc = nil
				case *ast.GenDecl:
					d.Doc = nil
				case *ast.Field:
					d.Doc, d.Comment = nil, nil
				case *ast.ValueSpec:
					d.Doc, d.Comment = nil, nil
				case *ast.TypeSpec:
					d.Doc, d.Comment = nil, nil
				case *ast.ImportSpec:
					d.Doc, d.Comment = nil, nil
				}
				return true
			})
			var buf bytes.Buffer
			buf.WriteString(buildHeader(src))
			buf.WriteString("// Code generated by vinstr from " + filepath.Base(name) + "; DO NOT EDIT.\n\n")
			if err := (&printer.Config{Mode: printer.UseSpaces | printer.TabIndent, Tabwidth: 8}).Fprint(&buf, pkg.Fset, res); err != nil {
				fatalf(3, "ENGINE-ERROR print %s: %v", name, err)
			}
			dst := filepath.Join(*out, filepath.Base(name))
			if err := os.WriteFile(dst, buf.Bytes(), 0o644); err != nil {
				fatalf(3, "ENGINE-ERROR %v", err)
			}
			overlay[name] = dst
		}
		fmt.Fprintf(os.Stderr, "vinstr: %d files rewritten, %d accesses wrapped, %d temporaries\n", len(overlay), nsel, nchan)
	}
	b, _ := json.MarshalIndent(map[string]any{"Replace": overlay}, "", " ")
	if err := os.WriteFile(filepath.Join(*out, "overlay.json"), b, 0o644); err != nil {
		fatalf(3, "ENGINE-ERROR %v", err)
	}
}
