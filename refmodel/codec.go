package refmodel

import (
	"encoding/binary"

	"corebgpverif/wire"
)

// Reference codecs of property C15, written from RFC 4271 sections 4.1, 4.2
// and 4.5, RFC 5492 section 4, RFC 7911 section 4 and RFC 4760 section 8.

// OpenValue is an OPEN whose optional parameters are all capabilities
// parameters (type 2), the only kind corebgp can hold.
type OpenValue struct {
	Version byte
	AS      uint16
	Hold    uint16
	ID      uint32
	Params  [][]wire.Cap
}

// Representable reports whether o can be written as an OPEN at all: every
// length octet (capability, parameter, optional-parameters) holds its length.
func (o *OpenValue) Representable() bool {
	area := 0
	for _, p := range o.Params {
		pl := 0
		for _, c := range p {
			if len(c.Value) > 255 {
				return false
			}
			pl += 2 + len(c.Value)
		}
		if pl > 255 {
			return false
		}
		area += 2 + pl
	}
	return area <= 255
}

// OpenArea returns the optional-parameter bytes of o and the offsets of the
// parameter and capability length octets inside them. Only meaningful for a
// representable o.
func OpenArea(o *OpenValue) (area []byte, lenPos []int) {
	for _, p := range o.Params {
		pl := 0
		for _, c := range p {
			pl += 2 + len(c.Value)
		}
		lenPos = append(lenPos, len(area)+1)
		area = append(area, 2, byte(pl))
		for _, c := range p {
			lenPos = append(lenPos, len(area)+1)
			area = append(area, c.Code, byte(len(c.Value)))
			area = append(area, c.Value...)
		}
	}
	return area, lenPos
}

// OpenBodyOf returns the OPEN body (no header) of a representable o.
func OpenBodyOf(o *OpenValue) []byte {
	area, _ := OpenArea(o)
	b := make([]byte, 10, 10+len(area))
	b[0] = o.Version
	binary.BigEndian.PutUint16(b[1:], o.AS)
	binary.BigEndian.PutUint16(b[3:], o.Hold)
	binary.BigEndian.PutUint32(b[5:], o.ID)
	b[9] = byte(len(area))
	return append(b, area...)
}

// Faults of an OPEN body, as returned by OpenFault.
const (
	FaultNone        = ""
	FaultFixed       = "missing-fixed-fields"       // fewer than the 10 fixed octets
	FaultOuterLength = "optional-parameters-length" // Opt Parm Len != octets that follow
	FaultParamHeader = "parameter-header"           // fewer than 2 octets left for a parameter
	FaultParamLength = "parameter-length"           // Parm. Length overruns the optional parameters
	FaultCapHeader   = "capability-header"          // fewer than 2 octets left for a capability
	FaultCapLength   = "capability-length"          // Capability Length overruns its parameter
)

// OpenFault returns the first reason why b is not a well-formed OPEN body:
// the fixed fields are missing or a nested length octet disagrees with the
// bytes that follow. It does not look at field values or parameter types
// (parameters other than type 2 are opaque).
func OpenFault(b []byte) string {
	if len(b) < 10 {
		return FaultFixed
	}
	if int(b[9]) != len(b)-10 {
		return FaultOuterLength
	}
	for p := b[10:]; len(p) > 0; {
		if len(p) < 2 {
			return FaultParamHeader
		}
		pl := int(p[1])
		if pl > len(p)-2 {
			return FaultParamLength
		}
		if p[0] == 2 {
			for v := p[2 : 2+pl]; len(v) > 0; {
				if len(v) < 2 {
					return FaultCapHeader
				}
				cl := int(v[1])
				if cl > len(v)-2 {
					return FaultCapLength
				}
				v = v[2+cl:]
			}
		}
		p = p[2+pl:]
	}
	return FaultNone
}

// AddPathTupleBytes is one RFC 7911 tuple: AFI(2) SAFI(1) Send/Receive(1)
// with 1 = able to receive, 2 = able to send, 3 = both.
func AddPathTupleBytes(afi uint16, safi byte, send, receive bool) []byte {
	var sr byte
	if receive {
		sr |= 1
	}
	if send {
		sr |= 2
	}
	return []byte{byte(afi >> 8), byte(afi), safi, sr}
}

// MPExtValue is the RFC 4760 section 8 capability value: AFI(2) Res(1)=0 SAFI(1).
func MPExtValue(afi uint16, safi byte) []byte {
	return []byte{byte(afi >> 8), byte(afi), 0, safi}
}
