package refmodel

import "fmt"

// Reference codec for prefix lists and the MP_REACH_NLRI / MP_UNREACH_NLRI
// attribute layout (property C19). Written from the RFC text; every numeric
// literal below is taken from the cited sentence.
//
// RFC 4271 section 4.3 (Withdrawn Routes and NLRI): a list of <length, prefix>
// tuples; "The Length field indicates the length in bits of the IP address
// prefix. A length of zero indicates a prefix that matches all IP addresses";
// "The Prefix field contains an IP address prefix, followed by the minimum
// number of trailing bits needed to make the end of the field fall on an
// octet boundary. Note that the value of trailing bits is irrelevant."
//
// RFC 4760 section 5: the same <length, prefix> encoding inside the MP
// attributes. RFC 7911 section 3: with ADD-PATH every tuple is preceded by a
// four-octet Path Identifier.
//
// RFC 7606 section 5.3: the field is syntactically incorrect if "the length
// of any of the included NLRI is greater than 32" (128 for IPv6, the length
// of the address) or if "when parsing NLRI contained in the field, the length
// of an NLRI does not fit within" the remaining octets of the field.

// Route is one entry of a prefix list as it appears on the wire.
type Route struct {
	HasID bool
	ID    uint32 // path identifier (RFC 7911), meaningful if HasID
	Bits  int    // prefix length in bits
	Addr  []byte // the (Bits+7)/8 prefix octets as encoded, trailing bits included
}

func (r Route) String() string {
	if r.HasID {
		return fmt.Sprintf("id=%d %x/%d", r.ID, r.Addr, r.Bits)
	}
	return fmt.Sprintf("%x/%d", r.Addr, r.Bits)
}

// PrefixFault says why a field is not a well-formed prefix list.
type PrefixFault int

const (
	PrefixOK        PrefixFault = iota
	PrefixTooLong               // a length octet exceeds the address length of the family
	PrefixTruncated             // the field ends inside an entry
)

func (f PrefixFault) String() string {
	return [...]string{"well-formed", "length-over-max", "truncated-entry"}[f]
}

// PrefixOctets is the number of prefix octets following a length octet: the
// minimum number of octets that hold bits bits.
func PrefixOctets(bits int) int {
	n := bits / 8
	if bits%8 != 0 {
		n++
	}
	return n
}

// EncodePrefixes is the reference encoder.
func EncodePrefixes(routes []Route) []byte {
	var out []byte
	for _, r := range routes {
		if r.HasID {
			out = append(out, byte(r.ID>>24), byte(r.ID>>16), byte(r.ID>>8), byte(r.ID))
		}
		out = append(out, byte(r.Bits))
		out = append(out, r.Addr[:PrefixOctets(r.Bits)]...)
	}
	return out
}

// DecodePrefixes is the reference decoder: the routes of the field, in order,
// or the fault that makes the field syntactically incorrect. maxBits is 32
// for IPv4 and 128 for IPv6. An empty field is an empty list.
func DecodePrefixes(field []byte, maxBits int, addPath bool) ([]Route, PrefixFault) {
	var routes []Route
	pos := 0
	for pos < len(field) {
		var r Route
		if addPath {
			if len(field)-pos < 4 {
				return nil, PrefixTruncated
			}
			r.HasID = true
			r.ID = uint32(field[pos])<<24 | uint32(field[pos+1])<<16 | uint32(field[pos+2])<<8 | uint32(field[pos+3])
			pos += 4
			if pos == len(field) {
				return nil, PrefixTruncated // path identifier without a length octet
			}
		}
		r.Bits = int(field[pos])
		pos++
		if r.Bits > maxBits {
			return nil, PrefixTooLong
		}
		n := PrefixOctets(r.Bits)
		if len(field)-pos < n {
			return nil, PrefixTruncated
		}
		r.Addr = append([]byte{}, field[pos:pos+n]...)
		pos += n
		routes = append(routes, r)
	}
	return routes, PrefixOK
}

// SameLeadingBits reports whether the first bits bits of a and b agree. Bits
// after the prefix length are irrelevant (RFC 4271 section 4.3) and are not
// compared. Both slices must hold at least (bits+7)/8 octets.
func SameLeadingBits(a, b []byte, bits int) bool {
	if len(a) < PrefixOctets(bits) || len(b) < PrefixOctets(bits) {
		return false
	}
	full := bits / 8
	for i := 0; i < full; i++ {
		if a[i] != b[i] {
			return false
		}
	}
	if rem := bits % 8; rem != 0 {
		mask := byte(0xff) << (8 - rem)
		if a[full]&mask != b[full]&mask {
			return false
		}
	}
	return true
}

// NOTIFICATION codes the RFCs assign to the failures of property C19
// (RFC 4271 sections 4.5 and 6.3).
const (
	NotifUpdateMessageError = 3  // Error Code 3: UPDATE Message Error
	SubUnspecific           = 0  // no subcode is defined for the fault
	SubAttributeFlagsError  = 4  // "Attribute Flags Error"
	SubAttributeLengthError = 5  // "Attribute Length Error"
	SubInvalidNetworkField  = 10 // "Invalid Network Field" (syntactically incorrect NLRI)
)

// Attribute Flags bits (RFC 4271 section 4.3): "The high-order bit (bit 0) of
// the Attribute Flags octet is the Optional bit", bit 1 the Transitive bit,
// bit 2 the Partial bit.
const (
	flagOptional   byte = 0x80
	flagTransitive byte = 0x40
	flagPartial    byte = 0x20
)

// MPFlagsLegal reports whether the Optional and Transitive bits of an
// attribute flags octet are those of MP_REACH_NLRI / MP_UNREACH_NLRI, which
// are "optional non-transitive" attributes (RFC 4760 sections 3 and 4).
// RFC 7606 section 3.c judges only these two bits.
func MPFlagsLegal(flags byte) bool {
	return flags&flagOptional != 0 && flags&flagTransitive == 0
}

// MPFlagsClean additionally requires Partial = 0 ("for optional
// non-transitive attributes, the Partial bit MUST be set to 0", RFC 4271
// section 4.3). The Extended Length bit and the four unused low-order bits
// ("MUST be ignored when received") never matter.
func MPFlagsClean(flags byte) bool {
	return MPFlagsLegal(flags) && flags&flagPartial == 0
}

// MPReach is the content of an MP_REACH_NLRI attribute (RFC 4760 section 3):
//
//	AFI (2 octets) | SAFI (1) | Length of Next Hop Network Address (1) |
//	Network Address of Next Hop (variable) | Reserved (1) | NLRI (variable)
type MPReach struct {
	AFI     uint16
	SAFI    byte
	NextHop []byte
	NLRI    []byte
}

// SplitMPReach splits an MP_REACH_NLRI attribute value. ok is false when the
// attribute is too short to contain the fields its own next-hop length octet
// announces: fewer than 2+1+1+1 octets, or fewer than 4 + next-hop length + 1
// (the reserved octet).
func SplitMPReach(b []byte) (MPReach, bool) {
	if len(b) < 5 {
		return MPReach{}, false
	}
	nhLen := int(b[3])
	if len(b) < 4+nhLen+1 {
		return MPReach{}, false
	}
	return MPReach{
		AFI:     uint16(b[0])<<8 | uint16(b[1]),
		SAFI:    b[2],
		NextHop: b[4 : 4+nhLen],
		NLRI:    b[4+nhLen+1:],
	}, true
}

// MPUnreach is the content of an MP_UNREACH_NLRI attribute (RFC 4760
// section 4): AFI (2 octets) | SAFI (1) | Withdrawn Routes (variable).
type MPUnreach struct {
	AFI       uint16
	SAFI      byte
	Withdrawn []byte
}

// SplitMPUnreach splits an MP_UNREACH_NLRI attribute value; ok is false when
// it is shorter than the 3 octets of AFI and SAFI.
func SplitMPUnreach(b []byte) (MPUnreach, bool) {
	if len(b) < 3 {
		return MPUnreach{}, false
	}
	return MPUnreach{AFI: uint16(b[0])<<8 | uint16(b[1]), SAFI: b[2], Withdrawn: b[3:]}, true
}

// IPv6NextHops splits the next hop of an IPv6 MP_REACH_NLRI: "The value of
// the Length of Next Hop Network Address field on a MP_REACH_NLRI attribute
// shall be set to 16, when only a global address is present, or 32 if a
// link-local address is also included" (RFC 2545 section 3). Any other
// length is malformed (RFC 7606 section 7.11).
func IPv6NextHops(nh []byte) ([][]byte, bool) {
	switch len(nh) {
	case 16:
		return [][]byte{nh[:16]}, true
	case 32:
		return [][]byte{nh[:16], nh[16:32]}, true
	}
	return nil, false
}
