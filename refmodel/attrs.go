package refmodel

// Reference model of property C18: the eleven typed path attributes, written
// from the RFC text only (RFC 4271 sections 4.3, 5 and 6.3, RFC 7606 sections
// 3 and 7, RFC 1997, RFC 4456, RFC 8092, RFC 6793). All numbers below are the
// literals of those RFCs; nothing is shared with corebgp.

import (
	"bytes"
	"encoding/binary"
	"fmt"
	"strings"
)

// Approach is an RFC 7606 section 2 error-handling approach.
type Approach int

const (
	TreatAsWithdraw Approach = iota
	AttrDiscard
)

func (a Approach) String() string { return [...]string{"treat-as-withdraw", "attribute-discard"}[a] }

// AttrSpec is one row of the reference table.
type AttrSpec struct {
	Name       string
	Code       byte     // attribute type code
	Optional   bool     // value of the Optional bit the RFC assigns
	Transitive bool     // value of the Transitive bit the RFC assigns
	Malformed  Approach // RFC 7606 section 7 approach for a malformed value
	Fixed      int      // fixed value length in octets; -1 = variable
	Elem       int      // element size of a list attribute; 0 = not a list
	Example    []byte   // one well-formed value
	Source     string
}

// Attrs is the reference table.
//
// Well-known attributes have Optional=0 and MUST have Transitive=1 (RFC 4271
// 4.3); MULTI_EXIT_DISC is optional non-transitive (5.1.4), AGGREGATOR
// optional transitive (5.1.7), COMMUNITIES optional transitive (RFC 1997),
// ORIGINATOR_ID and CLUSTER_LIST optional non-transitive (RFC 4456 section 8),
// LARGE_COMMUNITIES optional transitive (RFC 8092 section 3).
var Attrs = []AttrSpec{
	{Name: "ORIGIN", Code: 1, Optional: false, Transitive: true, Malformed: TreatAsWithdraw, Fixed: 1,
		Example: []byte{0}, Source: "RFC 4271 5.1.1, 6.3; RFC 7606 7.1"},
	{Name: "AS_PATH", Code: 2, Optional: false, Transitive: true, Malformed: TreatAsWithdraw, Fixed: -1,
		Example: []byte{2, 1, 0, 0, 0xfd, 0xe9}, Source: "RFC 4271 4.3, 5.1.2, 6.3; RFC 6793 3; RFC 7606 7.2"},
	{Name: "NEXT_HOP", Code: 3, Optional: false, Transitive: true, Malformed: TreatAsWithdraw, Fixed: 4,
		Example: []byte{10, 0, 0, 1}, Source: "RFC 4271 5.1.3; RFC 7606 7.3"},
	{Name: "MULTI_EXIT_DISC", Code: 4, Optional: true, Transitive: false, Malformed: TreatAsWithdraw, Fixed: 4,
		Example: []byte{0, 0, 0, 100}, Source: "RFC 4271 5.1.4; RFC 7606 7.4"},
	{Name: "LOCAL_PREF", Code: 5, Optional: false, Transitive: true, Malformed: TreatAsWithdraw, Fixed: 4,
		Example: []byte{0, 0, 0, 100}, Source: "RFC 4271 5.1.5; RFC 7606 7.5"},
	{Name: "ATOMIC_AGGREGATE", Code: 6, Optional: false, Transitive: true, Malformed: AttrDiscard, Fixed: 0,
		Example: []byte{}, Source: "RFC 4271 5.1.6; RFC 7606 7.6"},
	{Name: "AGGREGATOR", Code: 7, Optional: true, Transitive: true, Malformed: AttrDiscard, Fixed: 8,
		Example: []byte{0, 0, 0xfd, 0xe9, 10, 0, 0, 1}, Source: "RFC 4271 5.1.7; RFC 6793 3; RFC 7606 7.7"},
	{Name: "COMMUNITIES", Code: 8, Optional: true, Transitive: true, Malformed: TreatAsWithdraw, Fixed: -1, Elem: 4,
		Example: []byte{0xfd, 0xe9, 0, 1}, Source: "RFC 1997; RFC 7606 7.8"},
	{Name: "ORIGINATOR_ID", Code: 9, Optional: true, Transitive: false, Malformed: TreatAsWithdraw, Fixed: 4,
		Example: []byte{10, 0, 0, 1}, Source: "RFC 4456 8; RFC 7606 7.9"},
	{Name: "CLUSTER_LIST", Code: 10, Optional: true, Transitive: false, Malformed: TreatAsWithdraw, Fixed: -1, Elem: 4,
		Example: []byte{10, 0, 0, 1}, Source: "RFC 4456 8; RFC 7606 7.10"},
	{Name: "LARGE_COMMUNITIES", Code: 32, Optional: true, Transitive: true, Malformed: TreatAsWithdraw, Fixed: -1, Elem: 12,
		Example: []byte{0, 0, 0xfd, 0xe9, 0, 0, 0, 1, 0, 0, 0, 2}, Source: "RFC 8092 3, 6"},
}

// AttrByName finds a row of the table.
func AttrByName(name string) *AttrSpec {
	for i := range Attrs {
		if Attrs[i].Name == name {
			return &Attrs[i]
		}
	}
	return nil
}

// LegalFlags returns the flags octet with the assigned Optional/Transitive
// bits and all other bits zero.
func (s *AttrSpec) LegalFlags() byte {
	var f byte
	if s.Optional {
		f |= 128
	}
	if s.Transitive {
		f |= 64
	}
	return f
}

// FlagBits returns the Optional, Transitive, Partial and Extended Length bits
// of a flags octet: bits 0..3 in RFC 4271 4.3 numbering, i.e. the four
// high-order bits, highest first.
func FlagBits(flags byte) (optional, transitive, partial, extended bool) {
	n := int(flags)
	return n/128%2 == 1, n/64%2 == 1, n/32%2 == 1, n/16%2 == 1
}

// AttrValue is the decoded content of an attribute in a neutral form. Only
// the fields of the attribute at hand are used.
type AttrValue struct {
	Origin     byte        // ORIGIN
	U32        uint32      // MULTI_EXIT_DISC, LOCAL_PREF; AS number of AGGREGATOR
	Addr       []byte      // NEXT_HOP, ORIGINATOR_ID; address of AGGREGATOR (4 octets)
	Present    bool        // ATOMIC_AGGREGATE
	ASSequence []uint32    // AS_PATH: AS numbers of all AS_SEQUENCE segments, in order
	ASSet      []uint32    // AS_PATH: AS numbers of all AS_SET segments, in order
	U32s       []uint32    // COMMUNITIES
	Addrs      [][]byte    // CLUSTER_LIST (4 octets each)
	Large      [][3]uint32 // LARGE_COMMUNITIES
}

func equalU32s(a, b []uint32) bool {
	if len(a) != len(b) {
		return false
	}
	for i := range a {
		if a[i] != b[i] {
			return false
		}
	}
	return true
}

// Equal compares two values; nil and empty lists are the same.
func (v AttrValue) Equal(w AttrValue) bool {
	if v.Origin != w.Origin || v.U32 != w.U32 || v.Present != w.Present || !bytes.Equal(v.Addr, w.Addr) {
		return false
	}
	if !equalU32s(v.ASSequence, w.ASSequence) || !equalU32s(v.ASSet, w.ASSet) || !equalU32s(v.U32s, w.U32s) {
		return false
	}
	if len(v.Addrs) != len(w.Addrs) || len(v.Large) != len(w.Large) {
		return false
	}
	for i := range v.Addrs {
		if !bytes.Equal(v.Addrs[i], w.Addrs[i]) {
			return false
		}
	}
	for i := range v.Large {
		if v.Large[i] != w.Large[i] {
			return false
		}
	}
	return true
}

// Elements counts the AS numbers, communities and addresses carried.
func (v AttrValue) Elements() int {
	n := len(v.ASSequence) + len(v.ASSet) + len(v.U32s) + len(v.Addrs) + len(v.Large)
	if len(v.Addr) > 0 {
		n++
	}
	return n
}

func shortList[T any](l []T) string {
	if len(l) <= 8 {
		return fmt.Sprint(l)
	}
	return fmt.Sprintf("%v...(%d elements)", l[:8], len(l))
}

func (v AttrValue) String() string {
	var p []string
	add := func(f string, a ...any) { p = append(p, fmt.Sprintf(f, a...)) }
	if v.Origin != 0 {
		add("origin=%d", v.Origin)
	}
	if v.U32 != 0 {
		add("u32=%d", v.U32)
	}
	if v.Addr != nil {
		add("addr=%v", v.Addr)
	}
	if v.Present {
		add("present")
	}
	if len(v.ASSequence) > 0 {
		add("as_sequence=%s", shortList(v.ASSequence))
	}
	if len(v.ASSet) > 0 {
		add("as_set=%s", shortList(v.ASSet))
	}
	if len(v.U32s) > 0 {
		add("communities=%s", shortList(v.U32s))
	}
	if len(v.Addrs) > 0 {
		add("addrs=%s", shortList(v.Addrs))
	}
	if len(v.Large) > 0 {
		add("large=%s", shortList(v.Large))
	}
	return "{" + strings.Join(p, " ") + "}"
}

// AttrReaction is one admissible failure: the RFC 7606 approach and the
// subcode of the fallback NOTIFICATION (code 3, UPDATE Message Error).
type AttrReaction struct {
	Approach Approach
	Subcode  int // -1 = subcode not judged
	Why      string
}

func (r AttrReaction) String() string {
	if r.Subcode < 0 {
		return fmt.Sprintf("(%s, 3/*) %s", r.Approach, r.Why)
	}
	return fmt.Sprintf("(%s, 3/%d) %s", r.Approach, r.Subcode, r.Why)
}

// AttrVerdict is the reference judgement of one (flags, value) pair.
type AttrVerdict struct {
	Class      Class
	FlagsFault bool           // Optional/Transitive bits conflict with the assigned ones
	ValueFault string         // "" or the kind of value fault: length | value | syntax
	Silent     string         // aspect on which the property is silent ("" if none)
	Admissible []AttrReaction // failures prescribed for a fault (or silent aspect) present
	Value      AttrValue      // content a successful decode must yield (Accept, DontCare)
}

// Kinds names the definite faults present, e.g. "flags+length".
func (v AttrVerdict) Kinds() string {
	var k []string
	if v.FlagsFault {
		k = append(k, "flags")
	}
	if v.ValueFault != "" {
		k = append(k, v.ValueFault)
	}
	if len(k) == 0 && v.Silent != "" {
		return "silent"
	}
	return strings.Join(k, "+")
}

func be32(b []byte) uint32 { return binary.BigEndian.Uint32(b) }

func addr4(b []byte) []byte { return append([]byte{}, b[:4]...) }

// parseASPath parses an AS_PATH value with 4-octet AS numbers (RFC 6793): a
// possibly empty sequence of segments <type (1 octet), number of ASes (1
// octet), AS numbers (4 octets each)>; type 1 = AS_SET, 2 = AS_SEQUENCE (RFC
// 4271 4.3). RFC 7606 7.2: malformed on an unrecognized segment type, an
// overrun, a single remaining octet, or a segment length of zero.
func parseASPath(b []byte) (seq, set []uint32, zeroAS bool, fault string) {
	for len(b) > 0 {
		if len(b) < 2 {
			return nil, nil, false, "a single octet remains after the last segment"
		}
		typ, n := b[0], int(b[1])
		if typ != 1 && typ != 2 {
			return nil, nil, false, "unrecognized segment type"
		}
		if n == 0 {
			return nil, nil, false, "path segment length zero"
		}
		if len(b)-2 < 4*n {
			return nil, nil, false, "segment overruns the attribute"
		}
		for i := 0; i < n; i++ {
			as := be32(b[2+4*i:])
			if as == 0 {
				zeroAS = true
			}
			if typ == 1 {
				set = append(set, as)
			} else {
				seq = append(seq, as)
			}
		}
		b = b[2+4*n:]
	}
	return seq, set, zeroAS, ""
}

// notHostAddress reports the IPv4 addresses that cannot be a host address
// (RFC 1122 3.2.1.3: 0/8, 127/8, class D, class E incl. broadcast).
func notHostAddress(a []byte) bool { return a[0] == 0 || a[0] == 127 || a[0] >= 224 }

// JudgeAttr is the predicate of property C18 for one attribute: success is
// prescribed exactly when the Optional/Transitive bits are the assigned ones
// and the value satisfies the length/value rule. The Partial and Extended
// Length bits and the four low-order bits never influence the verdict.
func JudgeAttr(s *AttrSpec, flags byte, b []byte) AttrVerdict {
	var v AttrVerdict
	optional, transitive, _, _ := FlagBits(flags)
	if optional != s.Optional || transitive != s.Transitive {
		// RFC 7606 3.c: treat-as-withdraw; RFC 4271 6.3: Attribute Flags Error (4)
		v.FlagsFault = true
		v.Admissible = append(v.Admissible, AttrReaction{TreatAsWithdraw, 4, "attribute flags conflict"})
	}
	lengthFault := func(bad bool) bool {
		if bad {
			// RFC 4271 6.3: Attribute Length Error (5)
			v.ValueFault = "length"
			v.Admissible = append(v.Admissible, AttrReaction{s.Malformed, 5, "attribute length"})
		}
		return bad
	}
	silent := func(why string) {
		v.Silent = why
		v.Admissible = append(v.Admissible, AttrReaction{s.Malformed, -1, why})
	}
	switch s.Code {
	case 1: // ORIGIN: one octet, 0 IGP, 1 EGP, 2 INCOMPLETE
		if lengthFault(len(b) != 1) {
			break
		}
		if b[0] > 2 {
			// RFC 4271 6.3: Invalid ORIGIN Attribute (6)
			v.ValueFault = "value"
			v.Admissible = append(v.Admissible, AttrReaction{s.Malformed, 6, "undefined ORIGIN value"})
			break
		}
		v.Value.Origin = b[0]
	case 2: // AS_PATH
		seq, set, zeroAS, fault := parseASPath(b)
		if fault != "" {
			// RFC 4271 6.3: Malformed AS_PATH (11); the property also admits Attribute Length Error (5)
			v.ValueFault = "syntax"
			v.Admissible = append(v.Admissible, AttrReaction{s.Malformed, 11, fault}, AttrReaction{s.Malformed, 5, fault})
			break
		}
		if zeroAS {
			silent("AS number 0 (RFC 7607 is not among the RFCs of the property)")
		}
		v.Value.ASSequence, v.Value.ASSet = seq, set
	case 3, 9: // NEXT_HOP, ORIGINATOR_ID: one IPv4 address
		if lengthFault(len(b) != 4) {
			break
		}
		if s.Code == 3 && notHostAddress(b) {
			silent("NEXT_HOP is not a host address (RFC 4271 6.3 syntactic check; the property names no subcode for it)")
		}
		v.Value.Addr = addr4(b)
	case 4, 5: // MULTI_EXIT_DISC, LOCAL_PREF: four-octet unsigned integer
		if lengthFault(len(b) != 4) {
			break
		}
		v.Value.U32 = be32(b)
	case 6: // ATOMIC_AGGREGATE: length 0
		if lengthFault(len(b) != 0) {
			break
		}
		v.Value.Present = true
	case 7: // AGGREGATOR: 4-octet AS number (RFC 6793) and IPv4 address
		if lengthFault(len(b) != 8) {
			break
		}
		if be32(b) == 0 {
			silent("AS number 0 (RFC 7607 is not among the RFCs of the property)")
		}
		v.Value.U32 = be32(b)
		v.Value.Addr = addr4(b[4:])
	case 8: // COMMUNITIES: non-zero multiple of 4
		if lengthFault(len(b) == 0 || len(b)%4 != 0) {
			break
		}
		for i := 0; i < len(b); i += 4 {
			v.Value.U32s = append(v.Value.U32s, be32(b[i:]))
		}
	case 10: // CLUSTER_LIST: non-zero multiple of 4
		if lengthFault(len(b) == 0 || len(b)%4 != 0) {
			break
		}
		for i := 0; i < len(b); i += 4 {
			v.Value.Addrs = append(v.Value.Addrs, addr4(b[i:]))
		}
	case 32: // LARGE_COMMUNITIES: non-zero multiple of 12
		if lengthFault(len(b) == 0 || len(b)%12 != 0) {
			break
		}
		for i := 0; i < len(b); i += 12 {
			v.Value.Large = append(v.Value.Large, [3]uint32{be32(b[i:]), be32(b[i+4:]), be32(b[i+8:])})
		}
	default:
		panic("refmodel: unknown attribute " + s.Name)
	}
	switch {
	case v.FlagsFault || v.ValueFault != "":
		v.Class = Reject
		v.Value = AttrValue{}
	case v.Silent != "":
		v.Class = DontCare
	default:
		v.Class = Accept
	}
	return v
}
