package refmodel

// Reference model of the UPDATE splitter (properties C16 and C17). Written
// from RFC 4271 section 4.3 / 6.3 and RFC 7606 sections 2-5; it shares no code
// or constants with corebgp and does not even import it.
//
// RFC 4271 4.3, UPDATE body (the 19 octet header is not part of the body):
//
//	Withdrawn Routes Length (2 octets)
//	Withdrawn Routes (variable)
//	Total Path Attribute Length (2 octets)
//	Path Attributes (variable)
//	Network Layer Reachability Information (variable, the rest of the body)
//
// A path attribute is <flags (1), type code (1), length (1 or 2), value>; the
// length is two octets iff the Extended Length bit (0x10) of flags is set.

const (
	attrOrigin    = 1
	attrASPath    = 2
	attrNextHop   = 3
	attrMPReach   = 14
	attrMPUnreach = 15
	extendedLen   = 0x10
)

// UpdateFault is a message-level inconsistency of an UPDATE body.
type UpdateFault int

const (
	UpdOK               UpdateFault = iota
	UpdShort                        // body shorter than the two length fields (4 octets)
	UpdWithdrawnOverrun             // Withdrawn Routes Length (plus the attribute length field) exceeds the body
	UpdAttrsOverrun                 // Total Path Attribute Length exceeds what follows it
)

func (f UpdateFault) String() string {
	return [...]string{"ok", "short", "withdrawn-length-overrun", "attribute-length-overrun"}[f]
}

// UpdateAttr is one path attribute handed to the attribute callback.
type UpdateAttr struct {
	Type, Flags byte
	Value       []byte // aliases the body
}

// UpdatePartition is the partition of an UPDATE body its length fields dictate.
type UpdatePartition struct {
	Fault      UpdateFault
	Withdrawn  []byte       // aliases the body
	AttrLen    int          // Total Path Attribute Length
	Attrs      []UpdateAttr // attributes passed on: first occurrence of each type, wire order, up to the end of iteration
	Suppressed int          // later occurrences of a (non-MP) type that were skipped
	Overrun    bool         // an attribute header or value ran past the attribute block: iteration ended there, NLRI still delivered
	RepeatedMP bool         // second MP_REACH_NLRI / MP_UNREACH_NLRI: decoding aborted, no NLRI
	// OverrunIsRepeatedMP: the overrunning attribute's header carries the type
	// code of an MP attribute that already occurred. The property does not say
	// which of the two rules wins, so the abort reading (AltRepeatedMP) is
	// admissible as well.
	OverrunIsRepeatedMP bool
	NLRI                []byte // aliases the body
	present             [256]bool
}

// Has reports whether an attribute of type t was encountered (completely,
// inside the attribute block) before iteration ended.
func (p *UpdatePartition) Has(t byte) bool { return p.present[t] }

// NLRIDelivered reports whether the NLRI field is handed on.
func (p *UpdatePartition) NLRIDelivered() bool { return p.Fault == UpdOK && !p.RepeatedMP }

// AltRepeatedMP returns the second admissible reading of a partition with
// OverrunIsRepeatedMP: the repeated MP attribute aborts decoding.
func (p *UpdatePartition) AltRepeatedMP() *UpdatePartition {
	q := *p
	q.Overrun, q.OverrunIsRepeatedMP, q.RepeatedMP = false, false, true
	return &q
}

func be16at(b []byte, i int) int { return int(b[i])<<8 | int(b[i+1]) }

// PartitionUpdate computes the partition of body b into p (p is reused to
// avoid allocation; its slices alias b).
func PartitionUpdate(b []byte, p *UpdatePartition) {
	*p = UpdatePartition{Attrs: p.Attrs[:0]}
	n := len(b)
	if n < 4 {
		p.Fault = UpdShort
		return
	}
	wlen := be16at(b, 0)
	if 2+wlen+2 > n {
		p.Fault = UpdWithdrawnOverrun
		return
	}
	attrStart := 2 + wlen + 2
	attrEnd := attrStart + be16at(b, 2+wlen)
	if attrEnd > n {
		p.Fault = UpdAttrsOverrun
		return
	}
	p.Withdrawn = b[2 : 2+wlen]
	p.AttrLen = attrEnd - attrStart
	p.NLRI = b[attrEnd:]
	pos := attrStart
	for pos < attrEnd {
		left := attrEnd - pos
		hdr := 3
		if b[pos]&extendedLen != 0 {
			hdr = 4
		}
		vlen := 0
		if left >= hdr {
			if hdr == 4 {
				vlen = be16at(b, pos+2)
			} else {
				vlen = int(b[pos+2])
			}
		}
		if left < hdr || left < hdr+vlen {
			// RFC 7606 section 4: the last attribute exceeds the Total
			// Attribute Length, or too few octets remain for a header.
			p.Overrun = true
			if left >= 2 {
				t := b[pos+1]
				p.OverrunIsRepeatedMP = (t == attrMPReach || t == attrMPUnreach) && p.present[t]
			}
			return
		}
		flags, typ := b[pos], b[pos+1]
		value := b[pos+hdr : pos+hdr+vlen]
		pos += hdr + vlen
		if p.present[typ] {
			// RFC 7606 section 3 (g)
			if typ == attrMPReach || typ == attrMPUnreach {
				p.RepeatedMP = true
				return
			}
			p.Suppressed++
			continue
		}
		p.present[typ] = true
		p.Attrs = append(p.Attrs, UpdateAttr{Type: typ, Flags: flags, Value: value})
	}
}

// Announces reports whether the UPDATE announces routes in the sense of
// property C17: non-empty NLRI field or an MP_REACH_NLRI attribute.
func (p *UpdatePartition) Announces() bool {
	return len(p.NLRI) > 0 || p.present[attrMPReach]
}

// MissingMandatory lists the well-known mandatory attributes named by the
// property (ORIGIN, AS_PATH) that an announcing UPDATE lacks, lowest first.
func (p *UpdatePartition) MissingMandatory() []byte {
	if !p.Announces() {
		return nil
	}
	var m []byte
	for _, t := range []byte{attrOrigin, attrASPath} {
		if !p.present[t] {
			m = append(m, t)
		}
	}
	return m
}

// NextHopSilent reports the case on which the property is silent: the NLRI
// field is non-empty and NEXT_HOP is absent. RFC 4271 calls NEXT_HOP
// mandatory there, RFC 7606 3(d) notes RFC 4760 made it discretionary, and the
// property names only ORIGIN and AS_PATH.
func (p *UpdatePartition) NextHopSilent() bool {
	return len(p.NLRI) > 0 && !p.present[attrNextHop]
}

// ---- RFC 7606 error classes and the severity walk ----

// ErrKind is the class of one element of an error tree, weakest first.
type ErrKind int

const (
	ErrNone     ErrKind = iota // no error at all
	ErrForeign                 // not an UPDATE error
	ErrCustom                  // some other UPDATE error
	ErrDiscard                 // attribute discard
	ErrWithdraw                // treat-as-withdraw
	ErrReset                   // session reset: a NOTIFICATION
)

func (k ErrKind) String() string {
	return [...]string{"none", "foreign", "other-update-error", "attribute-discard", "treat-as-withdraw", "notification"}[k]
}

// Notif is a NOTIFICATION (code, subcode, data).
type Notif struct {
	Code, Sub byte
	Data      []byte
}

// Same compares two notifications (nil and empty data are the same).
func (n Notif) Same(o Notif) bool {
	if n.Code != o.Code || n.Sub != o.Sub || len(n.Data) != len(o.Data) {
		return false
	}
	for i := range n.Data {
		if n.Data[i] != o.Data[i] {
			return false
		}
	}
	return true
}

// ErrNode is an abstract error tree node.
type ErrNode struct {
	Kind ErrKind
	// Notif: for ErrReset the notification itself, for ErrWithdraw/ErrDiscard
	// the fallback notification (nil if none), for ErrCustom its session-reset
	// notification.
	Notif    *Notif
	Children []*ErrNode
}

// UpdateMessageError is the generic UPDATE Message Error notification.
func UpdateMessageError() Notif { return Notif{Code: 3} }

func (n *ErrNode) preorder(visit func(*ErrNode)) {
	visit(n)
	for _, c := range n.Children {
		c.preorder(visit)
	}
}

// Strongest returns the strongest class present in the tree.
func Strongest(root *ErrNode) ErrKind {
	k := ErrNone
	if root == nil {
		return k
	}
	root.preorder(func(n *ErrNode) {
		if n.Kind > k {
			k = n.Kind
		}
	})
	return k
}

// SeverityWalk is the reference for mapping a non-nil error tree to a
// notification: strongest class wins, earliest (pre-order, a node before its
// children) among equals; treat-as-withdraw / attribute-discard give their
// fallback notification or the generic one; nothing suitable gives the
// generic one.
func SeverityWalk(root *ErrNode) Notif {
	var best *ErrNode
	root.preorder(func(n *ErrNode) {
		if n.Kind >= ErrCustom && (best == nil || n.Kind > best.Kind) {
			best = n
		}
	})
	if best == nil || best.Notif == nil {
		return UpdateMessageError()
	}
	return *best.Notif
}

// FindWithdrawFallback reports whether the tree has a treat-as-withdraw
// element whose fallback notification is want.
func FindWithdrawFallback(root *ErrNode, want Notif) bool {
	found := false
	if root == nil {
		return false
	}
	root.preorder(func(n *ErrNode) {
		if n.Kind == ErrWithdraw && n.Notif != nil && n.Notif.Same(want) {
			found = true
		}
	})
	return found
}
