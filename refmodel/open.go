// Package refmodel holds the independent reference models the checks compare
// corebgp against. They are written from the RFC text cited by the
// properties and use no corebgp code or constants.
package refmodel

import (
	"bytes"
	"encoding/binary"
	"fmt"

	"corebgpverif/wire"
)

// OpenCfg is the local configuration an incoming OPEN is judged against.
type OpenCfg struct {
	LocalAS, RemoteAS uint32
	LocalID           uint32
}

// Reaction is one admissible NOTIFICATION.
type Reaction struct {
	Code, Sub byte
	Data      []byte // nil = data not judged
	Why       string
}

func (r Reaction) String() string {
	if r.Data == nil {
		return fmt.Sprintf("(%d,%d,*) %s", r.Code, r.Sub, r.Why)
	}
	return fmt.Sprintf("(%d,%d,%x) %s", r.Code, r.Sub, r.Data, r.Why)
}

// Matches reports whether a NOTIFICATION (code, sub, data) is this reaction.
func (r Reaction) Matches(code, sub byte, data []byte) bool {
	if r.Code != code || r.Sub != sub {
		return false
	}
	return r.Data == nil || bytes.Equal(r.Data, data)
}

// Class is the three-valued reference verdict.
type Class int

const (
	Accept Class = iota
	Reject
	DontCare
)

func (c Class) String() string { return [...]string{"accept", "reject", "dont-care"}[c] }

// OpenVerdict is the reference judgement of an OPEN body.
type OpenVerdict struct {
	Class      Class
	Admissible []Reaction // for Reject: the NOTIFICATIONs that apply to a fault actually present
	ID         uint32     // for Accept: expected identifier
	Caps       []wire.Cap // for Accept: expected capabilities, in order
	Why        []string   // definite faults
	Silent     []string   // aspects on which the property is silent
}

// JudgeOpen is the acceptability predicate of property C02.
func JudgeOpen(b []byte, cfg OpenCfg) OpenVerdict {
	var v OpenVerdict
	fault := func(code, sub byte, data []byte, why string) {
		v.Admissible = append(v.Admissible, Reaction{code, sub, data, why})
		v.Why = append(v.Why, why)
	}
	silent := func(why string, also ...Reaction) {
		v.Silent = append(v.Silent, why)
		v.Admissible = append(v.Admissible, also...)
	}
	if len(b) < 10 {
		fault(1, 2, nil, "body shorter than the fixed fields")
		v.Class = Reject
		return v
	}
	version := b[0]
	as2 := binary.BigEndian.Uint16(b[1:3])
	hold := binary.BigEndian.Uint16(b[3:5])
	id := binary.BigEndian.Uint32(b[5:9])
	v.ID = id
	if version != 4 {
		fault(2, 1, []byte{0, 4}, "version != 4")
	}
	if hold == 1 || hold == 2 {
		fault(2, 6, nil, "hold time 1 or 2")
	}
	if id>>28 == 0xe {
		fault(2, 3, nil, "multicast identifier")
	}
	if id == cfg.LocalID && cfg.LocalAS == cfg.RemoteAS {
		fault(2, 3, nil, "identifier collides with local one inside the same AS")
	}
	if id == 0 {
		silent("identifier 0.0.0.0", Reaction{2, 3, nil, "identifier 0.0.0.0"})
	}
	// optional parameters
	structural := false
	unknownParam := false
	zeroCapParam := false
	var caps []wire.Cap
	if int(b[9]) != len(b)-10 {
		structural = true
		fault(2, 0, nil, "optional parameters length disagrees with the body")
	} else if b[9] == 0 {
		structural = true
		fault(2, 0, nil, "empty optional parameter list")
	} else {
		p := b[10:]
		for len(p) > 0 {
			if len(p) < 2 || len(p) < 2+int(p[1]) {
				structural = true
				fault(2, 0, nil, "parameter overruns the optional parameter area")
				break
			}
			t, l := p[0], int(p[1])
			val := p[2 : 2+l]
			p = p[2+l:]
			if t != 2 {
				unknownParam = true
				fault(2, 4, nil, fmt.Sprintf("unknown optional parameter %d", t))
				continue
			}
			if l == 0 {
				zeroCapParam = true
				continue
			}
			bad := false
			for len(val) > 0 {
				if len(val) < 2 || len(val) < 2+int(val[1]) {
					bad = true
					break
				}
				caps = append(caps, wire.Cap{Code: val[0], Value: append([]byte{}, val[2:2+int(val[1])]...)})
				val = val[2+int(val[1]):]
			}
			if bad {
				structural = true
				fault(2, 0, nil, "capability overruns its parameter")
				break
			}
		}
	}
	if zeroCapParam {
		// RFC 5492 4: the parameter "contains one or more triples"; an empty one makes the list
		// malformed ("well-formed capabilities parameter list" is a condition of acceptance)
		fault(2, 0, nil, "zero-length capabilities parameter")
		v.Admissible = append(v.Admissible, Reaction{2, 7, nil, "zero-length capabilities parameter"})
	}
	v.Caps = caps
	// AS matching
	n65, n65ok, n65bad, n65len := 0, 0, 0, 0
	if !structural {
		for _, c := range caps {
			if c.Code != 65 {
				continue
			}
			n65++
			if len(c.Value) != 4 {
				n65len++
			} else if binary.BigEndian.Uint32(c.Value) == cfg.RemoteAS {
				n65ok++
			} else {
				n65bad++
			}
		}
	}
	if as2 != 23456 {
		if cfg.RemoteAS > 65535 || uint32(as2) != cfg.RemoteAS {
			fault(2, 2, nil, "2-octet AS field does not match the remote AS")
		}
	} else if cfg.RemoteAS != 23456 {
		if cfg.RemoteAS <= 65535 {
			silent("AS_TRANS in the AS field although the remote AS fits 16 bits", Reaction{2, 2, nil, "AS_TRANS although the AS fits"})
		}
		if !structural && n65ok == 0 && n65bad == 0 {
			// no usable 4-octet-AS capability: the real AS cannot match
			fault(2, 2, nil, "AS_TRANS without a usable 4-octet-AS capability")
		}
	}
	if cfg.RemoteAS == 23456 {
		silent("remote AS configured as AS_TRANS", Reaction{2, 2, nil, "AS_TRANS configured"})
	}
	if !structural {
		if n65bad > 0 {
			if n65ok > 0 {
				silent("conflicting 4-octet-AS capabilities", Reaction{2, 2, nil, "conflicting 4-octet-AS capabilities"})
			} else {
				fault(2, 2, nil, "4-octet-AS capability names another AS")
			}
		}
		if n65len > 0 {
			if n65ok+n65bad > 0 {
				silent("additional 4-octet-AS capability of wrong length", Reaction{2, 0, nil, "4-octet-AS capability length != 4"}, Reaction{2, 2, nil, "4-octet-AS capability length != 4"})
			} else {
				v.Why = append(v.Why, "4-octet-AS capability length != 4")
				v.Admissible = append(v.Admissible, Reaction{2, 0, nil, "4-octet-AS capability length != 4"}, Reaction{2, 2, nil, "4-octet-AS capability length != 4"})
			}
		}
		if n65 == 0 && !unknownParam && !zeroCapParam {
			data := wire.Cap4(cfg.RemoteAS).Bytes()
			fault(2, 7, data, "4-octet-AS capability missing from a well-formed list")
		} else if n65 == 0 && !zeroCapParam {
			// list contains an unknown parameter: the missing capability may also be reported
			v.Admissible = append(v.Admissible, Reaction{2, 7, wire.Cap4(cfg.RemoteAS).Bytes(), "4-octet-AS capability missing"})
		}
	}
	switch {
	case len(v.Why) > 0:
		v.Class = Reject
	case len(v.Silent) > 0:
		v.Class = DontCare
	default:
		v.Class = Accept
	}
	return v
}
