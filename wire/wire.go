// Package wire is an independent BGP message encoder and strict frame parser
// (RFC 4271 section 4) used by the scripted remote speakers and the monitors.
// It shares no code or constants with corebgp.
package wire

import (
	"encoding/binary"
	"fmt"
)

const (
	TypeOpen         = 1
	TypeUpdate       = 2
	TypeNotification = 3
	TypeKeepalive    = 4
	HeaderLen        = 19
	MaxLen           = 4096
)

// Frame prepends a well-formed header to body.
func Frame(typ byte, body []byte) []byte {
	b := make([]byte, HeaderLen, HeaderLen+len(body))
	for i := 0; i < 16; i++ {
		b[i] = 0xff
	}
	binary.BigEndian.PutUint16(b[16:], uint16(HeaderLen+len(body)))
	b[18] = typ
	return append(b, body...)
}

// RawHeader builds a header with explicit marker/length/type (for faults).
func RawHeader(marker [16]byte, length uint16, typ byte) []byte {
	b := make([]byte, HeaderLen)
	copy(b, marker[:])
	binary.BigEndian.PutUint16(b[16:], length)
	b[18] = typ
	return b
}

// GoodMarker is sixteen 0xff octets.
var GoodMarker = [16]byte{0xff, 0xff, 0xff, 0xff, 0xff, 0xff, 0xff, 0xff, 0xff, 0xff, 0xff, 0xff, 0xff, 0xff, 0xff, 0xff}

// Cap is a capability TLV.
type Cap struct {
	Code  byte
	Value []byte
}

func (c Cap) Bytes() []byte {
	return append([]byte{c.Code, byte(len(c.Value))}, c.Value...)
}

// Cap4 is the 4-octet-AS capability (RFC 6793).
func Cap4(as uint32) Cap {
	v := make([]byte, 4)
	binary.BigEndian.PutUint32(v, as)
	return Cap{Code: 65, Value: v}
}

// CapParam is one optional parameter of type 2 holding caps.
func CapParam(caps ...Cap) []byte {
	var v []byte
	for _, c := range caps {
		v = append(v, c.Bytes()...)
	}
	return append([]byte{2, byte(len(v))}, v...)
}

// OpenBody builds an OPEN body with the given optional-parameter bytes.
func OpenBody(version byte, as uint16, hold uint16, id uint32, opt []byte) []byte {
	b := make([]byte, 10, 10+len(opt))
	b[0] = version
	binary.BigEndian.PutUint16(b[1:], as)
	binary.BigEndian.PutUint16(b[3:], hold)
	binary.BigEndian.PutUint32(b[5:], id)
	b[9] = byte(len(opt))
	return append(b, opt...)
}

// AS2 maps a 4-octet AS to the 2-octet field (AS_TRANS if it does not fit).
func AS2(as uint32) uint16 {
	if as > 65535 {
		return 23456
	}
	return uint16(as)
}

// Open builds a complete, valid OPEN message for a speaker.
func Open(as uint32, hold uint16, id uint32, extra ...Cap) []byte {
	caps := append([]Cap{Cap4(as)}, extra...)
	return Frame(TypeOpen, OpenBody(4, AS2(as), hold, id, CapParam(caps...)))
}

func Keepalive() []byte { return Frame(TypeKeepalive, nil) }

func Update(body []byte) []byte { return Frame(TypeUpdate, body) }

func Notification(code, sub byte, data []byte) []byte {
	return Frame(TypeNotification, append([]byte{code, sub}, data...))
}

// Msg is one parsed message.
type Msg struct {
	Type byte
	Body []byte
}

func (m Msg) String() string {
	switch m.Type {
	case TypeOpen:
		return fmt.Sprintf("OPEN(%x)", m.Body)
	case TypeUpdate:
		if len(m.Body) > 12 {
			return fmt.Sprintf("UPDATE(%d bytes %x..)", len(m.Body), m.Body[:12])
		}
		return fmt.Sprintf("UPDATE(%x)", m.Body)
	case TypeNotification:
		if len(m.Body) >= 2 {
			return fmt.Sprintf("NOTIFICATION(%d,%d,%x)", m.Body[0], m.Body[1], m.Body[2:])
		}
		return fmt.Sprintf("NOTIFICATION(%x)", m.Body)
	case TypeKeepalive:
		return "KEEPALIVE"
	}
	return fmt.Sprintf("TYPE%d(%x)", m.Type, m.Body)
}

// NotifCode returns code, subcode, data of a NOTIFICATION.
func (m Msg) Notif() (code, sub byte, data []byte) {
	if m.Type != TypeNotification || len(m.Body) < 2 {
		return 0, 0, nil
	}
	return m.Body[0], m.Body[1], m.Body[2:]
}

// ParseStrict splits stream into messages, enforcing RFC 4271 framing:
// marker all ones, 19 <= length <= 4096, known type, per-type minimum
// lengths, KEEPALIVE exactly 19. It returns the complete messages, the
// trailing incomplete bytes and the first framing error.
func ParseStrict(stream []byte) (msgs []Msg, rest []byte, err error) {
	for len(stream) > 0 {
		if len(stream) < HeaderLen {
			return msgs, stream, nil
		}
		for i := 0; i < 16; i++ {
			if stream[i] != 0xff {
				return msgs, stream, fmt.Errorf("bad marker octet %d: %#x", i, stream[i])
			}
		}
		l := int(binary.BigEndian.Uint16(stream[16:18]))
		typ := stream[18]
		if l < HeaderLen || l > MaxLen {
			return msgs, stream, fmt.Errorf("bad length %d", l)
		}
		switch typ {
		case TypeOpen:
			if l < 29 {
				return msgs, stream, fmt.Errorf("OPEN length %d < 29", l)
			}
		case TypeUpdate:
		case TypeNotification:
			if l < 21 {
				return msgs, stream, fmt.Errorf("NOTIFICATION length %d < 21", l)
			}
		case TypeKeepalive:
			if l != 19 {
				return msgs, stream, fmt.Errorf("KEEPALIVE length %d != 19", l)
			}
		default:
			return msgs, stream, fmt.Errorf("unknown type %d", typ)
		}
		if len(stream) < l {
			return msgs, stream, nil
		}
		msgs = append(msgs, Msg{Type: typ, Body: append([]byte(nil), stream[HeaderLen:l]...)})
		stream = stream[l:]
	}
	return msgs, nil, nil
}

// OpenFields is a strictly parsed OPEN body.
type OpenFields struct {
	Version byte
	AS      uint16
	Hold    uint16
	ID      uint32
	Params  []Param
}

// Param is one optional parameter.
type Param struct {
	Type  byte
	Value []byte
	Caps  []Cap // for type 2
}

// ParseOpenStrict parses an OPEN body, requiring every nested length to agree
// with the bytes that follow (RFC 4271 4.2, RFC 5492 4).
func ParseOpenStrict(b []byte) (*OpenFields, error) {
	if len(b) < 10 {
		return nil, fmt.Errorf("OPEN body %d < 10", len(b))
	}
	o := &OpenFields{Version: b[0], AS: binary.BigEndian.Uint16(b[1:3]), Hold: binary.BigEndian.Uint16(b[3:5]), ID: binary.BigEndian.Uint32(b[5:9])}
	if int(b[9]) != len(b)-10 {
		return nil, fmt.Errorf("optional parameters length %d but %d bytes follow", b[9], len(b)-10)
	}
	p := b[10:]
	for len(p) > 0 {
		if len(p) < 2 {
			return nil, fmt.Errorf("truncated parameter header")
		}
		t, l := p[0], int(p[1])
		if len(p) < 2+l {
			return nil, fmt.Errorf("parameter length %d overruns (%d left)", l, len(p)-2)
		}
		pr := Param{Type: t, Value: append([]byte(nil), p[2:2+l]...)}
		if t == 2 {
			v := pr.Value
			for len(v) > 0 {
				if len(v) < 2 {
					return nil, fmt.Errorf("truncated capability header")
				}
				cl := int(v[1])
				if len(v) < 2+cl {
					return nil, fmt.Errorf("capability length %d overruns (%d left)", cl, len(v)-2)
				}
				pr.Caps = append(pr.Caps, Cap{Code: v[0], Value: append([]byte(nil), v[2:2+cl]...)})
				v = v[2+cl:]
			}
		}
		o.Params = append(o.Params, pr)
		p = p[2+l:]
	}
	return o, nil
}

// AllCaps returns the capabilities of all type-2 parameters in order.
func (o *OpenFields) AllCaps() []Cap {
	var r []Cap
	for _, p := range o.Params {
		r = append(r, p.Caps...)
	}
	return r
}
