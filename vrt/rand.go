package vrt

// Deterministic stand-in for math/rand inside the rewritten package. Random numbers are
// nondeterminism the explorer has to own: every execution starts the same sequence again, and the
// sequence is adversarial rather than typical - for a bounded draw it goes through the largest value,
// the smallest, the middle, and then a fixed pseudo-random continuation - because code that uses a
// random number (timer jitter, back-off) must be right for every value it can draw and the extremes
// are where it is not.

type randState struct {
	ex uint64
	n  uint64
}

var rnd randState

func (r *randState) next() uint64 {
	if r.ex != Serial() {
		r.ex, r.n = Serial(), 0
	}
	r.n++
	return r.n
}

// RandUint64 returns the next value of the sequence as 64 raw bits.
func RandUint64() uint64 {
	k := rnd.next()
	switch k % 4 {
	case 1:
		return ^uint64(0)
	case 2:
		return 0
	case 3:
		return 1 << 63
	}
	// splitmix64 of the call number
	z := k * 0x9e3779b97f4a7c15
	z = (z ^ (z >> 30)) * 0xbf58476d1ce4e5b9
	z = (z ^ (z >> 27)) * 0x94d049bb133111eb
	return z ^ (z >> 31)
}

// RandN returns a value in [0, n): n-1, 0, n/2, then pseudo-random ones.
func RandN(n uint64) uint64 {
	if n == 0 {
		panic("invalid argument to rand: n == 0")
	}
	k := rnd.next()
	switch k % 4 {
	case 1:
		return n - 1
	case 2:
		return 0
	case 3:
		return n / 2
	}
	z := k * 0x9e3779b97f4a7c15
	z = (z ^ (z >> 30)) * 0xbf58476d1ce4e5b9
	z = (z ^ (z >> 27)) * 0x94d049bb133111eb
	return (z ^ (z >> 31)) % n
}

// RandFloat returns a value in [0, 1): just below 1, 0, 0.5, then pseudo-random ones.
func RandFloat() float64 {
	return float64(RandN(1<<53)) / (1 << 53)
}
