package vrt

import "sync"

// Mutex is the vrt-backed replacement for sync.Mutex.
type Mutex struct {
	real sync.Mutex
	held bool
	obj  *Obj
}

func (m *Mutex) o() *Obj {
	if m.obj == nil {
		m.obj = NewObj("mutex")
	}
	return m.obj
}

func (m *Mutex) Lock() {
	e := cur
	if e == nil {
		m.real.Lock()
		return
	}
	e.wait("sync.Mutex.Lock", "lock", func() bool { return !m.held }, false, m.o())
	m.held = true
}

func (m *Mutex) TryLock() bool {
	e := cur
	if e == nil {
		return m.real.TryLock()
	}
	e.wait("sync.Mutex.TryLock", "trylock", nil, false, m.o())
	if m.held {
		return false
	}
	m.held = true
	return true
}

func (m *Mutex) Unlock() {
	e := cur
	if e == nil {
		m.real.Unlock()
		return
	}
	e.checkAbort()
	if !m.held {
		panic("sync: unlock of unlocked mutex")
	}
	e.wait("sync.Mutex.Unlock", "unlock", nil, true, m.o())
	m.held = false
}

// RWMutex is the vrt-backed replacement for sync.RWMutex.
type RWMutex struct {
	real    sync.RWMutex
	writer  bool
	readers int
	obj     *Obj
}

func (m *RWMutex) o() *Obj {
	if m.obj == nil {
		m.obj = NewObj("rwmutex")
	}
	return m.obj
}

func (m *RWMutex) Lock() {
	e := cur
	if e == nil {
		m.real.Lock()
		return
	}
	e.wait("sync.RWMutex.Lock", "lock", func() bool { return !m.writer && m.readers == 0 }, false, m.o())
	m.writer = true
}

func (m *RWMutex) Unlock() {
	e := cur
	if e == nil {
		m.real.Unlock()
		return
	}
	e.wait("sync.RWMutex.Unlock", "unlock", nil, true, m.o())
	m.writer = false
}

func (m *RWMutex) RLock() {
	e := cur
	if e == nil {
		m.real.RLock()
		return
	}
	e.wait("sync.RWMutex.RLock", "rlock", func() bool { return !m.writer }, false, m.o())
	m.readers++
}

func (m *RWMutex) RUnlock() {
	e := cur
	if e == nil {
		m.real.RUnlock()
		return
	}
	e.wait("sync.RWMutex.RUnlock", "runlock", nil, true, m.o())
	m.readers--
}

// Once is the vrt-backed replacement for sync.Once.
type Once struct {
	real  sync.Once
	state int // 0 idle, 1 running, 2 done
	obj   *Obj
}

func (o *Once) ob() *Obj {
	if o.obj == nil {
		o.obj = NewObj("once")
	}
	return o.obj
}

func (o *Once) Do(f func()) {
	e := cur
	if e == nil {
		o.real.Do(f)
		return
	}
	// later callers block until the first call's function has returned
	e.wait("sync.Once.Do", "once", func() bool { return o.state != 1 }, false, o.ob())
	if o.state == 2 {
		return
	}
	o.state = 1
	defer func() {
		o.state = 2
		if !e.abort {
			e.wait("sync.Once.Do", "once-done", nil, true, o.ob())
		}
	}()
	f()
}

// WaitGroup is the vrt-backed replacement for sync.WaitGroup.
type WaitGroup struct {
	real sync.WaitGroup
	n    int
	obj  *Obj
}

func (w *WaitGroup) o() *Obj {
	if w.obj == nil {
		w.obj = NewObj("waitgroup")
	}
	return w.obj
}

func (w *WaitGroup) Add(d int) {
	e := cur
	if e == nil {
		w.real.Add(d)
		return
	}
	e.wait("sync.WaitGroup.Add", "wg-add", nil, true, w.o())
	w.n += d
	if w.n < 0 {
		panic("sync: negative WaitGroup counter")
	}
}

func (w *WaitGroup) Done() { w.Add(-1) }

func (w *WaitGroup) Wait() {
	e := cur
	if e == nil {
		w.real.Wait()
		return
	}
	e.wait("sync.WaitGroup.Wait", "wg-wait", func() bool { return w.n == 0 }, false, w.o())
}

// Cond is the vrt-backed replacement for sync.Cond (L must be a *Mutex or
// *RWMutex of this package).
type Cond struct {
	L       sync.Locker
	waiters []*condWaiter
	obj     *Obj
}

type condWaiter struct{ signalled bool }

func NewCond(l sync.Locker) *Cond { return &Cond{L: l} }

func (c *Cond) o() *Obj {
	if c.obj == nil {
		c.obj = NewObj("cond")
	}
	return c.obj
}

func (c *Cond) Wait() {
	e := cur
	if e == nil {
		panic("vrt.Cond outside execution is not supported")
	}
	w := &condWaiter{}
	c.waiters = append(c.waiters, w)
	c.L.Unlock()
	e.wait("sync.Cond.Wait", "cond-wait", func() bool { return w.signalled }, false, c.o())
	c.L.Lock()
}

func (c *Cond) Signal() {
	e := cur
	e.wait("sync.Cond.Signal", "cond-signal", nil, true, c.o())
	if len(c.waiters) > 0 {
		c.waiters[0].signalled = true
		c.waiters = c.waiters[1:]
	}
}

func (c *Cond) Broadcast() {
	e := cur
	e.wait("sync.Cond.Broadcast", "cond-broadcast", nil, true, c.o())
	for _, w := range c.waiters {
		w.signalled = true
	}
	c.waiters = nil
}
