// Package vrt is a deterministic user-space runtime for Go concurrency
// primitives. Exactly one logical goroutine runs at any time; every visible
// operation (channel op, select, lock, timer, network I/O, ...) is a scheduling
// point at which a pluggable Chooser decides which enabled transition is taken
// next. Time is virtual. See DESIGN.md section 3.2.
//
// Outside an active execution (Cur() == nil) every primitive falls through to
// the real Go primitive, so a package rewritten to call vrt still behaves
// normally (e.g. under its own unit tests).
package vrt

import (
	"fmt"
	"os"
	"runtime/debug"
	"sort"
	"strings"
	"unsafe"
)

// EndReason says why an execution stopped.
type EndReason int

const (
	EndQuiescent EndReason = iota // nothing enabled, no timer pending
	EndHorizon                    // virtual horizon reached
	EndStepCap                    // step cap reached (counts as a cap hit)
	EndPanic                      // a goroutine panicked
	EndTruncated                  // chooser truncated the run (state cache hit)
	EndStopped                    // Stop() called by the scenario
)

func (r EndReason) String() string {
	return [...]string{"quiescent", "horizon", "stepcap", "panic", "truncated", "stopped"}[r]
}

// Config parametrises one execution.
type Config struct {
	Horizon      int64 // virtual nanoseconds; 0 = unlimited
	MaxSteps     int   // 0 = default 200000
	LegacyTimers bool  // pre-Go1.23 timer channel semantics (asynctimerchan=1)
	Race         bool  // vector-clock race detection on instrumented accesses
	Trace        bool  // record every transition (for replay files)
	// SymmetricRendezvous makes an unbuffered hand-over a transition of its own, after which
	// receiver and sender resume as two separate transitions in either order (the receiver first
	// by default). Without it the receiver continues atomically, which is only equivalent for
	// code whose post-rendezvous accesses are race-free.
	SymmetricRendezvous bool
	Chooser             Chooser
}

// Chooser decides at every scheduling point with more than one enabled
// transition. Returning a negative value truncates the execution.
type Chooser interface {
	Choose(e *Exec, n int) int
}

// PanicInfo describes a panic in a goroutine of the execution.
type PanicInfo struct {
	G     string
	Value string
	Stack string
}

// RaceInfo describes an unordered pair of conflicting accesses.
type RaceInfo struct {
	SiteA, SiteB string
	GA, GB       string
	WriteA       bool
	WriteB       bool
}

func (r RaceInfo) String() string {
	k := func(w bool) string {
		if w {
			return "write"
		}
		return "read"
	}
	return fmt.Sprintf("%s at %s by %s / %s at %s by %s", k(r.WriteA), r.SiteA, r.GA, k(r.WriteB), r.SiteB, r.GB)
}

// TraceEntry is one executed transition.
type TraceEntry struct {
	Step int
	G    string
	Op   string
	Site string
	Now  int64
}

// G is a logical goroutine.
type G struct {
	e     *Exec
	idx   int
	path  []int // canonical id: spawn ordinals from the root
	uid   uint64
	name  string
	site  string
	lib   bool
	wake  chan struct{}
	op    *op
	done  bool
	hash  uint64
	vc    vclock
	nkids int
	nobjs int
	// select result
	selIdx int
	selVal any
	selOK  bool
	// bound connection tag etc. for the world
	Tag any
}

func (g *G) String() string {
	var sb strings.Builder
	sb.WriteString("g")
	for i, p := range g.path {
		if i > 0 {
			sb.WriteByte('.')
		}
		fmt.Fprintf(&sb, "%d", p)
	}
	if g.name != "" {
		sb.WriteString("(" + g.name + ")")
	}
	return sb.String()
}

// Name returns the printable canonical id.
func (g *G) Name() string { return g.String() }

// Lib reports whether the goroutine was spawned by instrumented library code.
func (g *G) Lib() bool { return g.lib }

// Done reports whether the goroutine has terminated.
func (g *G) Done() bool { return g.done }

// PendingSite returns the site of the pending operation ("" if none).
func (g *G) PendingSite() string {
	if g.op == nil {
		return ""
	}
	return g.op.site
}

// Obj is a synchronisation object as far as hashing, vector clocks and
// independence are concerned.
type Obj struct {
	uid  uint64
	hash uint64
	vc   vclock
	name string
	// NoSync objects order transitions for hashing/independence only; they
	// add no happens-before edge for the race detector (e.g. TCP I/O, the
	// world's observation log).
	NoSync bool
}

type opKind uint8

const (
	opSelect    opKind = iota + 1
	opWait             // generic predicate wait
	opStart            // goroutine not yet started
	opResume           // sender resuming after rendez-vous
	opStep             // WaitStep trigger
	opQuiescent        // WaitQuiescent trigger
)

type selCase struct {
	ch   *vchan
	send bool
	val  any
}

type op struct {
	kind    opKind
	site    string
	name    string
	cases   []selCase
	hasDef  bool
	pred    func() bool
	objs    []*Obj
	n       int
	release bool // wait op publishes to objs (release) as well as acquiring
}

type transition struct {
	g       *G
	cs      int // case index (select), -1 = default
	partner *G
	pcs     int
	timer   *Timer
}

// Point records one choice point of an execution.
type Point struct {
	N      int
	Chosen int
	Key    uint64
}

// Exec is one execution.
type Exec struct {
	cfg     Config
	gs      []*G
	running *G
	last    *G
	now     int64
	steps   int
	timers  []*Timer
	chans   map[unsafe.Pointer]*vchan
	pins    []any
	endCh   chan struct{}
	ended   bool
	reason  EndReason
	abort   bool
	panicI  *PanicInfo
	races   []RaceInfo
	raceSet map[string]bool
	trace   []TraceEntry
	points  []Point
	logObj  *Obj
	shadow  map[unsafe.Pointer]*shadowCell
	quiets  int
	stopReq bool
	siteH   map[string]uint64
	// user data for the world
	World          any
	tbuf           []transition
	clockHash      uint64
	rendezvousOnly bool
	atomics        map[unsafe.Pointer]*Obj
	serial         uint64 // unique per execution (pointer identity is not: a later Exec may reuse the address)
}

var cur *Exec

var execSerial uint64

// Serial returns the execution's unique number (0 outside an execution).
func Serial() uint64 {
	if cur == nil {
		return 0
	}
	return cur.serial
}

// AsymmetricRendezvous switches the symmetric treatment of unbuffered hand-overs off
// (VERIF_ASYMMETRIC=1; only for measuring its cost).
var AsymmetricRendezvous = os.Getenv("VERIF_ASYMMETRIC") == "1"

// Cur returns the active execution or nil.
func Cur() *Exec { return cur }

// Active reports whether an execution is active.
func Active() bool { return cur != nil }

type abortSentinel struct{}

// Now returns the virtual time in nanoseconds.
func (e *Exec) Now() int64 { return e.now }

// Steps returns the number of transitions executed so far.
func (e *Exec) Steps() int { return e.steps }

// Points returns the recorded choice points.
func (e *Exec) Points() []Point { return e.points }

// Reason returns why the execution ended.
func (e *Exec) Reason() EndReason { return e.reason }

// Panic returns the panic that ended the execution, if any.
func (e *Exec) Panic() *PanicInfo { return e.panicI }

// Races returns the data races detected.
func (e *Exec) Races() []RaceInfo { return e.races }

// TraceLog returns the recorded trace (Config.Trace).
func (e *Exec) TraceLog() []TraceEntry { return e.trace }

// Goroutines returns all goroutines ever created.
func (e *Exec) Goroutines() []*G { return e.gs }

// MainDone reports whether the main goroutine returned.
func (e *Exec) MainDone() bool { return e.gs[0].done }

// LiveLib returns the library goroutines that have not terminated.
func (e *Exec) LiveLib() []*G {
	var r []*G
	for _, g := range e.gs {
		if g.lib && !g.done {
			r = append(r, g)
		}
	}
	return r
}

// Self returns the running goroutine.
func (e *Exec) Self() *G { return e.running }

func (e *Exec) siteHash(s string) uint64 {
	if h, ok := e.siteH[s]; ok {
		return h
	}
	h := fnvStr(s)
	e.siteH[s] = h
	return h
}

// Run executes main under cfg and returns the finished execution. It must not
// be called while another execution is active.
// LegacyOverride, when set, makes every execution use the legacy (pre-Go-1.23) timer-channel
// semantics whatever its Config says (scenario twins, see props.withLegacy).
var LegacyOverride bool

func Run(cfg Config, main func()) *Exec {
	if cur != nil {
		panic("vrt: nested Run")
	}
	if LegacyOverride {
		cfg.LegacyTimers = true
	}
	if cfg.MaxSteps == 0 {
		cfg.MaxSteps = 200000
	}
	if cfg.Chooser != nil && !AsymmetricRendezvous {
		// schedule exploration: explore both orders of the code after a hand-over
		cfg.SymmetricRendezvous = true
	}
	execSerial++
	e := &Exec{
		serial:  execSerial,
		cfg:     cfg,
		chans:   map[unsafe.Pointer]*vchan{},
		endCh:   make(chan struct{}, 1),
		raceSet: map[string]bool{},
		shadow:  map[unsafe.Pointer]*shadowCell{},
		siteH:   map[string]uint64{},
	}
	e.logObj = &Obj{uid: fnvStr("obslog"), name: "obslog", NoSync: true}
	cur = e
	g := e.newG(nil, "main", "main", false, main)
	e.running = nil
	// kick off: schedule from the driver
	next := e.schedule()
	if next != nil {
		next.wake <- struct{}{}
		<-e.endCh
	}
	e.ended = true
	_ = g
	return e
}

// Finish aborts all parked goroutines of the execution and deactivates it.
// Must be called once after Run (after end-state monitors ran).
func (e *Exec) Finish() {
	e.abort = true
	for _, g := range e.gs {
		if g.done {
			continue
		}
		g.wake <- struct{}{}
		<-e.endCh
	}
	cur = nil
	e.chans = nil
	e.pins = nil
	e.shadow = nil
}

func (e *Exec) newG(parent *G, name, site string, lib bool, fn func()) *G {
	g := &G{e: e, idx: len(e.gs), name: name, site: site, lib: lib, wake: make(chan struct{}, 1)}
	if parent == nil {
		g.path = []int{0}
		g.uid = fnvStr("root")
	} else {
		g.path = append(append([]int{}, parent.path...), parent.nkids)
		g.uid = mix(mix(parent.uid, uint64(parent.nkids)), e.siteHash(site))
		parent.nkids++
		if e.cfg.Race {
			g.vc = parent.vc.clone()
			parent.vc.tick(parent.idx)
		}
	}
	g.vc.tick(g.idx)
	g.hash = g.uid
	g.op = &op{kind: opStart, site: site, name: "start"}
	e.gs = append(e.gs, g)
	go func() {
		<-g.wake
		if e.abort {
			g.done = true
			e.endCh <- struct{}{}
			return
		}
		defer func() {
			r := recover()
			if _, isAbort := r.(abortSentinel); isAbort || e.abort {
				g.done = true
				e.endCh <- struct{}{}
				return
			}
			if r != nil {
				e.panicI = &PanicInfo{G: g.String(), Value: fmt.Sprint(r), Stack: string(debug.Stack())}
				g.done = true
				g.op = nil
				e.reason = EndPanic
				e.endCh <- struct{}{}
				return
			}
			// normal exit
			g.done = true
			g.op = nil
			next := e.schedule()
			if next != nil {
				next.wake <- struct{}{}
			} else {
				e.endCh <- struct{}{}
			}
		}()
		fn()
	}()
	return g
}

// Go spawns a library goroutine (called by rewritten `go` statements).
func Go(site string, fn func()) {
	e := cur
	if e == nil {
		go fn()
		return
	}
	e.checkAbort()
	e.newG(e.running, "", site, true, fn)
}

// GoWorld spawns a world (environment) goroutine.
func GoWorld(name string, fn func()) *G {
	e := cur
	if e == nil {
		panic("vrt.GoWorld outside execution")
	}
	e.checkAbort()
	return e.newG(e.running, name, "world:"+name, false, fn)
}

func (e *Exec) checkAbort() {
	if e.abort {
		panic(abortSentinel{})
	}
}

// block parks the running goroutine on its pending op until it is chosen.
func (e *Exec) block(g *G) {
	next := e.schedule()
	if next == g {
		return
	}
	if next != nil {
		next.wake <- struct{}{}
	} else {
		e.endCh <- struct{}{}
	}
	<-g.wake
	if e.abort {
		panic(abortSentinel{})
	}
}

func lessPath(a, b []int) bool {
	for i := 0; i < len(a) && i < len(b); i++ {
		if a[i] != b[i] {
			return a[i] < b[i]
		}
	}
	return len(a) < len(b)
}

// order returns the goroutines in canonical order: last-run first, then by
// canonical path.
func (e *Exec) ordered() []*G {
	gs := make([]*G, 0, len(e.gs))
	for _, g := range e.gs {
		if !g.done && g.op != nil {
			gs = append(gs, g)
		}
	}
	sort.Slice(gs, func(i, j int) bool {
		if gs[i] == e.last {
			return gs[j] != e.last
		}
		if gs[j] == e.last {
			return false
		}
		return lessPath(gs[i].path, gs[j].path)
	})
	return gs
}

// enabled computes the enabled transitions in canonical order.
func (e *Exec) enabled() []transition {
	T := e.tbuf[:0]
	var stepTrig *G
	for _, g := range e.ordered() {
		o := g.op
		switch o.kind {
		case opStart, opResume:
			T = append(T, transition{g: g})
		case opWait:
			if o.pred == nil || o.pred() {
				T = append(T, transition{g: g})
			}
		case opStep:
			if e.steps >= o.n && stepTrig == nil {
				stepTrig = g
			}
		case opQuiescent:
			// handled when nothing else is enabled
		case opSelect:
			any := false
			for ci, c := range o.cases {
				if c.ch == nil {
					continue
				}
				if !c.send {
					if len(c.ch.buf) > 0 || c.ch.closed {
						T = append(T, transition{g: g, cs: ci})
						any = true
						continue
					}
					for _, s := range e.sendersOn(c.ch, g) {
						T = append(T, transition{g: g, cs: ci, partner: s.g, pcs: s.cs})
						any = true
					}
				} else {
					if c.ch.closed || len(c.ch.buf) < c.ch.cap {
						T = append(T, transition{g: g, cs: ci})
						any = true
					} else if e.hasReceiverOn(c.ch, g) {
						any = true
					}
				}
			}
			if !any && o.hasDef {
				T = append(T, transition{g: g, cs: -1})
			}
		}
	}
	if stepTrig != nil {
		T = append([]transition{{g: stepTrig}}, T...)
	}
	for _, t := range e.timers {
		if t.active && t.when <= e.now {
			T = append(T, transition{timer: t})
		}
	}
	e.tbuf = T
	return T
}

type gcase struct {
	g  *G
	cs int
}

func (e *Exec) sendersOn(ch *vchan, except *G) []gcase {
	var r []gcase
	for _, g := range e.gs {
		if g == except || g.done || g.op == nil || g.op.kind != opSelect {
			continue
		}
		for ci, c := range g.op.cases {
			if c.send && c.ch == ch {
				r = append(r, gcase{g, ci})
			}
		}
	}
	if len(r) > 1 {
		sort.Slice(r, func(i, j int) bool {
			if r[i].g != r[j].g {
				return lessPath(r[i].g.path, r[j].g.path)
			}
			return r[i].cs < r[j].cs
		})
	}
	return r
}

func (e *Exec) hasReceiverOn(ch *vchan, except *G) bool {
	for _, g := range e.gs {
		if g == except || g.done || g.op == nil || g.op.kind != opSelect {
			continue
		}
		for _, c := range g.op.cases {
			if !c.send && c.ch == ch {
				return true
			}
		}
	}
	return false
}

// schedule picks and performs transitions until a goroutine has to run; it
// returns that goroutine, or nil when the execution is over.
func (e *Exec) schedule() *G {
	for {
		if e.reason == EndPanic {
			return nil
		}
		if e.stopReq {
			e.reason = EndStopped
			return nil
		}
		T := e.enabled()
		if len(T) == 0 {
			// quiescent cut
			var q *G
			for _, g := range e.ordered() {
				if g.op.kind == opQuiescent {
					q = g
					break
				}
			}
			releaseStep := func() bool {
				// a step trigger that can never be reached any more is released
				for _, g := range e.ordered() {
					if g.op.kind == opStep {
						q = g
						g.op.n = -1
						return true
					}
				}
				return false
			}
			if q != nil {
				e.quiets++
				T = append(T, transition{g: q})
			} else {
				var min int64 = -1
				for _, t := range e.timers {
					if t.active && (min < 0 || t.when < min) {
						min = t.when
					}
				}
				if min < 0 || (e.cfg.Horizon > 0 && min > e.cfg.Horizon) {
					if releaseStep() {
						T = append(T, transition{g: q})
					} else if min < 0 {
						e.reason = EndQuiescent
						return nil
					} else {
						e.reason = EndHorizon
						return nil
					}
				} else {
					if min > e.now {
						e.now = min
					}
					continue
				}
			}
		}
		if e.steps >= e.cfg.MaxSteps {
			e.reason = EndStepCap
			return nil
		}
		i := 0
		if len(T) > 1 {
			key := uint64(0)
			if kc, ok := e.cfg.Chooser.(interface{ WantKey() bool }); ok && kc.WantKey() {
				key = e.StateKey()
			}
			e.points = append(e.points, Point{N: len(T), Key: key})
			if e.cfg.Chooser != nil {
				i = e.cfg.Chooser.Choose(e, len(T))
			}
			if i < 0 {
				e.points = e.points[:len(e.points)-1]
				e.reason = EndTruncated
				return nil
			}
			if i >= len(T) {
				panic(fmt.Sprintf("vrt: ENGINE-NONDETERMINISM chooser picked %d of %d at point %d", i, len(T), len(e.points)-1))
			}
			e.points[len(e.points)-1].Chosen = i
		}
		t := T[i]
		e.steps++
		if g := e.perform(t); g != nil {
			e.last = g
			e.running = g
			return g
		}
	}
}

// StateKey returns the happens-before hash of the execution so far.
func (e *Exec) StateKey() uint64 {
	var h uint64 = 1469598103934665603
	// goroutine order by idx is not canonical; combine commutatively over uid-tagged hashes
	var acc uint64
	for _, g := range e.gs {
		x := mix(g.uid, g.hash)
		if g.done {
			x = mix(x, 0xdead)
		}
		acc += x * 0x9E3779B97F4A7C15
	}
	h = mix(h, acc)
	h = mix(h, uint64(e.now))
	h = mix(h, e.clockHash)
	if e.last != nil {
		h = mix(h, e.last.uid)
	}
	return h
}

func (e *Exec) record(g *G, opname, site string) {
	if e.cfg.Trace {
		name := "clock"
		if g != nil {
			name = g.String()
		}
		e.trace = append(e.trace, TraceEntry{Step: e.steps, G: name, Op: opname, Site: site, Now: e.now})
	}
}

// perform executes transition t and returns the goroutine that must run next
// (nil for clock transitions).
func (e *Exec) perform(t transition) *G {
	if t.timer != nil {
		t.timer.fire(e)
		e.record(nil, "fire", t.timer.site)
		return nil
	}
	g := t.g
	o := g.op
	switch o.kind {
	case opStart:
		g.hash = mix(g.hash, 0x51a47)
		e.record(g, "start", o.site)
	case opResume:
		g.hash = mix(g.hash, 0x4e53)
		e.record(g, "resume", o.site)
	case opStep, opQuiescent:
		g.hash = mix(mix(g.hash, uint64(o.kind)), uint64(o.n))
		e.record(g, o.name, o.site)
	case opWait:
		e.touch(g, o.site, o.release, o.objs)
		e.record(g, o.name, o.site)
	case opSelect:
		e.rendezvousOnly = false
		e.performSelect(t)
		if e.rendezvousOnly {
			e.rendezvousOnly = false
			e.last = g
			return nil
		}
	}
	g.op = nil
	return g
}

// touch folds a (visible or invisible) synchronisation action of g on objs
// into the happens-before hashes and vector clocks.
func (e *Exec) touch(g *G, site string, release bool, objs []*Obj) {
	h := mix(mix(g.hash, 0x3a17), e.siteHash(site))
	for _, ob := range objs {
		h = mix(h, ob.hash)
	}
	g.hash = h
	for _, ob := range objs {
		ob.hash = mix(ob.hash, h)
	}
	if e.cfg.Race {
		for _, ob := range objs {
			if !ob.NoSync {
				g.vc.join(ob.vc)
			}
		}
		if release {
			for _, ob := range objs {
				if !ob.NoSync {
					ob.vc.join(g.vc)
				}
			}
		}
		g.vc.tick(g.idx)
	}
}

// Touch is the non-yielding variant of Wait: it orders the running goroutine
// with objs without being a scheduling point (for operations that cannot
// conflict with a concurrent transition, e.g. creating a timer).
func Touch(site string, release bool, objs ...*Obj) {
	e := cur
	if e == nil || e.running == nil {
		return
	}
	e.touch(e.running, site, release, objs)
}

// Stop requests the end of the execution at the next scheduling point.
func (e *Exec) Stop() { e.stopReq = true }

// wait declares a generic blocking operation for the running goroutine.
func (e *Exec) wait(site, name string, pred func() bool, release bool, objs ...*Obj) {
	e.checkAbort()
	g := e.running
	g.op = &op{kind: opWait, site: site, name: name, pred: pred, objs: objs, release: release}
	e.block(g)
}

// Wait is the generic visible operation for code built on vrt (vnet, shims,
// world): the calling goroutine becomes enabled when pred() holds (nil =
// always). objs are the synchronisation objects the operation touches;
// release says whether it publishes the caller's history to them.
func Wait(site, name string, pred func() bool, release bool, objs ...*Obj) {
	if cur == nil {
		panic("vrt.Wait outside execution")
	}
	cur.wait(site, name, pred, release, objs...)
}

// Yield is an always-enabled scheduling point.
func Yield(site string) {
	if cur == nil {
		return
	}
	cur.wait(site, "yield", nil, false)
}

// NewObj creates a synchronisation object with a canonical identity derived
// from the creating goroutine.
func NewObj(name string) *Obj {
	e := cur
	if e == nil {
		return &Obj{name: name}
	}
	g := e.running
	var uid uint64
	if g != nil {
		uid = mix(mix(g.uid, 0x0b1ec7), uint64(g.nobjs))
		g.nobjs++
	} else {
		uid = fnvStr("pre:" + name)
	}
	return &Obj{uid: uid, hash: uid, name: name}
}

// WaitStep blocks the calling (world) goroutine until the global step counter
// has reached j; the trigger then has priority over everything else. It
// returns false if the execution became quiescent before step j was reached.
func WaitStep(j int) bool {
	e := cur
	e.checkAbort()
	g := e.running
	o := &op{kind: opStep, name: "waitstep", site: "world", n: j}
	g.op = o
	e.block(g)
	return o.n >= 0
}

// WaitQuiescent blocks the calling (world) goroutine until nothing else is
// enabled (without letting the clock advance).
func WaitQuiescent() {
	e := cur
	e.checkAbort()
	g := e.running
	g.op = &op{kind: opQuiescent, name: "waitquiescent", site: "world", n: e.quiets}
	e.block(g)
}

// LogTouch orders the calling goroutine with the observation log: call it
// whenever the world appends to (or reads, for WaitLog) its shared log.
func LogTouch() {
	e := cur
	if e == nil {
		return
	}
	g := e.running
	if g == nil {
		return
	}
	h := mix(mix(g.hash, 0x106), e.logObj.hash)
	g.hash = h
	e.logObj.hash = mix(e.logObj.hash, h)
}

// WaitLog blocks until pred (a function of the observation log and virtual
// time only) holds.
func WaitLog(name string, pred func() bool) {
	e := cur
	e.wait("world", name, pred, true, e.logObj)
}

func fnvStr(s string) uint64 {
	var h uint64 = 14695981039346656037
	for i := 0; i < len(s); i++ {
		h ^= uint64(s[i])
		h *= 1099511628211
	}
	return h
}

func mix(a, b uint64) uint64 {
	x := a ^ (b + 0x9E3779B97F4A7C15 + (a << 6) + (a >> 2))
	x ^= x >> 33
	x *= 0xff51afd7ed558ccd
	x ^= x >> 33
	return x
}
