package vrt

import (
	"fmt"
	"time"
)

// Result is what one execution of a scenario reports to the explorer.
type Result struct {
	Points    []Point
	Steps     int
	Reason    EndReason
	Violation *Violation
	Outcome   uint64 // hash of the canonical observable outcome
	Known     []string
}

// Violation describes a failed monitor.
type Violation struct {
	Rule    string
	Message string
	Sig     string // signature for known-findings matching
}

// RunFunc executes the scenario once on a fresh world under chooser c.
type RunFunc func(c Chooser, trace bool) *Result

// Stats accumulates exploration counters.
type Stats struct {
	Executions  int
	Truncated   int
	Transitions int64
	Points      int64
	States      int
	CapHits     int
	Outcomes    map[uint64]int
	BoundDone   int  // largest delay bound completed
	Exhaustive  bool // the last attempted bound (or unbounded mode) completed
	Unbounded   bool
	MaxPoints   int
}

// Found is a violation together with the choices that reproduce it.
type Found struct {
	Choices []int
	V       *Violation
	Bound   int
}

// Explorer performs replay-based depth-first exploration of the schedules of
// a scenario: all executions whose cost (sum of chosen indices) is <= Bound,
// with happens-before state caching.
type Explorer struct {
	Run      RunFunc
	Bound    int
	Deadline time.Time
	NoCache  bool
	// Unbounded explores every alternative at every choice point (no delay
	// bound); termination then rests on the happens-before cache alone.
	Unbounded bool
	Stats     Stats
	cache     map[uint64]int
	found     *Found
	timeout   bool
	// OnKnown is called for known-finding signatures seen in a run.
	KnownSeen map[string]bool
}

type dfsChooser struct {
	ex      *Explorer
	prefix  []int
	prefixN []int
	pos     int
	budget  int
	trunc   bool
}

func (c *dfsChooser) WantKey() bool { return !c.ex.NoCache }

func (c *dfsChooser) Choose(e *Exec, n int) int {
	i := c.pos
	c.pos++
	if i < len(c.prefix) {
		if c.prefixN != nil && c.prefixN[i] != n {
			panic(fmt.Sprintf("vrt: ENGINE-NONDETERMINISM replay point %d has %d enabled, recorded %d", i, n, c.prefixN[i]))
		}
		return c.prefix[i]
	}
	if !c.ex.NoCache {
		key := e.points[len(e.points)-1].Key
		if b, ok := c.ex.cache[key]; ok && (c.ex.Unbounded || b >= c.budget) {
			c.trunc = true
			return -1
		}
		c.ex.cache[key] = c.budget
	}
	return 0
}

// ReplayChooser replays a fixed choice sequence and then takes choice 0.
type ReplayChooser struct {
	Choices []int
	pos     int
}

func (c *ReplayChooser) Choose(e *Exec, n int) int {
	i := c.pos
	c.pos++
	if i < len(c.Choices) {
		if c.Choices[i] >= n {
			panic(fmt.Sprintf("vrt: ENGINE-NONDETERMINISM replay choice %d of %d at point %d", c.Choices[i], n, i))
		}
		return c.Choices[i]
	}
	return 0
}

// Explore runs bounds 0..Bound iteratively and returns the first violation
// found (nil if none).
func (x *Explorer) Explore() *Found {
	x.Stats.Outcomes = map[uint64]int{}
	x.Stats.BoundDone = -1
	if x.KnownSeen == nil {
		x.KnownSeen = map[string]bool{}
	}
	if x.Unbounded {
		x.cache = map[uint64]int{}
		x.explore(nil, nil, 1<<30, 1<<30)
		if x.found != nil {
			return x.found
		}
		x.Stats.States = len(x.cache)
		x.Stats.Unbounded = true
		x.Stats.Exhaustive = !x.timeout
		if !x.timeout {
			x.Stats.BoundDone = 1 << 30
		}
		return nil
	}
	for k := 0; k <= x.Bound; k++ {
		x.cache = map[uint64]int{}
		x.timeout = false
		x.explore(nil, nil, k, k)
		if x.found != nil {
			return x.found
		}
		x.Stats.States = len(x.cache)
		if x.timeout {
			x.Stats.Exhaustive = false
			return nil
		}
		x.Stats.BoundDone = k
		x.Stats.Exhaustive = true
	}
	return nil
}

func (x *Explorer) explore(prefix, prefixN []int, budget, bound int) {
	if x.found != nil || x.timeout {
		return
	}
	if !x.Deadline.IsZero() && time.Now().After(x.Deadline) {
		x.timeout = true
		return
	}
	c := &dfsChooser{ex: x, prefix: prefix, prefixN: prefixN, budget: budget}
	r := x.Run(c, false)
	x.Stats.Executions++
	x.Stats.Transitions += int64(r.Steps)
	x.Stats.Points += int64(len(r.Points))
	if len(r.Points) > x.Stats.MaxPoints {
		x.Stats.MaxPoints = len(r.Points)
	}
	for _, k := range r.Known {
		x.KnownSeen[k] = true
	}
	if r.Reason == EndStepCap {
		x.Stats.CapHits++
	}
	if c.trunc {
		x.Stats.Truncated++
	} else {
		x.Stats.Outcomes[r.Outcome]++
	}
	if r.Violation != nil {
		ch := make([]int, len(r.Points))
		for i, p := range r.Points {
			ch[i] = p.Chosen
		}
		x.found = &Found{Choices: ch, V: r.Violation, Bound: bound}
		return
	}
	if budget == 0 {
		return
	}
	choices := make([]int, len(r.Points))
	ns := make([]int, len(r.Points))
	for i, p := range r.Points {
		choices[i] = p.Chosen
		ns[i] = p.N
	}
	for i := len(prefix); i < len(r.Points); i++ {
		n := r.Points[i].N
		for alt := 1; alt < n && (x.Unbounded || alt <= budget); alt++ {
			np := append(append([]int{}, choices[:i]...), alt)
			nn := append(append([]int{}, ns[:i]...), n)
			nb := budget - alt
			if x.Unbounded {
				nb = budget
			}
			x.explore(np, nn, nb, bound)
			if x.found != nil || x.timeout {
				return
			}
		}
	}
}
