package vrt

import "time"

// Epoch is the wall-clock value of virtual time 0.
var Epoch = time.Date(2024, 1, 1, 0, 0, 0, 0, time.UTC)

// Timer is the vrt-backed replacement for time.Timer.
type Timer struct {
	C      <-chan time.Time
	c      chan time.Time
	vc     *vchan
	real   *time.Timer
	when   int64
	active bool
	site   string
	obj    *Obj
	armvc  vclock
	fn     func() // AfterFunc
	period int64  // Ticker
}

// TimeNow replaces time.Now.
func TimeNow() time.Time {
	if e := cur; e != nil {
		return Epoch.Add(time.Duration(e.now))
	}
	return time.Now()
}

// NewTimer replaces time.NewTimer.
func NewTimer(d time.Duration) *Timer { return newTimer(d, "time.NewTimer", nil, 0) }

func newTimer(d time.Duration, site string, fn func(), period int64) *Timer {
	e := cur
	if e == nil {
		if fn != nil {
			return &Timer{real: time.AfterFunc(d, fn)}
		}
		rt := time.NewTimer(d)
		return &Timer{real: rt, C: rt.C}
	}
	e.checkAbort()
	t := &Timer{site: site, fn: fn, period: period}
	t.obj = NewObj("timer")
	// timer operations order transitions (hash) but are not synchronisation in
	// the Go memory model, except: arming happens before the delivery of that tick
	t.obj.NoSync = true
	if fn == nil {
		t.c = MakeChan[time.Time](1, site)
		t.C = t.c
		t.vc = e.chans[chanPtr(t.c)]
	}
	if d < 0 {
		d = 0
	}
	t.when = e.now + int64(d)
	t.active = true
	e.timers = append(e.timers, t)
	if e.cfg.Race && e.running != nil {
		t.armvc = e.running.vc.clone()
	}
	e.touch(e.running, site, true, []*Obj{t.obj})
	return t
}

// fire delivers the tick (clock transition).
func (t *Timer) fire(e *Exec) {
	t.active = false
	t.obj.hash = mix(t.obj.hash, 0xf19e)
	e.clockHash = mix(e.clockHash, t.obj.hash)
	if t.fn != nil {
		fn := t.fn
		g := e.newGFrom(t, fn)
		_ = g
		return
	}
	if len(t.vc.buf) == 0 {
		t.vc.buf = append(t.vc.buf, Epoch.Add(time.Duration(e.now)))
		if e.cfg.Race {
			t.vc.bufvc = append(t.vc.bufvc, t.armvc.clone())
		}
		t.vc.obj.hash = mix(t.vc.obj.hash, t.obj.hash)
	}
	if t.period > 0 {
		t.when = e.now + t.period
		t.active = true
	}
}

// newGFrom spawns the goroutine running an AfterFunc callback.
func (e *Exec) newGFrom(t *Timer, fn func()) *G {
	// parented to main for canonical naming; ordered after the arming via armvc
	p := e.gs[0]
	g := e.newG(p, "afterfunc", t.site, true, fn)
	if e.cfg.Race {
		g.vc.join(t.armvc)
	}
	return g
}

// Stop replaces (*time.Timer).Stop.
func (t *Timer) Stop() bool {
	e := cur
	if e == nil || t.real != nil {
		return t.real.Stop()
	}
	e.wait(t.site, "timer-stop", nil, true, t.obj)
	was := t.active
	t.active = false
	if !e.cfg.LegacyTimers && t.vc != nil && len(t.vc.buf) > 0 {
		// Go >= 1.23: an undelivered tick is discarded and Stop reports true
		t.vc.buf = t.vc.buf[:0]
		t.vc.bufvc = t.vc.bufvc[:0]
		t.vc.obj.hash = mix(t.vc.obj.hash, t.obj.hash)
		was = true
	}
	return was
}

// Reset replaces (*time.Timer).Reset.
func (t *Timer) Reset(d time.Duration) bool {
	e := cur
	if e == nil || t.real != nil {
		return t.real.Reset(d)
	}
	e.wait(t.site, "timer-reset", nil, true, t.obj)
	was := t.active
	if !e.cfg.LegacyTimers && t.vc != nil && len(t.vc.buf) > 0 {
		t.vc.buf = t.vc.buf[:0]
		t.vc.bufvc = t.vc.bufvc[:0]
		t.vc.obj.hash = mix(t.vc.obj.hash, t.obj.hash)
		was = true
	}
	if d < 0 {
		d = 0
	}
	t.when = e.now + int64(d)
	t.active = true
	if e.cfg.Race {
		t.armvc = e.running.vc.clone()
		t.armvc[e.running.idx]-- // the clock at the Reset itself (wait ticked already)
	}
	return was
}

// AfterFunc replaces time.AfterFunc.
func AfterFunc(d time.Duration, f func()) *Timer { return newTimer(d, "time.AfterFunc", f, 0) }

// After replaces time.After.
func After(d time.Duration) <-chan time.Time {
	if cur == nil {
		return time.After(d)
	}
	return newTimer(d, "time.After", nil, 0).C
}

// Sleep replaces time.Sleep.
func Sleep(d time.Duration) {
	if cur == nil {
		time.Sleep(d)
		return
	}
	if d <= 0 {
		Yield("time.Sleep")
		return
	}
	t := newTimer(d, "time.Sleep", nil, 0)
	Recv(t.C, "time.Sleep")
}

// Ticker is the vrt-backed replacement for time.Ticker.
type Ticker struct {
	C <-chan time.Time
	t *Timer
	r *time.Ticker
}

// NewTicker replaces time.NewTicker.
func NewTicker(d time.Duration) *Ticker {
	if cur == nil {
		r := time.NewTicker(d)
		return &Ticker{C: r.C, r: r}
	}
	if d <= 0 {
		panic("non-positive interval for NewTicker")
	}
	t := newTimer(d, "time.NewTicker", nil, int64(d))
	return &Ticker{C: t.C, t: t}
}

func (t *Ticker) Stop() {
	if t.r != nil {
		t.r.Stop()
		return
	}
	t.t.period = 0
	t.t.Stop()
}

func (t *Ticker) Reset(d time.Duration) {
	if t.r != nil {
		t.r.Reset(d)
		return
	}
	t.t.period = int64(d)
	t.t.Reset(d)
}
