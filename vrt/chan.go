package vrt

import (
	"reflect"
	"unsafe"
)

// vchan is the virtual state behind a real channel value, which is used only
// as identity and type witness while an execution is active.
type vchan struct {
	obj    Obj
	cap    int
	buf    []any
	bufvc  []vclock
	closed bool
	site   string
	closvc vclock
}

func chanPtr[T any](ch chan T) unsafe.Pointer    { return *(*unsafe.Pointer)(unsafe.Pointer(&ch)) }
func rchanPtr[T any](ch <-chan T) unsafe.Pointer { return *(*unsafe.Pointer)(unsafe.Pointer(&ch)) }
func schanPtr[T any](ch chan<- T) unsafe.Pointer { return *(*unsafe.Pointer)(unsafe.Pointer(&ch)) }

func (e *Exec) lookup(p unsafe.Pointer, capacity int, pin any) *vchan {
	if p == nil {
		return nil
	}
	if c, ok := e.chans[p]; ok {
		return c
	}
	// a channel not created through MakeChan during this execution (e.g.
	// created before Run): register lazily.
	return e.register(p, capacity, "lazy", pin)
}

func (e *Exec) register(p unsafe.Pointer, capacity int, site string, pin any) *vchan {
	c := &vchan{cap: capacity, site: site}
	g := e.running
	if g != nil {
		c.obj.uid = mix(mix(g.uid, 0xc4a7), uint64(g.nobjs))
		g.nobjs++
	} else {
		c.obj.uid = mix(0xc4a7, uint64(len(e.chans)))
	}
	c.obj.hash = c.obj.uid
	c.obj.name = "chan@" + site
	e.chans[p] = c
	e.pins = append(e.pins, pin)
	return c
}

// MakeChan replaces make(chan T, n).
func MakeChan[T any](n int, site string) chan T {
	ch := make(chan T, n)
	if e := cur; e != nil {
		e.checkAbort()
		e.register(chanPtr(ch), n, site, ch)
	}
	return ch
}

// SendOp carries a pending send; the rewriter assigns V so that Go's own
// assignability rules perform any conversion.
type SendOp[T any] struct {
	ch chan<- T
	V  T
}

// NewSend starts a send statement.
func NewSend[T any](ch chan<- T) *SendOp[T] { return &SendOp[T]{ch: ch} }

// Do performs the send.
func (s *SendOp[T]) Do(site string) {
	e := cur
	if e == nil {
		s.ch <- s.V
		return
	}
	e.checkAbort()
	c := e.lookup(schanPtr(s.ch), cap(s.ch), s.ch)
	e.doSelect(site, false, []selCase{{ch: c, send: true, val: s.V}})
}

// Case returns the send as a select case.
func (s *SendOp[T]) Case() Case {
	e := cur
	if e == nil {
		return Case{real: reflect.SelectCase{Dir: reflect.SelectSend, Chan: reflect.ValueOf(s.ch), Send: reflect.ValueOf(&s.V).Elem()}, nilch: s.ch == nil}
	}
	return Case{c: selCase{ch: e.lookup(schanPtr(s.ch), cap(s.ch), s.ch), send: true, val: s.V}}
}

// Recv replaces <-ch.
func Recv[T any](ch <-chan T, site string) T {
	v, _ := Recv2(ch, site)
	return v
}

// Recv2 replaces v, ok := <-ch.
func Recv2[T any](ch <-chan T, site string) (T, bool) {
	e := cur
	if e == nil {
		v, ok := <-ch
		return v, ok
	}
	e.checkAbort()
	c := e.lookup(rchanPtr(ch), cap(ch), ch)
	_, rv, ok := e.doSelect(site, false, []selCase{{ch: c}})
	v, _ := rv.(T)
	return v, ok
}

// Close replaces close(ch).
func Close[T any](ch chan<- T, site string) {
	e := cur
	if e == nil {
		close(ch)
		return
	}
	e.checkAbort()
	c := e.lookup(schanPtr(ch), cap(ch), ch)
	if c == nil {
		panic("close of nil channel")
	}
	e.wait(site, "close", nil, true, &c.obj)
	if c.closed {
		panic("close of closed channel")
	}
	c.closed = true
	if e.cfg.Race {
		g := e.running
		c.closvc = g.vc.clone()
		c.closvc[g.idx]-- // the clock at the close itself (wait ticked after releasing)
	}
}

// Case is one case of a rewritten select statement.
type Case struct {
	c     selCase
	real  reflect.SelectCase
	nilch bool
}

// RecvCase builds a receive case.
func RecvCase[T any](ch <-chan T) Case {
	e := cur
	if e == nil {
		return Case{real: reflect.SelectCase{Dir: reflect.SelectRecv, Chan: reflect.ValueOf(ch)}, nilch: ch == nil}
	}
	return Case{c: selCase{ch: e.lookup(rchanPtr(ch), cap(ch), ch)}}
}

// Select replaces a select statement. It returns the index of the chosen case
// (len(cases) for default), the received value and the ok flag.
func Select(site string, hasDefault bool, cases ...Case) (int, any, bool) {
	e := cur
	if e == nil {
		rc := make([]reflect.SelectCase, 0, len(cases)+1)
		for _, c := range cases {
			x := c.real
			if c.nilch {
				x.Chan = reflect.Value{}
				x.Send = reflect.Value{}
				if x.Dir == reflect.SelectSend {
					// a nil-channel send never proceeds; model as recv on nil
					x.Dir = reflect.SelectRecv
				}
			}
			rc = append(rc, x)
		}
		if hasDefault {
			rc = append(rc, reflect.SelectCase{Dir: reflect.SelectDefault})
		}
		i, v, ok := reflect.Select(rc)
		if v.IsValid() {
			return i, v.Interface(), ok
		}
		return i, nil, ok
	}
	e.checkAbort()
	sc := make([]selCase, len(cases))
	for i, c := range cases {
		sc[i] = c.c
	}
	i, v, ok := e.doSelect(site, hasDefault, sc)
	if i < 0 {
		i = len(cases)
	}
	return i, v, ok
}

// As converts a value received through Select to the element type of ch.
func As[T any](ch <-chan T, v any) T {
	x, _ := v.(T)
	return x
}

func (e *Exec) doSelect(site string, hasDef bool, cases []selCase) (int, any, bool) {
	g := e.running
	g.op = &op{kind: opSelect, site: site, name: "select", cases: cases, hasDef: hasDef}
	e.block(g)
	if g.selIdx == -2 {
		panic("send on closed channel")
	}
	return g.selIdx, g.selVal, g.selOK
}

// performSelect executes a select/channel transition owned by t.g.
func (e *Exec) performSelect(t transition) {
	g := t.g
	o := g.op
	sh := e.siteHash(o.site)
	if t.cs < 0 {
		g.selIdx, g.selVal, g.selOK = -1, nil, false
		// default: depends on the state of all channels involved
		h := mix(mix(g.hash, 0xdef), sh)
		for _, c := range o.cases {
			if c.ch != nil {
				h = mix(h, c.ch.obj.hash)
			}
		}
		g.hash = h
		for _, c := range o.cases {
			if c.ch != nil {
				c.ch.obj.hash = mix(c.ch.obj.hash, h)
			}
		}
		e.record(g, "select-default", o.site)
		return
	}
	c := o.cases[t.cs]
	ch := c.ch
	if t.partner != nil {
		// rendez-vous: g receives from partner
		s := t.partner
		so := s.op
		sc := so.cases[t.pcs]
		g.selIdx, g.selVal, g.selOK = t.cs, sc.val, true
		s.selIdx, s.selVal, s.selOK = t.pcs, nil, false
		gh, shh := g.hash, s.hash
		g.hash = mix(mix(mix(mix(gh, 0x4ec0), sh), uint64(t.cs)), mix(shh, ch.obj.hash))
		s.hash = mix(mix(mix(mix(shh, 0x5e4d), e.siteHash(so.site)), uint64(t.pcs)), mix(gh, ch.obj.hash))
		ch.obj.hash = mix(mix(ch.obj.hash, g.hash), s.hash)
		if e.cfg.Race {
			g.vc.join(s.vc)
			s.vc.join(g.vc)
			g.vc.tick(g.idx)
			s.vc.tick(s.idx)
		}
		s.op = &op{kind: opResume, site: so.site, name: "resume"}
		if e.cfg.SymmetricRendezvous {
			// neither party continues as part of the hand-over itself: the code after the
			// receive and the code after the send run as separate transitions, in either order
			e.rendezvousOnly = true
			g.op = &op{kind: opResume, site: o.site, name: "resume-recv"}
		}
		e.record(g, "recv<-"+s.String(), o.site)
		return
	}
	if !c.send {
		if len(ch.buf) > 0 {
			g.selIdx, g.selVal, g.selOK = t.cs, ch.buf[0], true
			ch.buf = ch.buf[1:]
			if e.cfg.Race {
				g.vc.join(ch.bufvc[0])
				ch.bufvc = ch.bufvc[1:]
			}
		} else { // closed
			g.selIdx, g.selVal, g.selOK = t.cs, nil, false
			if e.cfg.Race {
				g.vc.join(ch.closvc)
			}
		}
		g.hash = mix(mix(mix(mix(g.hash, 0x4ecb), sh), uint64(t.cs)), ch.obj.hash)
		ch.obj.hash = mix(ch.obj.hash, g.hash)
		if e.cfg.Race {
			// k-th receive happens before (k+cap)-th send completes
			ch.obj.vc.join(g.vc)
			g.vc.tick(g.idx)
		}
		e.record(g, "recv", o.site)
		return
	}
	// buffered send or send on closed channel
	g.hash = mix(mix(mix(mix(g.hash, 0x5e4b), sh), uint64(t.cs)), ch.obj.hash)
	ch.obj.hash = mix(ch.obj.hash, g.hash)
	if ch.closed {
		g.op = nil
		e.record(g, "send-on-closed", o.site)
		// the goroutine panics when it resumes
		g.selIdx = -2
		return
	}
	g.selIdx, g.selVal, g.selOK = t.cs, nil, false
	ch.buf = append(ch.buf, c.val)
	if e.cfg.Race {
		g.vc.join(ch.obj.vc)
		ch.bufvc = append(ch.bufvc, g.vc.clone())
		g.vc.tick(g.idx)
	}
	e.record(g, "send", o.site)
}

// MapOrder returns the keys of m in a deterministic order (sorted by their
// printed form). Range over a map in rewritten code iterates in this order.
func MapOrder[K comparable, V any](m map[K]V, site string) []K {
	keys := make([]K, 0, len(m))
	for k := range m {
		keys = append(keys, k)
	}
	if cur == nil {
		return keys
	}
	sortKeys(keys)
	return keys
}

// ZeroVal / ZeroKey return the zero value of a map's element / key type (used by the
// rewriter to declare the shared loop variables of a range-over-map under go < 1.22).
func ZeroVal[K comparable, V any](m map[K]V) V {
	var z V
	return z
}

func ZeroKey[K comparable, V any](m map[K]V) K {
	var z K
	return z
}

// ChanLen is len(ch) for a channel of the rewritten package: the number of buffered elements in
// the virtual channel. It is a visible operation (the answer depends on the schedule).
func ChanLen(ch any, site string) int {
	v := reflect.ValueOf(ch)
	e := cur
	if e == nil || e.running == nil || v.IsNil() {
		if v.IsNil() {
			return 0
		}
		return v.Len()
	}
	c := e.lookup(v.UnsafePointer(), v.Cap(), ch)
	if c == nil {
		return v.Len()
	}
	e.wait(site, "chanlen", nil, false, &c.obj)
	return len(c.buf)
}
