package vrt

import (
	"sync"
	"unsafe"
)

// SyncObj is the synchronisation object behind one atomic variable, sync.Map or
// sync.Pool of the rewritten package. Every operation on it is a visible
// (always enabled) transition that both acquires and releases the object: the
// Go memory model makes atomic operations sequentially consistent and orders an
// operation after every operation whose effect it observes; ordering it after
// ALL earlier operations on the same variable only adds happens-before edges,
// so it can hide a race but never invent one.
//
// The object is bound to the execution that first used it; a package-level
// variable that survives into the next execution gets a fresh one there.
type SyncObj struct {
	obj *Obj
	ex  uint64
}

// Op declares one operation on the object. Outside an execution it does nothing.
func (a *SyncObj) Op(site string) {
	e := cur
	if e == nil || e.running == nil {
		return
	}
	if a.obj == nil || a.ex != e.serial {
		a.obj, a.ex = NewObj("sync"), e.serial
	}
	e.wait(site, "sync", nil, true, a.obj)
}

// Fresh reports whether the object has not been used in the current execution
// yet (state kept from an earlier execution must then be dropped).
func (a *SyncObj) Fresh() bool { return cur != nil && a.ex != cur.serial }

// AtomicAddr declares an operation of the function-style sync/atomic API on the
// variable at address p.
func AtomicAddr(p unsafe.Pointer, site string) {
	e := cur
	if e == nil || e.running == nil {
		return
	}
	if e.atomics == nil {
		e.atomics = map[unsafe.Pointer]*Obj{}
	}
	o := e.atomics[p]
	if o == nil {
		o = NewObj("atomic")
		e.atomics[p] = o
	}
	e.wait(site, "sync", nil, true, o)
}

// Pool is the deterministic replacement of sync.Pool: last in, first out, never
// emptied by the garbage collector (maximal reuse is the adversarial choice for
// code that hands out pooled memory), reset at the start of every execution.
type Pool struct {
	New func() any

	mu    sync.Mutex
	items []any
	so    SyncObj
}

func (p *Pool) Get() any {
	if p.so.Fresh() {
		p.items = nil
	}
	p.so.Op("sync.Pool.Get")
	p.mu.Lock()
	var x any
	if n := len(p.items); n > 0 {
		x = p.items[n-1]
		p.items = p.items[:n-1]
	}
	p.mu.Unlock()
	if x == nil && p.New != nil {
		x = p.New()
	}
	return x
}

func (p *Pool) Put(x any) {
	if x == nil {
		return
	}
	if p.so.Fresh() {
		p.items = nil
	}
	p.so.Op("sync.Pool.Put")
	p.mu.Lock()
	p.items = append(p.items, x)
	p.mu.Unlock()
}

// Map is sync.Map with every operation declared to the scheduler.
type Map struct {
	m  sync.Map
	so SyncObj
}

func (m *Map) Load(k any) (any, bool)    { m.so.Op("sync.Map.Load"); return m.m.Load(k) }
func (m *Map) Store(k, v any)            { m.so.Op("sync.Map.Store"); m.m.Store(k, v) }
func (m *Map) Delete(k any)              { m.so.Op("sync.Map.Delete"); m.m.Delete(k) }
func (m *Map) Clear()                    { m.so.Op("sync.Map.Clear"); m.m.Clear() }
func (m *Map) Swap(k, v any) (any, bool) { m.so.Op("sync.Map.Swap"); return m.m.Swap(k, v) }
func (m *Map) LoadAndDelete(k any) (any, bool) {
	m.so.Op("sync.Map.LoadAndDelete")
	return m.m.LoadAndDelete(k)
}
func (m *Map) LoadOrStore(k, v any) (any, bool) {
	m.so.Op("sync.Map.LoadOrStore")
	return m.m.LoadOrStore(k, v)
}
func (m *Map) CompareAndSwap(k, o, n any) bool {
	m.so.Op("sync.Map.CompareAndSwap")
	return m.m.CompareAndSwap(k, o, n)
}
func (m *Map) CompareAndDelete(k, o any) bool {
	m.so.Op("sync.Map.CompareAndDelete")
	return m.m.CompareAndDelete(k, o)
}

// Range visits the entries in a deterministic order when the keys are of one
// ordered basic kind (string or integer), otherwise in sync.Map's own order.
func (m *Map) Range(f func(k, v any) bool) {
	m.so.Op("sync.Map.Range")
	if cur == nil {
		m.m.Range(f)
		return
	}
	type kv struct{ k, v any }
	var all []kv
	m.m.Range(func(k, v any) bool { all = append(all, kv{k, v}); return true })
	keys := make([]any, len(all))
	for i := range all {
		keys[i] = all[i].k
	}
	order := sortAnyKeys(keys)
	for _, i := range order {
		if !f(all[i].k, all[i].v) {
			return
		}
	}
}

func sortAnyKeys(keys []any) []int {
	idx := make([]int, len(keys))
	strs := make([]string, len(keys))
	for i := range keys {
		idx[i] = i
		strs[i] = fmtKey(keys[i])
	}
	sortInts(idx, func(a, b int) bool { return strs[a] < strs[b] })
	return idx
}
