package vrt

import (
	"fmt"
	"sort"
	"unsafe"
)

// vclock is a vector clock indexed by goroutine index.
type vclock []uint32

func (v *vclock) tick(i int) {
	for len(*v) <= i {
		*v = append(*v, 0)
	}
	(*v)[i]++
}

func (v *vclock) join(o vclock) {
	for len(*v) < len(o) {
		*v = append(*v, 0)
	}
	for i, x := range o {
		if x > (*v)[i] {
			(*v)[i] = x
		}
	}
}

func (v vclock) clone() vclock { return append(vclock(nil), v...) }

func (v vclock) get(i int) uint32 {
	if i < len(v) {
		return v[i]
	}
	return 0
}

type access struct {
	g    int
	t    uint32
	site string
}

type shadowCell struct {
	w     access
	hasW  bool
	reads []access
}

func (e *Exec) report(a access, aw bool, b access, bw bool) {
	k := a.site + "|" + b.site
	if a.site > b.site {
		k = b.site + "|" + a.site
	}
	if e.raceSet[k] {
		return
	}
	e.raceSet[k] = true
	e.races = append(e.races, RaceInfo{SiteA: a.site, SiteB: b.site, GA: e.gs[a.g].String(), GB: e.gs[b.g].String(), WriteA: aw, WriteB: bw})
}

// R records a read of *p by the running goroutine and returns p.
func R[T any](p *T, site string) *T {
	e := cur
	if e == nil || !e.cfg.Race || e.abort || e.running == nil {
		return p
	}
	g := e.running
	c := e.cell(unsafe.Pointer(p))
	if c.hasW && c.w.g != g.idx && c.w.t > g.vc.get(c.w.g) {
		e.report(c.w, true, access{g.idx, 0, site}, false)
	}
	t := g.vc.get(g.idx)
	for i := range c.reads {
		if c.reads[i].g == g.idx {
			c.reads[i].t = t
			c.reads[i].site = site
			return p
		}
	}
	c.reads = append(c.reads, access{g.idx, t, site})
	return p
}

// W records a write of *p by the running goroutine and returns p.
func W[T any](p *T, site string) *T {
	e := cur
	if e == nil || !e.cfg.Race || e.abort || e.running == nil {
		return p
	}
	g := e.running
	c := e.cell(unsafe.Pointer(p))
	me := access{g.idx, g.vc.get(g.idx), site}
	if c.hasW && c.w.g != g.idx && c.w.t > g.vc.get(c.w.g) {
		e.report(c.w, true, me, true)
	}
	for _, r := range c.reads {
		if r.g != g.idx && r.t > g.vc.get(r.g) {
			e.report(r, false, me, true)
		}
	}
	c.w = me
	c.hasW = true
	c.reads = c.reads[:0]
	return p
}

func (e *Exec) cell(p unsafe.Pointer) *shadowCell {
	c := e.shadow[p]
	if c == nil {
		c = &shadowCell{}
		e.shadow[p] = c
	}
	return c
}

func sortKeys[K comparable](keys []K) {
	sort.Slice(keys, func(i, j int) bool { return fmt.Sprint(keys[i]) < fmt.Sprint(keys[j]) })
}

func mapPtr[K comparable, V any](m map[K]V) unsafe.Pointer {
	return *(*unsafe.Pointer)(unsafe.Pointer(&m))
}

// MapR records a read of the contents of m and returns m.
func MapR[K comparable, V any](m map[K]V, site string) map[K]V {
	e := cur
	if e == nil || !e.cfg.Race || e.abort || e.running == nil || m == nil {
		return m
	}
	p := (*byte)(mapPtr(m))
	R(p, site)
	return m
}

// MapW records a write of the contents of m and returns m.
func MapW[K comparable, V any](m map[K]V, site string) map[K]V {
	e := cur
	if e == nil || !e.cfg.Race || e.abort || e.running == nil || m == nil {
		return m
	}
	p := (*byte)(mapPtr(m))
	W(p, site)
	return m
}

func fmtKey(k any) string { return fmt.Sprint(k) }

func sortInts(idx []int, less func(a, b int) bool) {
	sort.SliceStable(idx, func(i, j int) bool { return less(idx[i], idx[j]) })
}
