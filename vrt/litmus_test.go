package vrt

import (
	"fmt"
	"sort"
	"strings"
	"testing"
	"time"
)

// outcomes explores prog with the given bound and returns the sorted set of
// observed outcome strings.
func outcomes(t *testing.T, bound int, nocache bool, cfg Config, prog func(out *[]string)) ([]string, Stats) {
	set := map[string]bool{}
	x := &Explorer{Bound: bound, NoCache: nocache}
	x.Run = func(c Chooser, trace bool) *Result {
		var out []string
		cf := cfg
		cf.Chooser = c
		e := Run(cf, func() { prog(&out) })
		r := &Result{Points: e.Points(), Steps: e.Steps(), Reason: e.Reason()}
		if p := e.Panic(); p != nil {
			out = append(out, "PANIC:"+p.Value)
		}
		if e.Reason() != EndTruncated {
			if !e.MainDone() && e.Panic() == nil {
				out = append(out, "DEADLOCK")
			}
			for _, rc := range e.Races() {
				out = append(out, "RACE")
				_ = rc
			}
			s := strings.Join(out, ",")
			set[s] = true
			r.Outcome = fnvStr(s)
		}
		e.Finish()
		return r
	}
	if f := x.Explore(); f != nil {
		t.Fatalf("unexpected violation %v", f)
	}
	var res []string
	for s := range set {
		res = append(res, s)
	}
	sort.Strings(res)
	return res, x.Stats
}

func expect(t *testing.T, name string, got []string, want ...string) {
	t.Helper()
	sort.Strings(want)
	if fmt.Sprint(got) != fmt.Sprint(want) {
		t.Errorf("%s: got %q want %q", name, got, want)
	}
}

func TestLitmusTwoSenders(t *testing.T) {
	prog := func(out *[]string) {
		ch := MakeChan[int](0, "ch")
		Go("s1", func() { s := NewSend(ch); s.V = 1; s.Do("s1") })
		Go("s2", func() { s := NewSend(ch); s.V = 2; s.Do("s2") })
		a := Recv(ch, "r")
		b := Recv(ch, "r")
		*out = append(*out, fmt.Sprint(a, b))
	}
	for _, nc := range []bool{true, false} {
		got, st := outcomes(t, 3, nc, Config{}, prog)
		expect(t, "two senders", got, "1 2", "2 1")
		t.Logf("nocache=%v stats=%+v", nc, st)
	}
	got, _ := outcomes(t, 0, false, Config{}, prog)
	if len(got) != 1 {
		t.Errorf("bound 0 must give exactly the default schedule, got %v", got)
	}
}

func TestLitmusSelectTwoReady(t *testing.T) {
	prog := func(out *[]string) {
		a := MakeChan[int](1, "a")
		b := MakeChan[int](1, "b")
		sa := NewSend(a)
		sa.V = 1
		sa.Do("x")
		sb := NewSend(b)
		sb.V = 2
		sb.Do("x")
		i, v, _ := Select("sel", false, RecvCase(a), RecvCase(b))
		*out = append(*out, fmt.Sprint(i, v))
	}
	got, _ := outcomes(t, 2, false, Config{}, prog)
	expect(t, "select two ready", got, "0 1", "1 2")
}

func TestLitmusSendVsClose(t *testing.T) {
	prog := func(out *[]string) {
		ch := MakeChan[int](0, "ch")
		done := MakeChan[int](0, "done")
		Go("closer", func() { Close(ch, "close") })
		Go("recv", func() {
			v, ok := Recv2(ch, "r")
			*out = append(*out, fmt.Sprint(v, ok))
			Close(done, "d")
		})
		i, _, _ := Select("sel", false, (func() Case { s := NewSend(ch); s.V = 7; return s.Case() })(), RecvCase(done))
		*out = append(*out, fmt.Sprint("main", i))
	}
	got, _ := outcomes(t, 4, false, Config{}, prog)
	// either the receiver gets 7 from main, or sees the close; main may then
	// panic sending on a closed channel or take done.
	t.Logf("send vs close outcomes: %q", got)
	has := func(s string) bool {
		for _, g := range got {
			if strings.Contains(g, s) {
				return true
			}
		}
		return false
	}
	if !has("7 true") || !has("0 false") || !has("PANIC:send on closed channel") {
		t.Errorf("missing outcomes: %q", got)
	}
}

func TestLitmusNilChannel(t *testing.T) {
	prog := func(out *[]string) {
		var n chan int
		a := MakeChan[int](1, "a")
		s := NewSend(a)
		s.V = 5
		s.Do("x")
		i, v, _ := Select("sel", false, RecvCase(n), RecvCase(a))
		*out = append(*out, fmt.Sprint(i, v))
		j, _, _ := Select("sel2", true, RecvCase(n))
		*out = append(*out, fmt.Sprint(j))
	}
	got, _ := outcomes(t, 2, false, Config{}, prog)
	expect(t, "nil channel", got, "1 5,1")
}

func TestLitmusDeadlock(t *testing.T) {
	prog := func(out *[]string) {
		ch := MakeChan[int](0, "ch")
		Recv(ch, "r")
	}
	got, _ := outcomes(t, 1, false, Config{}, prog)
	expect(t, "deadlock", got, "DEADLOCK")
}

func TestLitmusMutexOnce(t *testing.T) {
	prog := func(out *[]string) {
		var mu Mutex
		var once Once
		var wg WaitGroup
		n := 0
		first := ""
		wg.Add(2)
		for _, name := range []string{"a", "b"} {
			name := name
			Go("w"+name, func() {
				once.Do(func() { first = name })
				mu.Lock()
				n++
				mu.Unlock()
				wg.Done()
			})
		}
		wg.Wait()
		*out = append(*out, fmt.Sprint(n, first))
	}
	got, st := outcomes(t, 3, false, Config{Race: true}, prog)
	expect(t, "mutex/once", got, "2a", "2b")
	t.Logf("stats %+v", st)
}

func TestLitmusRace(t *testing.T) {
	prog := func(out *[]string) {
		x := 0
		done := MakeChan[int](0, "done")
		Go("w", func() { *W(&x, "w:1") = 1; Close(done, "c") })
		*W(&x, "main:1") = 2
		Recv(done, "r")
		_ = *R(&x, "main:2")
	}
	got, _ := outcomes(t, 1, false, Config{Race: true}, prog)
	expect(t, "race", got, "RACE")
	prog2 := func(out *[]string) {
		x := 0
		done := MakeChan[int](0, "done")
		*W(&x, "main:1") = 2
		Go("w", func() { *W(&x, "w:1") = 1; Close(done, "c") })
		Recv(done, "r")
		_ = *R(&x, "main:2")
	}
	got, _ = outcomes(t, 1, false, Config{Race: true}, prog2)
	expect(t, "norace", got, "")
}

func TestLitmusTimerStopVsFire(t *testing.T) {
	for _, legacy := range []bool{false, true} {
		prog := func(out *[]string) {
			tm := NewTimer(time.Second)
			other := NewTimer(time.Second)
			Recv(other.C, "o") // now == 1s, tm due at the same instant
			stopped := tm.Stop()
			got := false
			if i, _, _ := Select("s", true, RecvCase(tm.C)); i == 0 {
				got = true
			}
			*out = append(*out, fmt.Sprint(stopped, got))
		}
		got, _ := outcomes(t, 2, false, Config{LegacyTimers: legacy}, prog)
		if legacy {
			// fired first: Stop false and the tick stays; stopped first: true, no tick
			expect(t, "timer legacy", got, "false true", "true false")
		} else {
			// Go >= 1.23: Stop always discards the tick and reports true
			expect(t, "timer go1.23", got, "true false")
		}
	}
}

func TestLitmusVirtualTime(t *testing.T) {
	prog := func(out *[]string) {
		t0 := TimeNow()
		Sleep(90 * time.Second)
		tm := NewTimer(4 * time.Minute)
		Recv(tm.C, "r")
		*out = append(*out, TimeNow().Sub(t0).String())
	}
	got, _ := outcomes(t, 1, false, Config{}, prog)
	expect(t, "virtual time", got, "5m30s")
}

func TestLitmusHorizon(t *testing.T) {
	prog := func(out *[]string) {
		for i := 0; i < 100; i++ {
			Sleep(time.Second)
			*out = append(*out, "t")
		}
	}
	got, _ := outcomes(t, 0, false, Config{Horizon: int64(3500 * time.Millisecond)}, prog)
	expect(t, "horizon", got, "t,t,t,DEADLOCK")
}

func TestLitmusWaitStepQuiescent(t *testing.T) {
	prog := func(out *[]string) {
		ch := MakeChan[int](0, "ch")
		Go("w", func() {
			for i := 0; i < 3; i++ {
				Yield("y")
				*out = append(*out, fmt.Sprint("w", i))
			}
			Recv(ch, "block")
		})
		WaitQuiescent()
		*out = append(*out, "q")
		Close(ch, "c")
	}
	got, _ := outcomes(t, 0, false, Config{}, prog)
	expect(t, "quiescent", got, "w0,w1,w2,q")
}

func TestDeterministicReplay(t *testing.T) {
	prog := func(out *[]string) {
		ch := MakeChan[int](0, "ch")
		for i := 0; i < 3; i++ {
			i := i
			Go("s", func() { s := NewSend(ch); s.V = i; s.Do("s") })
		}
		for i := 0; i < 3; i++ {
			*out = append(*out, fmt.Sprint(Recv(ch, "r")))
		}
	}
	run := func(ch []int) string {
		var out []string
		e := Run(Config{Chooser: &ReplayChooser{Choices: ch}}, func() { prog(&out) })
		e.Finish()
		return strings.Join(out, ",")
	}
	a := run([]int{1, 0, 1})
	b := run([]int{1, 0, 1})
	if a != b {
		t.Fatalf("replay differs: %q vs %q", a, b)
	}
	got, st := outcomes(t, 6, false, Config{}, prog)
	if len(got) != 6 {
		t.Errorf("want all 6 permutations, got %q", got)
	}
	t.Logf("perms: %q stats=%+v", got, st)
}

func TestUnboundedMode(t *testing.T) {
	prog := func(out *[]string) {
		ch := MakeChan[int](0, "ch")
		for i := 0; i < 4; i++ {
			i := i
			Go("s", func() { s := NewSend(ch); s.V = i; s.Do("s") })
		}
		var got []int
		for i := 0; i < 4; i++ {
			got = append(got, Recv(ch, "r"))
		}
		*out = append(*out, fmt.Sprint(got))
	}
	set := map[string]bool{}
	x := &Explorer{Unbounded: true}
	x.Run = func(c Chooser, trace bool) *Result {
		var out []string
		e := Run(Config{Chooser: c}, func() { prog(&out) })
		r := &Result{Points: e.Points(), Steps: e.Steps(), Reason: e.Reason()}
		if e.Reason() != EndTruncated {
			set[strings.Join(out, ",")] = true
		}
		e.Finish()
		return r
	}
	if f := x.Explore(); f != nil {
		t.Fatal(f)
	}
	if len(set) != 24 || !x.Stats.Exhaustive {
		t.Errorf("unbounded mode: %d outcomes (want 24), stats %+v", len(set), x.Stats)
	}
	t.Logf("unbounded: executions=%d states=%d truncated=%d", x.Stats.Executions, x.Stats.States, x.Stats.Truncated)
}

// Message passing through an atomic flag: the flag orders the data accesses (no race), both
// values of the flag are observed, and the same program with a plain flag races. A Pool hands the
// same object out again (LIFO) and starts empty in every execution.
func TestLitmusAtomicPoolMap(t *testing.T) {
	var so SyncObj
	mp := func(out *[]string) {
		data, flag := 0, false
		done := MakeChan[int](0, "done")
		Go("w", func() {
			*W(&data, "w:data") = 1
			so.Op("store")
			flag = true
			Close(done, "c")
		})
		so.Op("load")
		if flag {
			*out = append(*out, fmt.Sprint("seen ", *R(&data, "r:data")))
		} else {
			*out = append(*out, "unseen")
		}
		Recv(done, "r")
	}
	got, _ := outcomes(t, 2, false, Config{Race: true}, mp)
	expect(t, "atomic message passing", got, "seen 1", "unseen")
	plain := func(out *[]string) {
		data, flag := 0, false
		done := MakeChan[int](0, "done")
		Go("w", func() {
			*W(&data, "w:data") = 1
			Yield("store")
			flag = true
			Close(done, "c")
		})
		Yield("load")
		if flag {
			_ = *R(&data, "r:data")
			*out = append(*out, "seen")
		}
		Recv(done, "r")
	}
	got, _ = outcomes(t, 2, false, Config{Race: true}, plain)
	expect(t, "plain flag", got, "", "seen,RACE")
	var pool Pool
	pool.New = func() any { return new(int) }
	pl := func(out *[]string) {
		a := pool.Get().(*int)
		*a = 7
		pool.Put(a)
		b := pool.Get().(*int)
		c := pool.Get().(*int)
		*out = append(*out, fmt.Sprint(a == b, *b, a == c, *c))
		pool.Put(c)
	}
	got, _ = outcomes(t, 1, false, Config{}, pl)
	expect(t, "pool", got, "true 7 false 0")
	var m Map
	mpr := func(out *[]string) {
		done := MakeChan[int](0, "done")
		Go("w", func() { m.Store("k", 1); Close(done, "c") })
		_, ok := m.Load("k")
		Recv(done, "r")
		*out = append(*out, fmt.Sprint(ok))
		m.Delete("k")
	}
	got, _ = outcomes(t, 2, false, Config{}, mpr)
	expect(t, "map", got, "false", "true")
}
