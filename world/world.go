// Package world is the closed environment around corebgp for one execution:
// virtual network, scripted remote BGP speakers, a recording plugin, the API
// driver helpers and the observation log the monitors read. DESIGN.md 3.5.
package world

import (
	"errors"
	"fmt"
	"io"
	"net"
	"net/netip"
	"os"
	"strings"
	"syscall"
	"time"

	"github.com/jwhited/corebgp"

	"corebgpverif/vnet"
	"corebgpverif/vrt"
	"corebgpverif/wire"
)

// Event is one entry of the observation log.
type Event struct {
	Seq     int
	T       int64
	G       string
	Kind    string // GetCapabilities OnOpenMessage OnEstablished OnClose Handler | api:<name> | rx | note
	Phase   string // enter exit | call return | ""
	Peer    string
	Session int // plugin session ordinal (per peer), 0 if n/a
	Conn    int // connection id, -1 if unknown
	Msg     *wire.Msg
	Data    []byte
	Text    string
	Err     string
}

func (ev Event) String() string {
	var sb strings.Builder
	fmt.Fprintf(&sb, "#%d t=%s %s %s", ev.Seq, time.Duration(ev.T), ev.G, ev.Kind)
	if ev.Phase != "" {
		sb.WriteString("." + ev.Phase)
	}
	if ev.Peer != "" {
		sb.WriteString(" peer=" + ev.Peer)
	}
	if ev.Session != 0 {
		fmt.Fprintf(&sb, " sess=%d", ev.Session)
	}
	if ev.Conn >= 0 {
		fmt.Fprintf(&sb, " conn=%d", ev.Conn)
	}
	if ev.Msg != nil {
		sb.WriteString(" " + ev.Msg.String())
	}
	if ev.Data != nil {
		if len(ev.Data) > 16 {
			fmt.Fprintf(&sb, " data=%x..(%d)", ev.Data[:16], len(ev.Data))
		} else {
			fmt.Fprintf(&sb, " data=%x", ev.Data)
		}
	}
	if ev.Text != "" {
		sb.WriteString(" " + ev.Text)
	}
	if ev.Err != "" {
		sb.WriteString(" err=" + ev.Err)
	}
	return sb.String()
}

// World is the environment of one execution.
type World struct {
	NW      *vnet.Network
	Log     []Event
	Server  *corebgp.Server
	LibAddr string
	Remotes []*Remote
	// ServeErr is the value returned by Serve; ServeDone whether it returned.
	ServeErr  error
	ServeDone bool
	flags     map[string]bool
}

// New creates the world (must be called from the main goroutine of an
// execution).
func New(libAddr string) *World {
	w := &World{LibAddr: libAddr, flags: map[string]bool{}}
	ResetSlowCallback()
	w.NW = vnet.New(libAddr)
	w.NW.SeqFn = func() int { return len(w.Log) }
	if e := vrt.Cur(); e != nil {
		e.World = w
	}
	return w
}

// Append adds an event to the observation log.
func (w *World) Append(ev Event) int {
	e := vrt.Cur()
	ev.Seq = len(w.Log)
	if e != nil {
		ev.T = e.Now()
		if g := e.Self(); g != nil {
			ev.G = g.Name()
		}
	}
	w.Log = append(w.Log, ev)
	vrt.LogTouch()
	return ev.Seq
}

// Note appends a free-text event.
func (w *World) Note(kind, text string) { w.Append(Event{Kind: kind, Text: text, Conn: -1}) }

// SetFlag sets a named flag (ordered through the observation log).
func (w *World) SetFlag(name string) {
	w.flags[name] = true
	w.Append(Event{Kind: "flag", Text: name, Conn: -1})
}

// Flag reports a flag (use inside WaitLog predicates).
func (w *World) Flag(name string) bool { return w.flags[name] }

// WaitFlag blocks until the flag is set.
func (w *World) WaitFlag(name string) {
	vrt.WaitLog("flag:"+name, func() bool { return w.flags[name] })
	vrt.LogTouch()
}

// Count returns the number of log events matching kind/phase (""=any) for peer (""=any).
func (w *World) Count(kind, phase, peer string) int {
	n := 0
	for _, ev := range w.Log {
		if ev.Kind == kind && (phase == "" || ev.Phase == phase) && (peer == "" || ev.Peer == peer) {
			n++
		}
	}
	return n
}

// WaitCount blocks until at least n matching events were logged.
func (w *World) WaitCount(kind, phase, peer string, n int) {
	vrt.WaitLog(fmt.Sprintf("count:%s.%s>=%d", kind, phase, n), func() bool { return w.Count(kind, phase, peer) >= n })
	vrt.LogTouch()
}

// NewServer creates the corebgp server with the world's router id.
func (w *World) NewServer(routerID string) *corebgp.Server {
	s, err := corebgp.NewServer(netip.MustParseAddr(routerID))
	if err != nil {
		panic(err)
	}
	w.Server = s
	return s
}

// ExtraPeerOptions are appended to the options of every AddPeer made through World.AddPeer (scenario twins
// that run a whole family under another configuration, props.optTwin).
var ExtraPeerOptions []corebgp.PeerOption

// AddPeer is Server.AddPeer with the twin's extra options appended.
func (w *World) AddPeer(cfg corebgp.PeerConfig, p corebgp.Plugin, opts ...corebgp.PeerOption) error {
	return w.Server.AddPeer(cfg, p, append(append([]corebgp.PeerOption{}, opts...), ExtraPeerOptions...)...)
}

// Serve starts Server.Serve on listeners bound to the given addresses in a
// world goroutine and logs its return.
func (w *World) Serve(addrs ...string) []*vnet.Listener {
	var ls []net.Listener
	var vls []*vnet.Listener
	for _, a := range addrs {
		l, err := w.NW.Listen(a)
		if err != nil {
			panic(err)
		}
		ls = append(ls, l)
		vls = append(vls, l)
	}
	s := w.Server
	vrt.GoWorld("serve", func() {
		w.Append(Event{Kind: "api:Serve", Phase: "call", Conn: -1})
		err := s.Serve(ls)
		w.ServeErr, w.ServeDone = err, true
		w.Append(Event{Kind: "api:Serve", Phase: "return", Conn: -1, Err: fmt.Sprint(err)})
	})
	return vls
}

// Close calls Server.Close and logs call/return.
func (w *World) Close() {
	w.Append(Event{Kind: "api:Close", Phase: "call", Conn: -1})
	w.Server.Close()
	w.Append(Event{Kind: "api:Close", Phase: "return", Conn: -1})
}

// DeletePeer calls Server.DeletePeer and logs call/return.
func (w *World) DeletePeer(ip string) error {
	w.Append(Event{Kind: "api:DeletePeer", Phase: "call", Peer: ip, Conn: -1})
	err := w.Server.DeletePeer(netip.MustParseAddr(ip))
	w.Append(Event{Kind: "api:DeletePeer", Phase: "return", Peer: ip, Conn: -1, Err: fmt.Sprint(err)})
	return err
}

// WaitServeDone blocks until Serve returned.
func (w *World) WaitServeDone() {
	vrt.WaitLog("serve-done", func() bool { return w.ServeDone })
	vrt.LogTouch()
}

// DialControl returns a dialer control function that logs every dial attempt
// of the peer (observation point of C11/C12).
func (w *World) DialControl(peer string) func(network, address string, c syscall.RawConn) error {
	return func(network, address string, c syscall.RawConn) error {
		w.Append(Event{Kind: "dial", Peer: peer, Text: address, Conn: -1})
		return nil
	}
}

// Remote is a scripted remote BGP speaker on one connection.
type Remote struct {
	W    *World
	C    *vnet.Conn
	Name string
	buf  []byte
	Rx   []wire.Msg
	// FrameErr is the first framing violation in what corebgp wrote.
	FrameErr error
	EOF      bool
	ReadErr  error
	Done     bool
	TimedOut bool
}

// Deadline makes subsequent reads fail once virtual time passes now+d (d<=0
// removes the deadline).
func (r *Remote) Deadline(d time.Duration) {
	r.TimedOut = false
	if d <= 0 {
		r.C.SetReadDeadline(time.Time{})
		return
	}
	r.C.SetReadDeadline(vrt.TimeNow().Add(d))
}

// NewRemote wraps the remote end of a connection.
func (w *World) NewRemote(c *vnet.Conn, name string) *Remote {
	r := &Remote{W: w, C: c, Name: name}
	w.Remotes = append(w.Remotes, r)
	return r
}

// Send writes raw bytes, optionally split into chunks.
func (r *Remote) Send(b []byte, chunks ...int) error {
	return r.C.WriteChunks(b, chunks...)
}

// ReadMsg returns the next well-formed message corebgp sent; io.EOF at end of
// stream. A framing violation is recorded in FrameErr and returned.
func (r *Remote) ReadMsg() (wire.Msg, error) {
	for {
		msgs, rest, err := wire.ParseStrict(r.buf)
		if len(msgs) > 0 {
			m := msgs[0]
			// consume exactly one message
			consumed := wire.HeaderLen + len(m.Body)
			r.buf = r.buf[consumed:]
			r.Rx = append(r.Rx, m)
			r.W.Append(Event{Kind: "rx", Peer: r.Name, Conn: r.C.ID, Msg: &m})
			return m, nil
		}
		_ = rest
		if err != nil {
			if r.FrameErr == nil {
				r.FrameErr = err
				r.W.Append(Event{Kind: "rx-frame-error", Peer: r.Name, Conn: r.C.ID, Err: err.Error()})
			}
			return wire.Msg{}, err
		}
		if r.EOF || r.ReadErr != nil {
			if r.ReadErr != nil {
				return wire.Msg{}, r.ReadErr
			}
			if len(r.buf) > 0 && r.FrameErr == nil {
				r.FrameErr = fmt.Errorf("stream ends inside a message (%d stray bytes)", len(r.buf))
				r.W.Append(Event{Kind: "rx-frame-error", Peer: r.Name, Conn: r.C.ID, Err: r.FrameErr.Error()})
			}
			return wire.Msg{}, io.EOF
		}
		tmp := make([]byte, 8192)
		n, rerr := r.C.Read(tmp)
		r.buf = append(r.buf, tmp[:n]...)
		if errors.Is(rerr, os.ErrDeadlineExceeded) {
			r.TimedOut = true
			r.W.Append(Event{Kind: "rx-timeout", Peer: r.Name, Conn: r.C.ID})
			return wire.Msg{}, rerr
		}
		if rerr == io.EOF {
			r.EOF = true
			r.W.Append(Event{Kind: "rx-eof", Peer: r.Name, Conn: r.C.ID})
		} else if rerr != nil {
			r.ReadErr = rerr
			r.W.Append(Event{Kind: "rx-error", Peer: r.Name, Conn: r.C.ID, Err: rerr.Error()})
		}
	}
}

// Expect reads one message and reports whether it has the given type.
func (r *Remote) Expect(typ byte) (wire.Msg, bool) {
	m, err := r.ReadMsg()
	return m, err == nil && m.Type == typ
}

// Drain reads until EOF or error and returns everything received from now on.
func (r *Remote) Drain() []wire.Msg {
	start := len(r.Rx)
	for {
		if _, err := r.ReadMsg(); err != nil {
			break
		}
	}
	return r.Rx[start:]
}

// Finish marks the script as done (observable through WaitLog).
func (r *Remote) Finish() {
	r.Done = true
	r.W.Append(Event{Kind: "remote-done", Peer: r.Name, Conn: r.C.ID})
}

// AllRemotesDone reports whether n remotes exist and all finished.
func (w *World) AllRemotesDone(n int) bool {
	if len(w.Remotes) < n {
		return false
	}
	for _, r := range w.Remotes {
		if !r.Done {
			return false
		}
	}
	return true
}
