package world

import (
	"encoding/binary"
	"net/netip"
	"time"

	"github.com/jwhited/corebgp"

	"corebgpverif/vrt"
)

// Plugin is the recording corebgp.Plugin of one peer.
type Plugin struct {
	W    *World
	Peer string
	// Caps is returned from GetCapabilities.
	Caps []corebgp.Capability
	// CapsHook runs at the start of the call-th GetCapabilities (from 1): a plugin that keeps one list and
	// edits it between connections.
	CapsHook func(p *Plugin, call int)
	capCalls int
	// OpenNotif, if set, decides the OnOpenMessage return value.
	OpenNotif func(rid netip.Addr, caps []corebgp.Capability) *corebgp.Notification
	// Marker makes OnEstablished write a marker UPDATE (body = "MARK" + session).
	Marker bool
	// OnEst runs inside OnEstablished after the marker.
	OnEst func(p *Plugin, session int, w corebgp.UpdateMessageWriter)
	// Handle decides the handler's return value; n counts UPDATEs of the session from 1.
	Handle func(p *Plugin, session, n int, b []byte) *corebgp.Notification
	// OnCloseFn runs inside OnClose (a plugin that joins its own goroutines there).
	OnCloseFn func(p *Plugin, session int)
	// NilHandler makes OnEstablished return a nil handler.
	NilHandler bool
	// NoYield suppresses the scheduling point inside callbacks.
	NoYield bool

	Sessions int
	Writers  []corebgp.UpdateMessageWriter
	// Delivered are the slices handed to the handler, with a copy taken at delivery.
	Delivered []Delivery
}

// Delivery is one handler invocation.
type Delivery struct {
	Session int
	Slice   []byte // the very slice corebgp passed
	Copy    []byte // its content at delivery time
}

// MarkerBody is the body of the marker UPDATE of a session.
func MarkerBody(session int) []byte {
	b := []byte("MARK")
	return binary.BigEndian.AppendUint32(b, uint32(session))
}

// IsMarker decodes a marker body.
func IsMarker(b []byte) (int, bool) {
	if len(b) == 8 && string(b[:4]) == "MARK" {
		return int(binary.BigEndian.Uint32(b[4:])), true
	}
	return 0, false
}

// SlowCallback, when Kind is set, makes the N-th invocation (counted over all plugins of the
// execution, from 1; 0 = every invocation) of that callback kind take D of virtual time: the cheap way
// to reach the states in which one FSM is far behind the other (scenario twins, props.slowTwin).
var SlowCallback struct {
	Kind string
	N    int
	D    time.Duration
	seen int
}

// ResetSlowCallback restarts the invocation count (start of an execution).
func ResetSlowCallback() { SlowCallback.seen = 0 }

func (p *Plugin) yield(site string) {
	if !p.NoYield {
		vrt.Yield(site)
	}
	if k := SlowCallback.Kind; k != "" && site == "plugin."+k {
		SlowCallback.seen++
		if SlowCallback.N == 0 || SlowCallback.N == SlowCallback.seen {
			vrt.Sleep(SlowCallback.D)
		}
	}
}

func (p *Plugin) GetCapabilities(c corebgp.PeerConfig) []corebgp.Capability {
	p.capCalls++
	if p.CapsHook != nil {
		p.CapsHook(p, p.capCalls)
	}
	p.W.Append(Event{Kind: "GetCapabilities", Phase: "enter", Peer: p.Peer, Conn: -1})
	p.yield("plugin.GetCapabilities")
	p.W.Append(Event{Kind: "GetCapabilities", Phase: "exit", Peer: p.Peer, Conn: -1})
	return p.Caps
}

func (p *Plugin) OnOpenMessage(c corebgp.PeerConfig, rid netip.Addr, caps []corebgp.Capability) *corebgp.Notification {
	var enc []byte
	for _, cp := range caps {
		enc = append(enc, cp.Code, byte(len(cp.Value)))
		enc = append(enc, cp.Value...)
	}
	p.W.Append(Event{Kind: "OnOpenMessage", Phase: "enter", Peer: p.Peer, Conn: -1, Text: rid.String(), Data: append([]byte{}, enc...)})
	p.yield("plugin.OnOpenMessage")
	var n *corebgp.Notification
	if p.OpenNotif != nil {
		n = p.OpenNotif(rid, caps)
	}
	p.W.Append(Event{Kind: "OnOpenMessage", Phase: "exit", Peer: p.Peer, Conn: -1})
	return n
}

func (p *Plugin) OnEstablished(c corebgp.PeerConfig, w corebgp.UpdateMessageWriter) corebgp.UpdateMessageHandler {
	p.Sessions++
	s := p.Sessions
	p.Writers = append(p.Writers, w)
	p.W.Append(Event{Kind: "OnEstablished", Phase: "enter", Peer: p.Peer, Session: s, Conn: -1})
	p.yield("plugin.OnEstablished")
	if p.Marker {
		err := w.WriteUpdate(MarkerBody(s))
		if err != nil {
			p.W.Append(Event{Kind: "marker-error", Peer: p.Peer, Session: s, Conn: -1, Err: err.Error()})
		}
	}
	if p.OnEst != nil {
		p.OnEst(p, s, w)
	}
	p.W.Append(Event{Kind: "OnEstablished", Phase: "exit", Peer: p.Peer, Session: s, Conn: -1})
	if p.NilHandler {
		return nil
	}
	n := 0
	return func(c corebgp.PeerConfig, b []byte) *corebgp.Notification {
		n++
		cp := append([]byte{}, b...)
		p.Delivered = append(p.Delivered, Delivery{Session: s, Slice: b, Copy: cp})
		p.W.Append(Event{Kind: "Handler", Phase: "enter", Peer: p.Peer, Session: s, Conn: -1, Data: cp})
		p.yield("plugin.Handler")
		var r *corebgp.Notification
		if p.Handle != nil {
			r = p.Handle(p, s, n, b)
		}
		p.W.Append(Event{Kind: "Handler", Phase: "exit", Peer: p.Peer, Session: s, Conn: -1, Data: cp})
		return r
	}
}

func (p *Plugin) OnClose(c corebgp.PeerConfig) {
	p.W.Append(Event{Kind: "OnClose", Phase: "enter", Peer: p.Peer, Session: p.Sessions, Conn: -1})
	p.yield("plugin.OnClose")
	if p.OnCloseFn != nil {
		p.OnCloseFn(p, p.Sessions)
	}
	p.W.Append(Event{Kind: "OnClose", Phase: "exit", Peer: p.Peer, Session: p.Sessions, Conn: -1})
}
