#!/bin/sh
# Build the framework from files on disk only (offline).
set -e
cd "$(dirname "$0")"
export GOFLAGS=-mod=mod GOPROXY=off GOSUMDB=off GOTOOLCHAIN=local
mkdir -p bin .work evidence
go build -o bin/vcheck ./cmd/vcheck
