#!/bin/sh
# Build the framework from files on disk only (offline), and warm the build
# cache by building the worker for the current /repo tree.
set -e
cd "$(dirname "$0")"
export GOFLAGS=-mod=mod GOPROXY=off GOSUMDB=off GOTOOLCHAIN=local
mkdir -p bin .work evidence replays
go build -o bin/vinstr ./cmd/vinstr
go build -o bin/vcheck ./cmd/vcheck
./bin/vcheck build
