module corebgpverif

go 1.23

require (
	github.com/jwhited/corebgp v0.0.0-00010101000000-000000000000
	golang.org/x/tools v0.29.0
)

require (
	github.com/anishathalye/porcupine v1.3.0
	golang.org/x/mod v0.22.0 // indirect
	golang.org/x/sync v0.10.0 // indirect
	golang.org/x/sys v0.29.0 // indirect
)

replace github.com/jwhited/corebgp => /repo
