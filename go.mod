module corebgpverif

go 1.23

require (
	github.com/jwhited/corebgp v0.0.0
	golang.org/x/tools v0.29.0
	github.com/anishathalye/porcupine v1.3.0
)

replace github.com/jwhited/corebgp => /repo
