// Package harness is the glue shared by all property checks: shard context,
// counters, known-findings matching, replay files.
package harness

import (
	"crypto/sha256"
	"encoding/hex"
	"encoding/json"
	"fmt"
	"os"
	"path/filepath"
	"sort"
	"sync"
	"time"
)

// Root is the /verif directory.
var Root = "/verif"

// Finding is an entry of known_findings.json.
type Finding struct {
	Status   string `json:"status"` // known | fixed
	Property string `json:"property"`
	ID       string `json:"id"`
	Sig      string `json:"sig"`
	Commit   string `json:"commit,omitempty"`
	What     string `json:"what"`
}

// LoadFindings reads known_findings.json.
func LoadFindings() []Finding {
	b, err := os.ReadFile(filepath.Join(Root, "known_findings.json"))
	if err != nil {
		return nil
	}
	var f []Finding
	if err := json.Unmarshal(b, &f); err != nil {
		fmt.Fprintln(os.Stderr, "ENGINE-ERROR known_findings.json:", err)
		os.Exit(3)
	}
	return f
}

// ViolationRec is a violation found by a shard.
type ViolationRec struct {
	Property string `json:"property"`
	Rule     string `json:"rule"`
	Message  string `json:"message"`
	Sig      string `json:"sig"`
	Replay   string `json:"replay"`
}

// ShardResult is what one worker process reports.
type ShardResult struct {
	Property           string         `json:"property"`
	Shard              int            `json:"shard"`
	Of                 int            `json:"of"`
	Evaluations        int64          `json:"evaluations"`
	DistinctNontrivial int64          `json:"distinct_nontrivial"`
	States             int64          `json:"states"`
	Transitions        int64          `json:"transitions"`
	Executions         int64          `json:"executions"`
	Scenarios          int64          `json:"scenarios"`
	TracesValidated    int64          `json:"traces_validated_against_impl"`
	CapHits            int64          `json:"cap_hits"`
	Outcomes           int64          `json:"distinct_outcomes"`
	Exhaustive         bool           `json:"exhaustive"`
	Samples            []any          `json:"samples"`
	Violations         []ViolationRec `json:"violations"`
	Known              map[string]int `json:"known"`
	Notes              []string       `json:"notes"`
	Extra              map[string]any `json:"extra"`
	WallS              float64        `json:"wall_s"`
}

// Ctx is the context of one shard of one check.
type Ctx struct {
	Property string
	Tier     string
	Shard    int
	Of       int
	Seed     int64
	Deadline time.Time
	Res      *ShardResult
	findings []Finding
	mu       sync.Mutex
	seen     map[uint64]struct{}
	maxViol  int
}

// NewCtx creates a shard context.
func NewCtx(prop, tier string, shard, of int, seed int64, budget time.Duration) *Ctx {
	c := &Ctx{Property: prop, Tier: tier, Shard: shard, Of: of, Seed: seed, findings: LoadFindings(), seen: map[uint64]struct{}{}, maxViol: 5}
	if budget > 0 {
		c.Deadline = time.Now().Add(budget)
	}
	c.Res = &ShardResult{Property: prop, Shard: shard, Of: of, Exhaustive: true, Known: map[string]int{}, Extra: map[string]any{}}
	return c
}

// Thorough reports whether the thorough tier runs.
func (c *Ctx) Thorough() bool { return c.Tier == "thorough" }

// Mine reports whether work item i belongs to this shard.
func (c *Ctx) Mine(i int) bool { return c.Of <= 1 || i%c.Of == c.Shard }

// Expired reports whether the internal time budget is used up; the caller
// stops between units of work and the run is reported as non-exhaustive.
func (c *Ctx) Expired() bool {
	if c.Deadline.IsZero() || time.Now().Before(c.Deadline) {
		return false
	}
	c.Res.Exhaustive = false
	return true
}

// Eval counts one evaluated case; key identifies it for distinctness and
// nontrivial says whether it counts as non-trivial by the check's rule.
func (c *Ctx) Eval(key []byte, nontrivial bool) {
	c.Res.Evaluations++
	if !nontrivial {
		return
	}
	// 64-bit FNV-1a keeps the distinctness set small (collisions are negligible
	// below ~10^8 keys and could only make the count smaller)
	var h uint64 = 14695981039346656037
	for _, b := range key {
		h ^= uint64(b)
		h *= 1099511628211
	}
	if _, ok := c.seen[h]; !ok {
		c.seen[h] = struct{}{}
		c.Res.DistinctNontrivial++
	}
}

// Sample records an example case (at most 6 per shard).
func (c *Ctx) Sample(s any) {
	if len(c.Res.Samples) < 6 {
		c.Res.Samples = append(c.Res.Samples, s)
	}
}

// Note adds a free-text note to the evidence.
func (c *Ctx) Note(f string, a ...any) { c.Res.Notes = append(c.Res.Notes, fmt.Sprintf(f, a...)) }

// KnownID returns the id of the known finding matching sig ("" if none).
func (c *Ctx) KnownID(sig string) string {
	for _, f := range c.findings {
		if f.Status == "known" && f.Property == c.Property && f.Sig == sig {
			return f.ID
		}
	}
	return ""
}

// Violation reports a violation with signature sig. It returns true if the
// violation is a known finding (the caller keeps checking everything else).
// replay is the content of the replay file.
func (c *Ctx) Violation(rule, sig, msg string, replay any) bool {
	if id := c.KnownID(sig); id != "" {
		c.Res.Known[id]++
		return true
	}
	if len(c.Res.Violations) >= c.maxViol {
		return false
	}
	for _, v := range c.Res.Violations {
		if v.Sig == sig {
			return false
		}
	}
	b, _ := json.MarshalIndent(map[string]any{"property": c.Property, "tier": c.Tier, "rule": rule, "sig": sig, "message": msg, "replay": replay}, "", " ")
	h := sha256.Sum256(b)
	dir := filepath.Join(Root, "replays")
	os.MkdirAll(dir, 0o755)
	path := filepath.Join(dir, fmt.Sprintf("%s-%s.json", c.Property, hex.EncodeToString(h[:6])))
	os.WriteFile(path, b, 0o644)
	c.Res.Violations = append(c.Res.Violations, ViolationRec{Property: c.Property, Rule: rule, Message: msg, Sig: sig, Replay: path})
	return false
}

// Failed reports whether an unknown violation was recorded.
func (c *Ctx) Failed() bool { return len(c.Res.Violations) > 0 }

// Check is a registered property check.
type Check struct {
	Property  string
	Level     string // evidence level: exploration | model_checking
	Rule      string // how cases are enumerated / what is non-trivial
	Assume    []string
	Run       func(c *Ctx)
	Replay    func(c *Ctx, replay json.RawMessage) // re-run a recorded case
	NeedsConc bool                                 // needs the rewritten (concurrency-instrumented) package
	Shards    int                                  // worker processes (default 16)
	QuickS    int                                  // internal budget per shard, seconds
	ThoroughS int
}

var registry = map[string]*Check{}

// Register adds a check.
func Register(ch *Check) { registry[ch.Property] = ch }

// Lookup finds a check.
func Lookup(p string) *Check { return registry[p] }

// Properties lists registered checks.
func Properties() []string {
	var r []string
	for k := range registry {
		r = append(r, k)
	}
	sort.Strings(r)
	return r
}
