// Package vnet is an in-memory TCP-like network on top of vrt: listeners,
// connections made of two byte queues, scripted dial outcomes. Assumptions
// (DESIGN.md A3): writes never block and are atomic, delivery is FIFO and
// loss-free until reset, data written before Close is delivered before EOF.
package vnet

import (
	"context"
	"errors"
	"fmt"
	"io"
	"net"
	"os"
	"strconv"
	"syscall"
	"time"

	"corebgpverif/vrt"
)

// DialKind is the scripted outcome of a dial attempt by the library.
type DialKind int

const (
	DialAccept DialKind = iota
	DialRefuse
	DialStall // never completes; returns when the context is cancelled
)

// DialOutcome scripts one dial attempt.
type DialOutcome struct {
	Kind  DialKind
	Delay time.Duration // virtual time before Accept/Refuse takes effect
	// Serve is run in a new world goroutine with the remote end of an
	// accepted connection.
	Serve func(c *Conn)
	// OnCancel is called when a stalled or delayed dial ends by cancellation.
	OnCancel func()
}

// DialAttempt is a logged dial attempt made by the library.
type DialAttempt struct {
	T      int64
	To     string
	From   string
	Result string
	G      string
}

// Network is the virtual network of one execution.
type Network struct {
	LibHost  string // source IP of library dials without LocalAddr
	Coalesce bool   // a Read may return bytes of several writes
	// Window, if > 0, bounds the unread bytes queued in each direction of a connection
	// (socket buffers + peer window): a Write blocks while the window is full, and returns
	// a short count with a timeout error when a write deadline passes (back-pressure).
	Window    int
	listeners map[string]*Listener
	handlers  map[string]func(attempt int, from *net.TCPAddr) DialOutcome
	attempts  map[string]int
	Opaque    bool // connections reach the library wrapped in a plain net.Conn
	Conns     []*Conn
	Dials     []DialAttempt
	eph       int
	obj       *vrt.Obj
	// SeqFn, if set, returns the current length of the world's observation log.
	SeqFn func() int
}

var current *Network

// New creates the network of the current execution.
// OpaqueDefault makes every network created while it is set hand the library its connections wrapped in a
// plain net.Conn (scenario twins "@opaque"): what a library gets from a listener or dialer that is not the
// operating system's - a type assertion to *net.TCPConn fails, net.Buffers degrades to one Write per buffer.
var OpaqueDefault bool

// opaqueConn hides the concrete type (and every method beyond net.Conn's) of a virtual connection.
type opaqueConn struct{ net.Conn }

func New(libHost string) *Network {
	nw := &Network{Opaque: OpaqueDefault, LibHost: libHost, listeners: map[string]*Listener{}, handlers: map[string]func(int, *net.TCPAddr) DialOutcome{}, attempts: map[string]int{}, eph: 40000}
	nw.obj = vrt.NewObj("network")
	nw.obj.NoSync = true
	current = nw
	return nw
}

// Current returns the network of the active execution.
func Current() *Network { return current }

// Reset drops the current network (between executions).
func Reset() { current = nil }

// OnDial registers the handler deciding library dials to addr ("ip:port").
func (nw *Network) OnDial(addr string, h func(attempt int, from *net.TCPAddr) DialOutcome) {
	nw.handlers[addr] = h
}

func tcpAddr(s string) *net.TCPAddr {
	h, p, err := net.SplitHostPort(s)
	if err != nil {
		panic("vnet: bad address " + s)
	}
	port, _ := strconv.Atoi(p)
	return &net.TCPAddr{IP: ip4(net.ParseIP(h)), Port: port}
}

// ip4 returns an IPv4 address in its 4-byte form, as the addresses of a real AF_INET connection are
// (so that (*net.TCPAddr).AddrPort() yields a plain IPv4 address, not an IPv4-mapped one).
func ip4(ip net.IP) net.IP {
	if v4 := ip.To4(); v4 != nil {
		return v4
	}
	return ip
}

// mapped returns a copy of a with an IPv4 address in its 16-byte form: the addresses of an IPv4 connection
// accepted on a dual-stack (AF_INET6) wildcard listener are IPv4-mapped; String() prints them dotted all the
// same, AddrPort() does not.
func mapped(a *net.TCPAddr) *net.TCPAddr {
	return &net.TCPAddr{IP: a.IP.To16(), Port: a.Port, Zone: a.Zone}
}

// Conn is one endpoint of a virtual TCP connection.
type Conn struct {
	nw      *Network
	ID      int // connection number (both endpoints share it)
	Lib     bool
	peer    *Conn
	local   *net.TCPAddr
	remote  *net.TCPAddr
	obj     *vrt.Obj
	in      [][]byte
	inEOF   bool
	rst     bool
	closed  bool
	Inbound bool // connection was initiated by the remote (towards the library)
	// Sent is every byte successfully written on this endpoint, Chunks the
	// same as individual writes.
	Sent   []byte
	Chunks []Chunk
	// Opened is the virtual creation time; ClosedAt the time of local Close (-1 = open)
	Opened   int64
	ClosedAt int64
	// Accepted is set when a library Accept returned this endpoint.
	Accepted bool
	rdl      int64 // virtual read deadline (noDeadline = none)
	wdl      int64 // virtual write deadline (noDeadline = none)
	writing  bool  // a Write is in progress (concurrent Writes are serialised, as on *net.TCPConn)
	// RstCutAt is len(Sent) at the last Write that failed because the peer had reset / gone away
	// (-1 = never): a message of which only a part was written before that is cut by the environment.
	RstCutAt int
	wclosed  bool // CloseWrite was called
	linger0  bool // SetLinger(0): Close aborts the connection
}

// Chunk is one logged write.
type Chunk struct {
	T   int64
	G   string
	B   []byte
	Seq int // length of the world's observation log when the write happened
}

func (nw *Network) pair(libLocal, libRemote *net.TCPAddr, inbound bool) (lib, rem *Conn) {
	id := len(nw.Conns) / 2
	now := vrt.Cur().Now()
	lib = &Conn{nw: nw, ID: id, Lib: true, local: libLocal, remote: libRemote, Inbound: inbound, Opened: now, ClosedAt: -1, rdl: noDeadline, wdl: noDeadline, RstCutAt: -1}
	rem = &Conn{nw: nw, ID: id, Lib: false, local: libRemote, remote: libLocal, Inbound: inbound, Opened: now, ClosedAt: -1, rdl: noDeadline, wdl: noDeadline, RstCutAt: -1}
	lib.peer, rem.peer = rem, lib
	lib.obj = vrt.NewObj("conn-lib")
	rem.obj = vrt.NewObj("conn-rem")
	lib.obj.NoSync, rem.obj.NoSync = true, true
	nw.Conns = append(nw.Conns, lib, rem)
	return
}

// noDeadline marks an unset deadline (0 is a legitimate deadline: virtual time starts there).
const noDeadline = int64(-1) << 62

// Peer returns the other endpoint.
func (c *Conn) Peer() *Conn { return c.peer }

func (c *Conn) String() string {
	side := "rem"
	if c.Lib {
		side = "lib"
	}
	dir := "out"
	if c.Inbound {
		dir = "in"
	}
	return fmt.Sprintf("conn%d/%s/%s", c.ID, dir, side)
}

// IsClosed reports whether this endpoint was closed locally.
func (c *Conn) IsClosed() bool { return c.closed }

// IsReset reports whether the connection was reset.
func (c *Conn) IsReset() bool { return c.rst }

// PeerClosed reports whether the other endpoint closed (or half-closed).
func (c *Conn) PeerClosed() bool { return c.inEOF }

// Pending returns the number of unread bytes queued for this endpoint.
func (c *Conn) Pending() int {
	n := 0
	for _, b := range c.in {
		n += len(b)
	}
	return n
}

func (c *Conn) Read(p []byte) (int, error) {
	if c.Lib && c.rdl != noDeadline && vrt.Cur().Now() >= c.rdl && !c.closed {
		// Go's poller refuses the operation once the deadline has passed, data or no data
		vrt.Wait("net.Conn.Read", "net-read", nil, false, c.obj)
		return 0, &net.OpError{Op: "read", Net: "tcp", Source: c.local, Addr: c.remote, Err: os.ErrDeadlineExceeded}
	}
	vrt.Wait("net.Conn.Read", "net-read", func() bool {
		return len(c.in) > 0 || c.inEOF || c.rst || c.closed || (c.rdl != noDeadline && vrt.Cur().Now() >= c.rdl)
	}, false, c.obj)
	if c.rdl != noDeadline && vrt.Cur().Now() >= c.rdl && len(c.in) == 0 && !c.inEOF && !c.rst && !c.closed {
		return 0, &net.OpError{Op: "read", Net: "tcp", Source: c.local, Addr: c.remote, Err: os.ErrDeadlineExceeded}
	}
	if c.closed {
		return 0, &net.OpError{Op: "read", Net: "tcp", Source: c.local, Addr: c.remote, Err: net.ErrClosed}
	}
	if len(p) == 0 {
		return 0, nil
	}
	if len(c.in) > 0 {
		n := 0
		for len(c.in) > 0 && n < len(p) {
			k := copy(p[n:], c.in[0])
			n += k
			if k == len(c.in[0]) {
				c.in = c.in[1:]
			} else {
				c.in[0] = c.in[0][k:]
			}
			if !c.nw.Coalesce {
				break
			}
		}
		return n, nil
	}
	if c.rst {
		return 0, &net.OpError{Op: "read", Net: "tcp", Source: c.local, Addr: c.remote, Err: syscall.ECONNRESET}
	}
	return 0, io.EOF
}

func (c *Conn) Write(p []byte) (int, error) {
	win := c.nw.Window
	if win <= 0 {
		return c.writeUnbounded(p)
	}
	now := func() int64 { return vrt.Cur().Now() }
	space := func() int { return win - c.peer.Pending() }
	expired := func() bool { return c.wdl != noDeadline && now() >= c.wdl }
	// one Write at a time per connection
	vrt.Wait("net.Conn.Write", "net-write-lock", func() bool { return !c.writing || c.closed || c.rst }, false, c.obj)
	if c.closed {
		c.noteCut()
		return 0, &net.OpError{Op: "write", Net: "tcp", Source: c.local, Addr: c.remote, Err: net.ErrClosed}
	}
	if c.wclosed {
		return 0, &net.OpError{Op: "write", Net: "tcp", Source: c.local, Addr: c.remote, Err: syscall.EPIPE}
	}
	c.writing = true
	defer func() { c.writing = false }()
	if expired() {
		return 0, &net.OpError{Op: "write", Net: "tcp", Source: c.local, Addr: c.remote, Err: os.ErrDeadlineExceeded}
	}
	written := 0
	for {
		vrt.Wait("net.Conn.Write", "net-write", func() bool {
			return c.closed || c.rst || c.peer.closed || space() > 0 || expired()
		}, false, c.obj, c.peer.obj)
		switch {
		case c.closed:
			c.noteCut()
			return written, &net.OpError{Op: "write", Net: "tcp", Source: c.local, Addr: c.remote, Err: net.ErrClosed}
		case c.rst:
			c.RstCutAt = len(c.Sent)
			return written, &net.OpError{Op: "write", Net: "tcp", Source: c.local, Addr: c.remote, Err: syscall.EPIPE}
		}
		n := len(p) - written
		if !c.peer.closed {
			if s := space(); s <= 0 {
				// deadline passed with the window still full
				return written, &net.OpError{Op: "write", Net: "tcp", Source: c.local, Addr: c.remote, Err: os.ErrDeadlineExceeded}
			} else if n > s {
				n = s
			}
		}
		b := append([]byte(nil), p[written:written+n]...)
		c.Sent = append(c.Sent, b...)
		seq := 0
		if c.nw.SeqFn != nil {
			seq = c.nw.SeqFn()
		}
		c.Chunks = append(c.Chunks, Chunk{T: now(), G: vrt.Cur().Self().Name(), B: b, Seq: seq})
		if c.peer.closed {
			c.rst = true
			return len(p), nil
		}
		if len(b) > 0 {
			c.peer.in = append(c.peer.in, b)
		}
		written += n
		if written == len(p) {
			return written, nil
		}
	}
}

// noteCut records a write refused on a locally closed endpoint whose peer had already reset the connection
// or gone away: like a write failing with EPIPE, it ends what the peer could ever have received.
func (c *Conn) noteCut() {
	if c.rst || c.peer.closed {
		c.RstCutAt = len(c.Sent)
	}
}

func (c *Conn) writeUnbounded(p []byte) (int, error) {
	vrt.Wait("net.Conn.Write", "net-write", nil, false, c.obj, c.peer.obj)
	if c.closed {
		c.noteCut()
		return 0, &net.OpError{Op: "write", Net: "tcp", Source: c.local, Addr: c.remote, Err: net.ErrClosed}
	}
	if c.wclosed {
		return 0, &net.OpError{Op: "write", Net: "tcp", Source: c.local, Addr: c.remote, Err: syscall.EPIPE}
	}
	if c.wdl != noDeadline && vrt.Cur().Now() >= c.wdl {
		// a write deadline that has already passed fails the write before a single octet is sent
		return 0, &net.OpError{Op: "write", Net: "tcp", Source: c.local, Addr: c.remote, Err: os.ErrDeadlineExceeded}
	}
	if c.rst {
		c.RstCutAt = len(c.Sent)
		return 0, &net.OpError{Op: "write", Net: "tcp", Source: c.local, Addr: c.remote, Err: syscall.EPIPE}
	}
	b := append([]byte(nil), p...)
	c.Sent = append(c.Sent, b...)
	seq := 0
	if c.nw.SeqFn != nil {
		seq = c.nw.SeqFn()
	}
	c.Chunks = append(c.Chunks, Chunk{T: vrt.Cur().Now(), G: vrt.Cur().Self().Name(), B: b, Seq: seq})
	if c.peer.closed {
		// the remote kernel answers with RST: this write succeeded, later
		// operations fail
		c.rst = true
		return len(p), nil
	}
	if len(b) > 0 {
		c.peer.in = append(c.peer.in, b)
	}
	return len(p), nil
}

// WriteChunks writes b in pieces of the given sizes (the last size repeats).
func (c *Conn) WriteChunks(b []byte, sizes ...int) error {
	if len(sizes) == 0 {
		_, err := c.Write(b)
		return err
	}
	i := 0
	for len(b) > 0 {
		n := sizes[i]
		if i < len(sizes)-1 {
			i++
		}
		if n <= 0 || n > len(b) {
			n = len(b)
		}
		if _, err := c.Write(b[:n]); err != nil {
			return err
		}
		b = b[n:]
	}
	return nil
}

func (c *Conn) Close() error {
	vrt.Wait("net.Conn.Close", "net-close", nil, false, c.obj, c.peer.obj)
	if c.closed {
		return &net.OpError{Op: "close", Net: "tcp", Source: c.local, Addr: c.remote, Err: net.ErrClosed}
	}
	c.closed = true
	c.ClosedAt = vrt.Cur().Now()
	c.peer.inEOF = true
	if c.linger0 {
		// SO_LINGER 0: unsent and unread data is dropped and the peer gets a reset
		c.rst, c.peer.rst = true, true
		c.in, c.peer.in = nil, nil
	}
	return nil
}

// CloseWrite half-closes: the peer sees EOF after the data already written.
func (c *Conn) CloseWrite() error {
	vrt.Wait("net.Conn.CloseWrite", "net-closewrite", nil, false, c.obj, c.peer.obj)
	if c.closed {
		return &net.OpError{Op: "close", Net: "tcp", Source: c.local, Addr: c.remote, Err: net.ErrClosed}
	}
	c.peer.inEOF = true
	c.wclosed = true
	return nil
}

// The rest of *net.TCPConn's method set: the net shim aliases TCPConn to Conn, so that a library which
// asserts its net.Conn to *net.TCPConn takes, on the virtual network, the branch it takes on a real one.

// CloseRead shuts down the reading side: pending and later input is discarded, Read reports EOF.
func (c *Conn) CloseRead() error {
	vrt.Wait("net.Conn.CloseRead", "net-closeread", nil, false, c.obj, c.peer.obj)
	if c.closed {
		return &net.OpError{Op: "close", Net: "tcp", Source: c.local, Addr: c.remote, Err: net.ErrClosed}
	}
	c.in, c.inEOF = nil, true
	return nil
}
func (c *Conn) SetLinger(sec int) error                      { c.linger0 = sec == 0; return nil }
func (c *Conn) SetKeepAlive(bool) error                      { return nil }
func (c *Conn) SetKeepAlivePeriod(time.Duration) error       { return nil }
func (c *Conn) SetKeepAliveConfig(net.KeepAliveConfig) error { return nil }
func (c *Conn) SetNoDelay(bool) error                        { return nil }
func (c *Conn) SetReadBuffer(int) error                      { return nil }
func (c *Conn) SetWriteBuffer(int) error                     { return nil }
func (c *Conn) MultipathTCP() (bool, error)                  { return false, nil }
func (c *Conn) File() (*os.File, error) {
	return nil, errors.New("vnet: a virtual connection has no file")
}
func (c *Conn) SyscallConn() (syscall.RawConn, error) {
	return nil, errors.New("vnet: a virtual connection has no descriptor")
}

// ReadFrom and WriteTo are the generic copy loops (no splice/sendfile on a virtual connection).
func (c *Conn) ReadFrom(r io.Reader) (n int64, err error) {
	buf := make([]byte, 32*1024)
	for {
		k, rerr := r.Read(buf)
		if k > 0 {
			w, werr := c.Write(buf[:k])
			n += int64(w)
			if werr != nil {
				return n, werr
			}
		}
		if rerr == io.EOF {
			return n, nil
		}
		if rerr != nil {
			return n, rerr
		}
	}
}

func (c *Conn) WriteTo(w io.Writer) (n int64, err error) {
	buf := make([]byte, 32*1024)
	for {
		k, rerr := c.Read(buf)
		if k > 0 {
			m, werr := w.Write(buf[:k])
			n += int64(m)
			if werr != nil {
				return n, werr
			}
		}
		if rerr == io.EOF {
			return n, nil
		}
		if rerr != nil {
			return n, rerr
		}
	}
}

// Reset aborts the connection: unread data is dropped, both directions fail.
func (c *Conn) Reset() {
	vrt.Wait("net.Conn.Reset", "net-reset", nil, false, c.obj, c.peer.obj)
	c.rst, c.peer.rst = true, true
	c.closed = true
	c.ClosedAt = vrt.Cur().Now()
	c.in, c.peer.in = nil, nil
}

func (c *Conn) LocalAddr() net.Addr  { return c.local }
func (c *Conn) RemoteAddr() net.Addr { return c.remote }
func (c *Conn) SetDeadline(t time.Time) error {
	c.SetReadDeadline(t)
	return c.SetWriteDeadline(t)
}

// SetReadDeadline sets a virtual read deadline (zero = none).
func (c *Conn) SetReadDeadline(t time.Time) error {
	if t.IsZero() {
		c.rdl = noDeadline
		return nil
	}
	c.rdl = int64(t.Sub(vrt.Epoch))
	if d := c.rdl - vrt.Cur().Now(); d > 0 {
		vrt.NewTimer(time.Duration(d)) // makes the clock advance to the deadline
	}
	return nil
}

// SetWriteDeadline sets a virtual write deadline (zero = none). A write that starts at or after the
// deadline fails at once; with a Window a blocked write is released at the deadline with a short count.
func (c *Conn) SetWriteDeadline(t time.Time) error {
	if t.IsZero() {
		c.wdl = noDeadline
		return nil
	}
	c.wdl = int64(t.Sub(vrt.Epoch))
	if d := c.wdl - vrt.Cur().Now(); d > 0 {
		vrt.NewTimer(time.Duration(d))
	}
	return nil
}

// Listener is a virtual TCP listener.
type Listener struct {
	nw     *Network
	addr   *net.TCPAddr
	key    string
	queue  []*Conn
	closed bool
	dual   bool
	obj    *vrt.Obj
}

// Listen creates a listener on addr ("ip:port"; ":port" or "0.0.0.0:port" is a wildcard).
func (nw *Network) Listen(addr string) (*Listener, error) {
	a := tcpAddr(addr)
	key := addr
	if a.IP == nil || a.IP.IsUnspecified() {
		key = ":" + strconv.Itoa(a.Port)
	}
	if l, ok := nw.listeners[key]; ok && !l.closed {
		return nil, &net.OpError{Op: "listen", Net: "tcp", Addr: a, Err: syscall.EADDRINUSE}
	}
	l := &Listener{nw: nw, addr: a, key: key}
	if h, _, _ := net.SplitHostPort(addr); h == "" || h == "::" {
		l.dual = true // ":port" / "[::]:port" listens on an AF_INET6 socket that also takes IPv4 connections
	}
	l.obj = vrt.NewObj("listener")
	l.obj.NoSync = true
	nw.listeners[key] = l
	return l, nil
}

func (l *Listener) Accept() (net.Conn, error) {
	vrt.Wait("net.Listener.Accept", "net-accept", func() bool { return len(l.queue) > 0 || l.closed }, false, l.obj)
	if l.closed {
		return nil, &net.OpError{Op: "accept", Net: "tcp", Addr: l.addr, Err: net.ErrClosed}
	}
	c := l.queue[0]
	l.queue = l.queue[1:]
	c.Accepted = true
	if l.nw.Opaque {
		return opaqueConn{c}, nil
	}
	return c, nil
}

func (l *Listener) Close() error {
	vrt.Wait("net.Listener.Close", "net-lclose", nil, false, l.obj)
	if l.closed {
		return &net.OpError{Op: "close", Net: "tcp", Addr: l.addr, Err: net.ErrClosed}
	}
	l.closed = true
	// connections never accepted are reset by the kernel
	for _, c := range l.queue {
		c.rst, c.peer.rst = true, true
		c.in, c.peer.in = nil, nil
	}
	l.queue = nil
	return nil
}

func (l *Listener) Addr() net.Addr { return l.addr }

// QueueLen returns the number of connections waiting to be accepted.
func (l *Listener) QueueLen() int { return len(l.queue) }

// DialIn is used by the world: a remote speaker at from ("ip:port") connects
// to the library listener covering to ("ip:port"). It returns the remote end.
func (nw *Network) DialIn(from, to string) (*Conn, error) {
	ta := tcpAddr(to)
	l := nw.listeners[to]
	if l == nil || l.closed {
		l = nw.listeners[":"+strconv.Itoa(ta.Port)]
	}
	vrt.Wait("vnet.DialIn", "net-dialin", nil, false, nw.obj)
	if l == nil || l.closed {
		return nil, &net.OpError{Op: "dial", Net: "tcp", Addr: ta, Err: syscall.ECONNREFUSED}
	}
	fa := tcpAddr(from)
	lib, rem := nw.pair(ta, fa, true)
	if l.dual {
		lib.local, lib.remote = mapped(ta), mapped(fa)
	}
	vrt.Touch("vnet.DialIn", false, l.obj)
	l.queue = append(l.queue, lib)
	return rem, nil
}

// Dial is called by the net shim for library dials.
func (nw *Network) Dial(ctx context.Context, local net.Addr, address string, control func(network, address string, c syscall.RawConn) error) (net.Conn, error) {
	// what net.Dialer does with an address it cannot parse, a non-numeric host or a port out of range:
	// an error, before any connection attempt (and before Control runs)
	if h, p, err := net.SplitHostPort(address); err != nil {
		return nil, &net.OpError{Op: "dial", Net: "tcp", Err: err}
	} else if net.ParseIP(h) == nil {
		return nil, &net.OpError{Op: "dial", Net: "tcp", Err: &net.DNSError{Err: "no such host", Name: h, IsNotFound: true}}
	} else if n, err := strconv.Atoi(p); err != nil || n < 0 || n > 65535 {
		return nil, &net.OpError{Op: "dial", Net: "tcp", Err: &net.AddrError{Err: "invalid port", Addr: p}}
	}
	ra := tcpAddr(address)
	var la *net.TCPAddr
	if t, ok := local.(*net.TCPAddr); ok && t != nil {
		la = &net.TCPAddr{IP: ip4(t.IP), Port: t.Port}
	} else {
		la = &net.TCPAddr{IP: ip4(net.ParseIP(nw.LibHost))}
	}
	vrt.Wait("net.Dialer.DialContext", "net-dial", nil, false, nw.obj)
	if la.Port == 0 {
		nw.eph++
		la.Port = nw.eph
	}
	e := vrt.Cur()
	att := DialAttempt{T: e.Now(), To: address, From: la.String(), G: e.Self().Name()}
	idx := len(nw.Dials)
	nw.Dials = append(nw.Dials, att)
	setResult := func(s string) { nw.Dials[idx].Result = s }
	if control != nil {
		network := "tcp4"
		if ra.IP.To4() == nil {
			network = "tcp6"
		}
		if err := control(network, address, nil); err != nil {
			setResult("control-error")
			return nil, err
		}
	}
	h := nw.handlers[address]
	out := DialOutcome{Kind: DialRefuse}
	if h != nil {
		out = h(nw.attempts[address], la)
	}
	nw.attempts[address]++
	done := ctxDone(ctx)
	if out.Kind == DialStall {
		vrt.Recv(done, "net.Dialer.DialContext")
		setResult("cancelled")
		if out.OnCancel != nil {
			out.OnCancel()
		}
		return nil, &net.OpError{Op: "dial", Net: "tcp", Addr: ra, Err: ctx.Err()}
	}
	if out.Delay > 0 {
		t := vrt.NewTimer(out.Delay)
		i, _, _ := vrt.Select("net.Dialer.DialContext", false, vrt.RecvCase(done), vrt.RecvCase(t.C))
		if i == 0 {
			t.Stop()
			setResult("cancelled")
			return nil, &net.OpError{Op: "dial", Net: "tcp", Addr: ra, Err: ctx.Err()}
		}
	} else if i, _, _ := vrt.Select("net.Dialer.DialContext", true, vrt.RecvCase(done)); i == 0 {
		setResult("cancelled")
		return nil, &net.OpError{Op: "dial", Net: "tcp", Addr: ra, Err: ctx.Err()}
	}
	if out.Kind == DialRefuse {
		setResult("refused")
		return nil, &net.OpError{Op: "dial", Net: "tcp", Addr: ra, Err: syscall.ECONNREFUSED}
	}
	lib, rem := nw.pair(la, ra, false)
	setResult("connected")
	if out.Serve != nil {
		serve := out.Serve
		vrt.GoWorld(fmt.Sprintf("remote-out%d", lib.ID), func() { serve(rem) })
	}
	if nw.Opaque {
		return opaqueConn{lib}, nil
	}
	return lib, nil
}

// ctxDone returns the Done channel of ctx (nil channel if it has none).
func ctxDone(ctx context.Context) <-chan struct{} {
	if ctx == nil {
		return nil
	}
	return ctx.Done()
}

// ErrRefused reports whether err is a connection-refused error.
func ErrRefused(err error) bool { return errors.Is(err, syscall.ECONNREFUSED) }
