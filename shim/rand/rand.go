// Package rand is the build-time replacement of "math/rand" for the rewritten corebgp package: the
// top-level functions draw from vrt's deterministic, extremes-first sequence while an execution is
// active (see vrt/rand.go) and from the real package otherwise. Explicitly constructed generators
// (rand.New(rand.NewSource(seed))) are deterministic by themselves and are passed through.
package rand

import (
	rr "math/rand"

	"corebgpverif/vrt"
)

type (
	Rand     = rr.Rand
	Source   = rr.Source
	Source64 = rr.Source64
	Zipf     = rr.Zipf
)

func New(src Source) *Rand                             { return rr.New(src) }
func NewSource(seed int64) Source                      { return rr.NewSource(seed) }
func NewZipf(r *Rand, s, v float64, imax uint64) *Zipf { return rr.NewZipf(r, s, v, imax) }
func Seed(seed int64)                                  {}

func on() bool { return vrt.Active() }

func Int63() int64 {
	if !on() {
		return rr.Int63()
	}
	return int64(vrt.RandUint64() >> 1)
}
func Uint32() uint32 {
	if !on() {
		return rr.Uint32()
	}
	return uint32(vrt.RandUint64() >> 32)
}
func Uint64() uint64 {
	if !on() {
		return rr.Uint64()
	}
	return vrt.RandUint64()
}
func Int31() int32 {
	if !on() {
		return rr.Int31()
	}
	return int32(vrt.RandUint64() >> 33)
}
func Int() int {
	if !on() {
		return rr.Int()
	}
	return int(uint(vrt.RandUint64()) >> 1)
}
func Int63n(n int64) int64 {
	if !on() {
		return rr.Int63n(n)
	}
	if n <= 0 {
		panic("invalid argument to Int63n")
	}
	return int64(vrt.RandN(uint64(n)))
}
func Int31n(n int32) int32 {
	if !on() {
		return rr.Int31n(n)
	}
	if n <= 0 {
		panic("invalid argument to Int31n")
	}
	return int32(vrt.RandN(uint64(n)))
}
func Intn(n int) int {
	if !on() {
		return rr.Intn(n)
	}
	if n <= 0 {
		panic("invalid argument to Intn")
	}
	return int(vrt.RandN(uint64(n)))
}
func Float64() float64 {
	if !on() {
		return rr.Float64()
	}
	return vrt.RandFloat()
}
func Float32() float32 {
	if !on() {
		return rr.Float32()
	}
	f := float32(vrt.RandFloat())
	if f >= 1 {
		f = 0.99999994
	}
	return f
}
func NormFloat64() float64 {
	if !on() {
		return rr.NormFloat64()
	}
	return (vrt.RandFloat() - 0.5) * 6
}
func ExpFloat64() float64 {
	if !on() {
		return rr.ExpFloat64()
	}
	return vrt.RandFloat() * 4
}
func Perm(n int) []int {
	if !on() {
		return rr.Perm(n)
	}
	m := make([]int, n)
	for i := range m {
		m[i] = i
	}
	Shuffle(n, func(i, j int) { m[i], m[j] = m[j], m[i] })
	return m
}
func Shuffle(n int, swap func(i, j int)) {
	if !on() {
		rr.Shuffle(n, swap)
		return
	}
	for i := n - 1; i > 0; i-- {
		swap(i, int(vrt.RandN(uint64(i+1))))
	}
}
func Read(p []byte) (int, error) {
	if !on() {
		return rr.Read(p)
	}
	for i := range p {
		p[i] = byte(vrt.RandUint64())
	}
	return len(p), nil
}
