// Package net is the build-time replacement of "net" for the rewritten
// corebgp package: dialing and listening go to the virtual network while an
// execution is active.
package net

import (
	"context"
	"io"
	rn "net"
	"net/netip"
	"syscall"
	"time"

	"corebgpverif/vnet"
	"corebgpverif/vrt"
)

type (
	Conn         = rn.Conn
	Listener     = rn.Listener
	Addr         = rn.Addr
	TCPAddr      = rn.TCPAddr
	UDPAddr      = rn.UDPAddr
	IPAddr       = rn.IPAddr
	IP           = rn.IP
	IPNet        = rn.IPNet
	IPMask       = rn.IPMask
	Error        = rn.Error
	OpError      = rn.OpError
	AddrError    = rn.AddrError
	TCPConn      = vnet.Conn // so that conn.(*net.TCPConn) succeeds on the virtual network as it does on a real one
	TCPListener  = rn.TCPListener
	ListenConfig = rn.ListenConfig
	Resolver     = rn.Resolver

	DNSConfigError      = rn.DNSConfigError
	DNSError            = rn.DNSError
	Flags               = rn.Flags
	HardwareAddr        = rn.HardwareAddr
	IPConn              = rn.IPConn
	Interface           = rn.Interface
	InvalidAddrError    = rn.InvalidAddrError
	KeepAliveConfig     = rn.KeepAliveConfig
	MX                  = rn.MX
	NS                  = rn.NS
	SRV                 = rn.SRV
	PacketConn          = rn.PacketConn
	ParseError          = rn.ParseError
	UDPConn             = rn.UDPConn
	UnixAddr            = rn.UnixAddr
	UnixConn            = rn.UnixConn
	UnixListener        = rn.UnixListener
	UnknownNetworkError = rn.UnknownNetworkError
)

// Buffers is net.Buffers. On a connection of the virtual network WriteTo hands all buffers over in one
// write, as writev does on a *net.TCPConn (the case the library is written for); on any other writer it
// writes buffer by buffer like the original.
type Buffers [][]byte

func (v *Buffers) WriteTo(w io.Writer) (n int64, err error) {
	if c, ok := w.(*vnet.Conn); ok {
		var all []byte
		for _, b := range *v {
			all = append(all, b...)
		}
		nb, err := c.Write(all)
		v.consume(int64(nb))
		return int64(nb), err
	}
	for _, b := range *v {
		nb, err := w.Write(b)
		n += int64(nb)
		if err != nil {
			v.consume(n)
			return n, err
		}
	}
	v.consume(n)
	return n, nil
}

func (v *Buffers) Read(p []byte) (n int, err error) {
	for len(p) > 0 && len(*v) > 0 {
		n0 := copy(p, (*v)[0])
		v.consume(int64(n0))
		p = p[n0:]
		n += n0
	}
	if len(*v) == 0 {
		err = io.EOF
	}
	return
}

func (v *Buffers) consume(n int64) {
	for len(*v) > 0 {
		ln0 := int64(len((*v)[0]))
		if ln0 > n {
			(*v)[0] = (*v)[0][n:]
			return
		}
		n -= ln0
		(*v)[0] = nil
		*v = (*v)[1:]
	}
}

var (
	DefaultResolver     = rn.DefaultResolver
	ErrWriteToConnected = rn.ErrWriteToConnected
	IPv4bcast           = rn.IPv4bcast
)

func CIDRMask(ones, bits int) IPMask                     { return rn.CIDRMask(ones, bits) }
func IPv4Mask(a, b, c, d byte) IPMask                    { return rn.IPv4Mask(a, b, c, d) }
func ParseMAC(s string) (HardwareAddr, error)            { return rn.ParseMAC(s) }
func LookupPort(network, service string) (int, error)    { return rn.LookupPort(network, service) }
func ResolveIPAddr(network, a string) (*IPAddr, error)   { return rn.ResolveIPAddr(network, a) }
func ResolveUDPAddr(network, a string) (*UDPAddr, error) { return rn.ResolveUDPAddr(network, a) }
func TCPAddrFromAddrPort(a netip.AddrPort) *TCPAddr      { return rn.TCPAddrFromAddrPort(a) }
func UDPAddrFromAddrPort(a netip.AddrPort) *UDPAddr      { return rn.UDPAddrFromAddrPort(a) }

var (
	ErrClosed       = rn.ErrClosed
	IPv4zero        = rn.IPv4zero
	IPv6zero        = rn.IPv6zero
	IPv6unspecified = rn.IPv6unspecified
)

const (
	IPv4len = rn.IPv4len
	IPv6len = rn.IPv6len
)

func JoinHostPort(host, port string) string              { return rn.JoinHostPort(host, port) }
func SplitHostPort(hp string) (string, string, error)    { return rn.SplitHostPort(hp) }
func ResolveTCPAddr(network, a string) (*TCPAddr, error) { return rn.ResolveTCPAddr(network, a) }
func ParseIP(s string) IP                                { return rn.ParseIP(s) }
func ParseCIDR(s string) (IP, *IPNet, error)             { return rn.ParseCIDR(s) }
func IPv4(a, b, c, d byte) IP                            { return rn.IPv4(a, b, c, d) }

// Dialer mirrors net.Dialer (the fields corebgp and plausible variants use).
type Dialer struct {
	Timeout        time.Duration
	Deadline       time.Time
	LocalAddr      Addr
	KeepAlive      time.Duration
	FallbackDelay  time.Duration
	Control        func(network, address string, c syscall.RawConn) error
	ControlContext func(ctx context.Context, network, address string, c syscall.RawConn) error
}

func (d *Dialer) real() *rn.Dialer {
	return &rn.Dialer{Timeout: d.Timeout, Deadline: d.Deadline, LocalAddr: d.LocalAddr, KeepAlive: d.KeepAlive,
		FallbackDelay: d.FallbackDelay, Control: d.Control, ControlContext: d.ControlContext}
}

func (d *Dialer) DialContext(ctx context.Context, network, address string) (Conn, error) {
	if !vrt.Active() {
		return d.real().DialContext(ctx, network, address)
	}
	control := d.Control
	if control == nil && d.ControlContext != nil {
		cc := d.ControlContext
		control = func(n, a string, c syscall.RawConn) error { return cc(ctx, n, a, c) }
	}
	return vnet.Current().Dial(ctx, d.LocalAddr, address, control)
}

func (d *Dialer) Dial(network, address string) (Conn, error) {
	return d.DialContext(context.Background(), network, address)
}

func Dial(network, address string) (Conn, error) {
	return (&Dialer{}).Dial(network, address)
}

func DialTimeout(network, address string, timeout time.Duration) (Conn, error) {
	return (&Dialer{Timeout: timeout}).Dial(network, address)
}

func Listen(network, address string) (Listener, error) {
	if !vrt.Active() {
		return rn.Listen(network, address)
	}
	return vnet.Current().Listen(address)
}
