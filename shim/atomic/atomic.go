// Package atomic is the build-time replacement of "sync/atomic" for the
// rewritten corebgp package: every operation is the real one, preceded by a
// visible scheduling point that orders it with the earlier operations on the
// same variable (vrt.SyncObj / vrt.AtomicAddr).
package atomic

import (
	ra "sync/atomic"
	"unsafe"

	"corebgpverif/vrt"
)

type Int32 struct {
	v  ra.Int32
	so vrt.SyncObj
}

func (x *Int32) Load() int32        { x.so.Op("atomic.Int32.Load"); return x.v.Load() }
func (x *Int32) Store(v int32)      { x.so.Op("atomic.Int32.Store"); x.v.Store(v) }
func (x *Int32) Swap(v int32) int32 { x.so.Op("atomic.Int32.Swap"); return x.v.Swap(v) }
func (x *Int32) Add(d int32) int32  { x.so.Op("atomic.Int32.Add"); return x.v.Add(d) }
func (x *Int32) And(m int32) int32  { x.so.Op("atomic.Int32.And"); return x.v.And(m) }
func (x *Int32) Or(m int32) int32   { x.so.Op("atomic.Int32.Or"); return x.v.Or(m) }
func (x *Int32) CompareAndSwap(o, n int32) bool {
	x.so.Op("atomic.Int32.CompareAndSwap")
	return x.v.CompareAndSwap(o, n)
}

type Int64 struct {
	v  ra.Int64
	so vrt.SyncObj
}

func (x *Int64) Load() int64        { x.so.Op("atomic.Int64.Load"); return x.v.Load() }
func (x *Int64) Store(v int64)      { x.so.Op("atomic.Int64.Store"); x.v.Store(v) }
func (x *Int64) Swap(v int64) int64 { x.so.Op("atomic.Int64.Swap"); return x.v.Swap(v) }
func (x *Int64) Add(d int64) int64  { x.so.Op("atomic.Int64.Add"); return x.v.Add(d) }
func (x *Int64) And(m int64) int64  { x.so.Op("atomic.Int64.And"); return x.v.And(m) }
func (x *Int64) Or(m int64) int64   { x.so.Op("atomic.Int64.Or"); return x.v.Or(m) }
func (x *Int64) CompareAndSwap(o, n int64) bool {
	x.so.Op("atomic.Int64.CompareAndSwap")
	return x.v.CompareAndSwap(o, n)
}

type Uint32 struct {
	v  ra.Uint32
	so vrt.SyncObj
}

func (x *Uint32) Load() uint32         { x.so.Op("atomic.Uint32.Load"); return x.v.Load() }
func (x *Uint32) Store(v uint32)       { x.so.Op("atomic.Uint32.Store"); x.v.Store(v) }
func (x *Uint32) Swap(v uint32) uint32 { x.so.Op("atomic.Uint32.Swap"); return x.v.Swap(v) }
func (x *Uint32) Add(d uint32) uint32  { x.so.Op("atomic.Uint32.Add"); return x.v.Add(d) }
func (x *Uint32) And(m uint32) uint32  { x.so.Op("atomic.Uint32.And"); return x.v.And(m) }
func (x *Uint32) Or(m uint32) uint32   { x.so.Op("atomic.Uint32.Or"); return x.v.Or(m) }
func (x *Uint32) CompareAndSwap(o, n uint32) bool {
	x.so.Op("atomic.Uint32.CompareAndSwap")
	return x.v.CompareAndSwap(o, n)
}

type Uint64 struct {
	v  ra.Uint64
	so vrt.SyncObj
}

func (x *Uint64) Load() uint64         { x.so.Op("atomic.Uint64.Load"); return x.v.Load() }
func (x *Uint64) Store(v uint64)       { x.so.Op("atomic.Uint64.Store"); x.v.Store(v) }
func (x *Uint64) Swap(v uint64) uint64 { x.so.Op("atomic.Uint64.Swap"); return x.v.Swap(v) }
func (x *Uint64) Add(d uint64) uint64  { x.so.Op("atomic.Uint64.Add"); return x.v.Add(d) }
func (x *Uint64) And(m uint64) uint64  { x.so.Op("atomic.Uint64.And"); return x.v.And(m) }
func (x *Uint64) Or(m uint64) uint64   { x.so.Op("atomic.Uint64.Or"); return x.v.Or(m) }
func (x *Uint64) CompareAndSwap(o, n uint64) bool {
	x.so.Op("atomic.Uint64.CompareAndSwap")
	return x.v.CompareAndSwap(o, n)
}

type Uintptr struct {
	v  ra.Uintptr
	so vrt.SyncObj
}

func (x *Uintptr) Load() uintptr          { x.so.Op("atomic.Uintptr.Load"); return x.v.Load() }
func (x *Uintptr) Store(v uintptr)        { x.so.Op("atomic.Uintptr.Store"); x.v.Store(v) }
func (x *Uintptr) Swap(v uintptr) uintptr { x.so.Op("atomic.Uintptr.Swap"); return x.v.Swap(v) }
func (x *Uintptr) Add(d uintptr) uintptr  { x.so.Op("atomic.Uintptr.Add"); return x.v.Add(d) }
func (x *Uintptr) CompareAndSwap(o, n uintptr) bool {
	x.so.Op("atomic.Uintptr.CompareAndSwap")
	return x.v.CompareAndSwap(o, n)
}

type Bool struct {
	v  ra.Bool
	so vrt.SyncObj
}

func (x *Bool) Load() bool       { x.so.Op("atomic.Bool.Load"); return x.v.Load() }
func (x *Bool) Store(v bool)     { x.so.Op("atomic.Bool.Store"); x.v.Store(v) }
func (x *Bool) Swap(v bool) bool { x.so.Op("atomic.Bool.Swap"); return x.v.Swap(v) }
func (x *Bool) CompareAndSwap(o, n bool) bool {
	x.so.Op("atomic.Bool.CompareAndSwap")
	return x.v.CompareAndSwap(o, n)
}

type Pointer[T any] struct {
	v  ra.Pointer[T]
	so vrt.SyncObj
}

func (x *Pointer[T]) Load() *T     { x.so.Op("atomic.Pointer.Load"); return x.v.Load() }
func (x *Pointer[T]) Store(v *T)   { x.so.Op("atomic.Pointer.Store"); x.v.Store(v) }
func (x *Pointer[T]) Swap(v *T) *T { x.so.Op("atomic.Pointer.Swap"); return x.v.Swap(v) }
func (x *Pointer[T]) CompareAndSwap(o, n *T) bool {
	x.so.Op("atomic.Pointer.CompareAndSwap")
	return x.v.CompareAndSwap(o, n)
}

type Value struct {
	v  ra.Value
	so vrt.SyncObj
}

func (x *Value) Load() any      { x.so.Op("atomic.Value.Load"); return x.v.Load() }
func (x *Value) Store(v any)    { x.so.Op("atomic.Value.Store"); x.v.Store(v) }
func (x *Value) Swap(v any) any { x.so.Op("atomic.Value.Swap"); return x.v.Swap(v) }
func (x *Value) CompareAndSwap(o, n any) bool {
	x.so.Op("atomic.Value.CompareAndSwap")
	return x.v.CompareAndSwap(o, n)
}

func at[T any](p *T, site string) { vrt.AtomicAddr(unsafe.Pointer(p), site) }

func LoadInt32(p *int32) int32       { at(p, "atomic.LoadInt32"); return ra.LoadInt32(p) }
func LoadInt64(p *int64) int64       { at(p, "atomic.LoadInt64"); return ra.LoadInt64(p) }
func LoadUint32(p *uint32) uint32    { at(p, "atomic.LoadUint32"); return ra.LoadUint32(p) }
func LoadUint64(p *uint64) uint64    { at(p, "atomic.LoadUint64"); return ra.LoadUint64(p) }
func LoadUintptr(p *uintptr) uintptr { at(p, "atomic.LoadUintptr"); return ra.LoadUintptr(p) }
func LoadPointer(p *unsafe.Pointer) unsafe.Pointer {
	at(p, "atomic.LoadPointer")
	return ra.LoadPointer(p)
}
func StoreInt32(p *int32, v int32)       { at(p, "atomic.StoreInt32"); ra.StoreInt32(p, v) }
func StoreInt64(p *int64, v int64)       { at(p, "atomic.StoreInt64"); ra.StoreInt64(p, v) }
func StoreUint32(p *uint32, v uint32)    { at(p, "atomic.StoreUint32"); ra.StoreUint32(p, v) }
func StoreUint64(p *uint64, v uint64)    { at(p, "atomic.StoreUint64"); ra.StoreUint64(p, v) }
func StoreUintptr(p *uintptr, v uintptr) { at(p, "atomic.StoreUintptr"); ra.StoreUintptr(p, v) }
func StorePointer(p *unsafe.Pointer, v unsafe.Pointer) {
	at(p, "atomic.StorePointer")
	ra.StorePointer(p, v)
}
func AddInt32(p *int32, d int32) int32     { at(p, "atomic.AddInt32"); return ra.AddInt32(p, d) }
func AddInt64(p *int64, d int64) int64     { at(p, "atomic.AddInt64"); return ra.AddInt64(p, d) }
func AddUint32(p *uint32, d uint32) uint32 { at(p, "atomic.AddUint32"); return ra.AddUint32(p, d) }
func AddUint64(p *uint64, d uint64) uint64 { at(p, "atomic.AddUint64"); return ra.AddUint64(p, d) }
func AddUintptr(p *uintptr, d uintptr) uintptr {
	at(p, "atomic.AddUintptr")
	return ra.AddUintptr(p, d)
}
func SwapInt32(p *int32, v int32) int32     { at(p, "atomic.SwapInt32"); return ra.SwapInt32(p, v) }
func SwapInt64(p *int64, v int64) int64     { at(p, "atomic.SwapInt64"); return ra.SwapInt64(p, v) }
func SwapUint32(p *uint32, v uint32) uint32 { at(p, "atomic.SwapUint32"); return ra.SwapUint32(p, v) }
func SwapUint64(p *uint64, v uint64) uint64 { at(p, "atomic.SwapUint64"); return ra.SwapUint64(p, v) }
func SwapUintptr(p *uintptr, v uintptr) uintptr {
	at(p, "atomic.SwapUintptr")
	return ra.SwapUintptr(p, v)
}
func SwapPointer(p *unsafe.Pointer, v unsafe.Pointer) unsafe.Pointer {
	at(p, "atomic.SwapPointer")
	return ra.SwapPointer(p, v)
}
func CompareAndSwapInt32(p *int32, o, n int32) bool {
	at(p, "atomic.CompareAndSwapInt32")
	return ra.CompareAndSwapInt32(p, o, n)
}
func CompareAndSwapInt64(p *int64, o, n int64) bool {
	at(p, "atomic.CompareAndSwapInt64")
	return ra.CompareAndSwapInt64(p, o, n)
}
func CompareAndSwapUint32(p *uint32, o, n uint32) bool {
	at(p, "atomic.CompareAndSwapUint32")
	return ra.CompareAndSwapUint32(p, o, n)
}
func CompareAndSwapUint64(p *uint64, o, n uint64) bool {
	at(p, "atomic.CompareAndSwapUint64")
	return ra.CompareAndSwapUint64(p, o, n)
}
func CompareAndSwapUintptr(p *uintptr, o, n uintptr) bool {
	at(p, "atomic.CompareAndSwapUintptr")
	return ra.CompareAndSwapUintptr(p, o, n)
}
func CompareAndSwapPointer(p *unsafe.Pointer, o, n unsafe.Pointer) bool {
	at(p, "atomic.CompareAndSwapPointer")
	return ra.CompareAndSwapPointer(p, o, n)
}
func AndInt32(p *int32, m int32) int32     { at(p, "atomic.AndInt32"); return ra.AndInt32(p, m) }
func AndInt64(p *int64, m int64) int64     { at(p, "atomic.AndInt64"); return ra.AndInt64(p, m) }
func AndUint32(p *uint32, m uint32) uint32 { at(p, "atomic.AndUint32"); return ra.AndUint32(p, m) }
func AndUint64(p *uint64, m uint64) uint64 { at(p, "atomic.AndUint64"); return ra.AndUint64(p, m) }
func OrInt32(p *int32, m int32) int32      { at(p, "atomic.OrInt32"); return ra.OrInt32(p, m) }
func OrInt64(p *int64, m int64) int64      { at(p, "atomic.OrInt64"); return ra.OrInt64(p, m) }
func OrUint32(p *uint32, m uint32) uint32  { at(p, "atomic.OrUint32"); return ra.OrUint32(p, m) }
func OrUint64(p *uint64, m uint64) uint64  { at(p, "atomic.OrUint64"); return ra.OrUint64(p, m) }
func AndUintptr(p *uintptr, m uintptr) uintptr {
	at(p, "atomic.AndUintptr")
	return ra.AndUintptr(p, m)
}
func OrUintptr(p *uintptr, m uintptr) uintptr { at(p, "atomic.OrUintptr"); return ra.OrUintptr(p, m) }
