// Package context is the build-time replacement of "context" for the
// rewritten corebgp package: cancellation channels are vrt channels while an
// execution is active.
package context

import (
	rc "context"
	"time"

	"corebgpverif/vrt"
)

type (
	Context         = rc.Context
	CancelFunc      = rc.CancelFunc
	CancelCauseFunc = rc.CancelCauseFunc
)

var (
	Canceled         = rc.Canceled
	DeadlineExceeded = rc.DeadlineExceeded
)

func Background() Context                        { return rc.Background() }
func TODO() Context                              { return rc.TODO() }
func WithValue(parent Context, k, v any) Context { return rc.WithValue(parent, k, v) }
func Cause(c Context) error                      { return rc.Cause(c) }
func WithoutCancel(parent Context) Context       { return rc.WithoutCancel(parent) }

type vctxKeyT struct{}

var vctxKey vctxKeyT

type vctx struct {
	parent   Context
	done     chan struct{}
	err      error
	children []*vctx
	deadline time.Time
	hasDL    bool
	timer    *vrt.Timer
}

func (c *vctx) Deadline() (time.Time, bool) {
	if c.hasDL {
		return c.deadline, true
	}
	return c.parent.Deadline()
}
func (c *vctx) Done() <-chan struct{} { return c.done }
func (c *vctx) Err() error            { return c.err }
func (c *vctx) Value(k any) any {
	if k == any(&vctxKey) {
		return c
	}
	return c.parent.Value(k)
}

func (c *vctx) cancel(err error) {
	if c.err != nil {
		return
	}
	c.err = err
	vrt.Close(c.done, "context.cancel")
	if c.timer != nil {
		c.timer.Stop()
	}
	for _, ch := range c.children {
		ch.cancel(err)
	}
}

func newVctx(parent Context) *vctx {
	c := &vctx{parent: parent, done: vrt.MakeChan[struct{}](0, "context.WithCancel")}
	if p, ok := parent.Value(&vctxKey).(*vctx); ok {
		if p.err != nil {
			c.cancel(p.err)
		} else {
			p.children = append(p.children, c)
		}
	}
	return c
}

func WithCancel(parent Context) (Context, CancelFunc) {
	if !vrt.Active() {
		return rc.WithCancel(parent)
	}
	c := newVctx(parent)
	return c, func() { c.cancel(Canceled) }
}

func WithCancelCause(parent Context) (Context, CancelCauseFunc) {
	if !vrt.Active() {
		return rc.WithCancelCause(parent)
	}
	c := newVctx(parent)
	return c, func(error) { c.cancel(Canceled) }
}

func WithDeadline(parent Context, d time.Time) (Context, CancelFunc) {
	if !vrt.Active() {
		return rc.WithDeadline(parent, d)
	}
	c := newVctx(parent)
	c.deadline, c.hasDL = d, true
	if c.err == nil {
		c.timer = vrt.AfterFunc(d.Sub(vrt.TimeNow()), func() { c.cancel(DeadlineExceeded) })
	}
	return c, func() { c.cancel(Canceled) }
}

func WithTimeout(parent Context, d time.Duration) (Context, CancelFunc) {
	if !vrt.Active() {
		return rc.WithTimeout(parent, d)
	}
	return WithDeadline(parent, vrt.TimeNow().Add(d))
}

func WithDeadlineCause(parent Context, d time.Time, cause error) (Context, CancelFunc) {
	if !vrt.Active() {
		return rc.WithDeadlineCause(parent, d, cause)
	}
	return WithDeadline(parent, d)
}

func WithTimeoutCause(parent Context, d time.Duration, cause error) (Context, CancelFunc) {
	if !vrt.Active() {
		return rc.WithTimeoutCause(parent, d, cause)
	}
	return WithTimeout(parent, d)
}

// AfterFunc runs f in its own goroutine once ctx is done; stop prevents that if it has not
// started yet.
func AfterFunc(ctx Context, f func()) (stop func() bool) {
	if !vrt.Active() {
		return rc.AfterFunc(ctx, f)
	}
	stopCh := vrt.MakeChan[struct{}](0, "context.AfterFunc")
	state := 0 // 0 waiting, 1 running, 2 stopped
	vrt.Go("context.AfterFunc", func() {
		i, _, _ := vrt.Select("context.AfterFunc", false, vrt.RecvCase(ctx.Done()), vrt.RecvCase((<-chan struct{})(stopCh)))
		if i == 0 && state == 0 {
			state = 1
			f()
		}
	})
	return func() bool {
		if state != 0 {
			return false
		}
		state = 2
		vrt.Close(stopCh, "context.AfterFunc.stop")
		return true
	}
}
