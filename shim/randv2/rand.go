// Package rand is the build-time replacement of "math/rand/v2" for the rewritten corebgp package
// (see shim/rand).
package rand

import (
	"time"

	rr "math/rand/v2"

	"corebgpverif/vrt"
)

type (
	Rand    = rr.Rand
	Source  = rr.Source
	PCG     = rr.PCG
	ChaCha8 = rr.ChaCha8
	Zipf    = rr.Zipf
)

func New(src Source) *Rand                             { return rr.New(src) }
func NewPCG(s1, s2 uint64) *PCG                        { return rr.NewPCG(s1, s2) }
func NewChaCha8(seed [32]byte) *ChaCha8                { return rr.NewChaCha8(seed) }
func NewZipf(r *Rand, s, v float64, imax uint64) *Zipf { return rr.NewZipf(r, s, v, imax) }

func on() bool { return vrt.Active() }

func bounded[T ~int | ~int32 | ~int64 | ~uint | ~uint32 | ~uint64](n T, name string) T {
	if n <= 0 {
		panic("invalid argument to " + name)
	}
	return T(vrt.RandN(uint64(n)))
}

func Int64() int64 {
	if !on() {
		return rr.Int64()
	}
	return int64(vrt.RandUint64() >> 1)
}
func Uint32() uint32 {
	if !on() {
		return rr.Uint32()
	}
	return uint32(vrt.RandUint64() >> 32)
}
func Uint64() uint64 {
	if !on() {
		return rr.Uint64()
	}
	return vrt.RandUint64()
}
func Int32() int32 {
	if !on() {
		return rr.Int32()
	}
	return int32(vrt.RandUint64() >> 33)
}
func Int() int {
	if !on() {
		return rr.Int()
	}
	return int(uint(vrt.RandUint64()) >> 1)
}
func Uint() uint {
	if !on() {
		return rr.Uint()
	}
	return uint(vrt.RandUint64())
}
func Int64N(n int64) int64 {
	if !on() {
		return rr.Int64N(n)
	}
	return bounded(n, "Int64N")
}
func Uint64N(n uint64) uint64 {
	if !on() {
		return rr.Uint64N(n)
	}
	return bounded(n, "Uint64N")
}
func Int32N(n int32) int32 {
	if !on() {
		return rr.Int32N(n)
	}
	return bounded(n, "Int32N")
}
func Uint32N(n uint32) uint32 {
	if !on() {
		return rr.Uint32N(n)
	}
	return bounded(n, "Uint32N")
}
func IntN(n int) int {
	if !on() {
		return rr.IntN(n)
	}
	return bounded(n, "IntN")
}
func UintN(n uint) uint {
	if !on() {
		return rr.UintN(n)
	}
	return bounded(n, "UintN")
}
func N[Int ~int | ~int8 | ~int16 | ~int32 | ~int64 | ~uint | ~uint8 | ~uint16 | ~uint32 | ~uint64 | ~uintptr](n Int) Int {
	if !on() {
		return rr.N(n)
	}
	if n <= 0 {
		panic("invalid argument to N")
	}
	return Int(vrt.RandN(uint64(n)))
}
func Float64() float64 {
	if !on() {
		return rr.Float64()
	}
	return vrt.RandFloat()
}
func Float32() float32 {
	if !on() {
		return rr.Float32()
	}
	f := float32(vrt.RandFloat())
	if f >= 1 {
		f = 0.99999994
	}
	return f
}
func NormFloat64() float64 {
	if !on() {
		return rr.NormFloat64()
	}
	return (vrt.RandFloat() - 0.5) * 6
}
func ExpFloat64() float64 {
	if !on() {
		return rr.ExpFloat64()
	}
	return vrt.RandFloat() * 4
}
func Perm(n int) []int {
	if !on() {
		return rr.Perm(n)
	}
	m := make([]int, n)
	for i := range m {
		m[i] = i
	}
	Shuffle(n, func(i, j int) { m[i], m[j] = m[j], m[i] })
	return m
}
func Shuffle(n int, swap func(i, j int)) {
	if !on() {
		rr.Shuffle(n, swap)
		return
	}
	for i := n - 1; i > 0; i-- {
		swap(i, int(vrt.RandN(uint64(i+1))))
	}
}

var _ = time.Second
