// Package time is the build-time replacement of "time" for the rewritten
// corebgp package: clocks and timers are virtual while an execution is active.
package time

import (
	rt "time"

	"corebgpverif/vrt"
)

type (
	Duration   = rt.Duration
	Time       = rt.Time
	Month      = rt.Month
	Weekday    = rt.Weekday
	Location   = rt.Location
	ParseError = rt.ParseError
	Timer      = vrt.Timer
	Ticker     = vrt.Ticker
)

const (
	Nanosecond  = rt.Nanosecond
	Microsecond = rt.Microsecond
	Millisecond = rt.Millisecond
	Second      = rt.Second
	Minute      = rt.Minute
	Hour        = rt.Hour

	Layout      = rt.Layout
	ANSIC       = rt.ANSIC
	UnixDate    = rt.UnixDate
	RFC822      = rt.RFC822
	RFC1123     = rt.RFC1123
	RFC3339     = rt.RFC3339
	RFC3339Nano = rt.RFC3339Nano
	Kitchen     = rt.Kitchen
	Stamp       = rt.Stamp
	DateTime    = rt.DateTime
	DateOnly    = rt.DateOnly
	TimeOnly    = rt.TimeOnly

	January   = rt.January
	February  = rt.February
	March     = rt.March
	April     = rt.April
	May       = rt.May
	June      = rt.June
	July      = rt.July
	August    = rt.August
	September = rt.September
	October   = rt.October
	November  = rt.November
	December  = rt.December
	Sunday    = rt.Sunday
	Monday    = rt.Monday
	Tuesday   = rt.Tuesday
	Wednesday = rt.Wednesday
	Thursday  = rt.Thursday
	Friday    = rt.Friday
	Saturday  = rt.Saturday

	RFC850     = rt.RFC850
	RFC822Z    = rt.RFC822Z
	RFC1123Z   = rt.RFC1123Z
	RubyDate   = rt.RubyDate
	StampMilli = rt.StampMilli
	StampMicro = rt.StampMicro
	StampNano  = rt.StampNano
)

var (
	UTC   = rt.UTC
	Local = rt.Local
)

func Now() Time                                   { return vrt.TimeNow() }
func Since(t Time) Duration                       { return vrt.TimeNow().Sub(t) }
func Until(t Time) Duration                       { return t.Sub(vrt.TimeNow()) }
func NewTimer(d Duration) *Timer                  { return vrt.NewTimer(d) }
func After(d Duration) <-chan Time                { return vrt.After(d) }
func AfterFunc(d Duration, f func()) *Timer       { return vrt.AfterFunc(d, f) }
func Sleep(d Duration)                            { vrt.Sleep(d) }
func NewTicker(d Duration) *Ticker                { return vrt.NewTicker(d) }
func Tick(d Duration) <-chan Time                 { return vrt.NewTicker(d).C }
func Unix(sec, nsec int64) Time                   { return rt.Unix(sec, nsec) }
func UnixMilli(ms int64) Time                     { return rt.UnixMilli(ms) }
func UnixMicro(us int64) Time                     { return rt.UnixMicro(us) }
func ParseDuration(s string) (Duration, error)    { return rt.ParseDuration(s) }
func Parse(layout, value string) (Time, error)    { return rt.Parse(layout, value) }
func FixedZone(name string, off int) *Location    { return rt.FixedZone(name, off) }
func LoadLocation(name string) (*Location, error) { return rt.LoadLocation(name) }
func Date(year int, month Month, day, hour, min, sec, nsec int, loc *Location) Time {
	return rt.Date(year, month, day, hour, min, sec, nsec, loc)
}

func ParseInLocation(layout, value string, loc *Location) (Time, error) {
	return rt.ParseInLocation(layout, value, loc)
}
func LoadLocationFromTZData(name string, data []byte) (*Location, error) {
	return rt.LoadLocationFromTZData(name, data)
}
