// Package sync is the build-time replacement of "sync" for the rewritten
// corebgp package: blocking primitives are served by vrt.
package sync

import (
	rs "sync"

	"corebgpverif/vrt"
)

type (
	Mutex     = vrt.Mutex
	RWMutex   = vrt.RWMutex
	Once      = vrt.Once
	WaitGroup = vrt.WaitGroup
	Cond      = vrt.Cond
	Locker    = rs.Locker
	Map       = rs.Map
	Pool      = rs.Pool
)

func NewCond(l Locker) *Cond { return vrt.NewCond(l) }

func OnceFunc(f func()) func() {
	var o Once
	return func() { o.Do(f) }
}
