// Package sync is the build-time replacement of "sync" for the rewritten
// corebgp package: blocking primitives are served by vrt.
package sync

import (
	rs "sync"

	"corebgpverif/vrt"
)

type (
	Mutex     = vrt.Mutex
	RWMutex   = vrt.RWMutex
	Once      = vrt.Once
	WaitGroup = vrt.WaitGroup
	Cond      = vrt.Cond
	Locker    = rs.Locker
	Map       = vrt.Map
	Pool      = vrt.Pool
)

func NewCond(l Locker) *Cond { return vrt.NewCond(l) }

func OnceFunc(f func()) func() {
	var o Once
	return func() { o.Do(f) }
}

func OnceValue[T any](f func() T) func() T {
	var o Once
	var v T
	return func() T { o.Do(func() { v = f() }); return v }
}

func OnceValues[T1, T2 any](f func() (T1, T2)) func() (T1, T2) {
	var o Once
	var v1 T1
	var v2 T2
	return func() (T1, T2) { o.Do(func() { v1, v2 = f() }); return v1, v2 }
}
